"""W4b `hostile` -- decoders and boolean verifiers a receiver runs on what a
peer sent (C19), with the hostile shapes a byte-level walk of an honest
encoding does not produce: long runs of one octet, counts far beyond the
data, nesting depth, branch lengths.

Actors: a malicious peer that writes the bytes; a receiving node that hands
them to the library the way a node does (BIP157 client: `CFilter` payload ->
`BasicBlockFilter` -> `match`; SPV client: `merkle_proof.verify`; a wallet:
`dleq.verify_proof`, `bms.verify`; a restorer: SLIP39 share sets whose members
are each well-formed and do not belong together). Each call runs under a per-call CPU
budget.

Invariants (C19)
- only-library-exceptions: a parser / decoder either returns or raises a
  `BTClibException`; nothing else (RecursionError, IndexError, OverflowError,
  MemoryError ...) leaves it.
- predicate-total: a boolean verifier answers True or False.
- no-hang: each call returns within its CPU budget (10 s; honest calls on
  inputs of this size take microseconds to milliseconds).
"""

from __future__ import annotations

import signal
from typing import Any, Callable

from btclib.exceptions import BTClibException

from btcsim.core.ctx import Ctx
from btcsim.core.runner import Plan

P19 = "C19"
CPU_BUDGET_S = 10.0


class _Hang(BaseException):
    pass


def _on_vtalrm(signum: int, frame: Any) -> None:
    raise _Hang


def _call(ctx: Ctx, site: str, fn: Callable[[], Any], *, predicate: bool = False) -> Any:
    signal.setitimer(signal.ITIMER_VIRTUAL, CPU_BUDGET_S)
    try:
        out = fn()
        verdict = "returned"
    except BTClibException as e:
        out, verdict = e, "refused"
    except _Hang:
        out, verdict = None, "hang"
    except RecursionError as e:
        out, verdict = e, "RecursionError"
    except Exception as e:  # noqa: BLE001
        out, verdict = e, f"{type(e).__name__}: {e}"
    finally:
        signal.setitimer(signal.ITIMER_VIRTUAL, 0)
    ctx.probe(f"{verdict.split(':')[0]}:{site.split('/')[0]}")
    ctx.check(P19, "no-hang", verdict != "hang", f"{site}: more than {CPU_BUDGET_S} s of CPU", site=site)
    ctx.check(P19, "only-library-exceptions", verdict in ("returned", "refused", "hang"), lambda: f"{site}: {verdict}"[:300], site=site)
    if predicate and verdict == "returned":
        ctx.check(P19, "predicate-total", out is True or out is False, lambda: f"{site}: answered {out!r}", site=site)
    if predicate:
        # a verifier documented as boolean turns refusals into False itself
        ctx.check(P19, "predicate-total", verdict != "refused", lambda: f"{site}: raised {type(out).__name__} instead of answering False", site=site)
    return out if verdict == "returned" else None


def _stream(ch: Any, label: str) -> bytes:
    """Octets a malicious peer may put where a coded stream goes: runs, noise, and their mixtures."""
    parts = []
    for _ in range(1 + ch.draw(3, label + ".parts")):
        kind = ch.draw(4, label + ".kind")
        if kind == 0:
            parts.append(ch.nbytes(ch.draw(40, label + ".n"), label + ".noise"))
        else:
            n = ch.pick([1, 8, 64, 1000, 8192, 20000, 65536], label + ".run")
            parts.append(ch.pick([b"\xff", b"\x00", b"\xaa", b"\x80"], label + ".octet") * n)
    return b"".join(parts)


def _varint(n: int) -> bytes:
    if n < 0xFD:
        return bytes([n])
    if n <= 0xFFFF:
        return b"\xfd" + n.to_bytes(2, "little")
    if n <= 0xFFFFFFFF:
        return b"\xfe" + n.to_bytes(4, "little")
    return b"\xff" + n.to_bytes(8, "little")


def _filters(ctx: Ctx) -> None:
    from btclib import p2p  # noqa: PLC0415
    from btclib.block.block_filter import BasicBlockFilter  # noqa: PLC0415

    ch = ctx.ch
    count = ch.pick([1, 0, 2, 7, 252, 253, 65536, 2**32 - 1, 2**63], "f.count")
    body = _varint(count) + _stream(ch, "f")
    block_hash = ch.nbytes(32, "f.hash")
    ctx.log("cfilter", count, len(body))
    ctx.fault("hostile-filter", f"count={count} len={len(body)}")
    for cv in (True, False):
        f = _call(ctx, f"BasicBlockFilter.parse/cv={cv}", lambda cv=cv: BasicBlockFilter.parse(body, block_hash, check_validity=cv))
        if f is None:
            continue
        _call(ctx, "BasicBlockFilter.match/hostile-set", lambda f=f: f.match(b"\x00\x14" + bytes(20)), predicate=False)
        _call(ctx, "BasicBlockFilter.match_any/hostile-set", lambda f=f: f.match_any([b"\x51", b"\x00\x14" + bytes(20)]))
        _call(ctx, "BasicBlockFilter.element_hashes/hostile-set", lambda f=f: f.element_hashes)
        _call(ctx, "BasicBlockFilter.serialize/hostile-set", lambda f=f: f.serialize())
        _call(ctx, "BasicBlockFilter.hash/hostile-set", lambda f=f: f.hash)
    # the same octets as they arrive: inside a cfilter payload
    payload = bytes([0]) + block_hash[::-1] + _varint(len(body)) + body
    cf = _call(ctx, "CFilter.parse/hostile-set", lambda: p2p.CFilter.parse(payload))
    if cf is not None:
        bf = _call(ctx, "CFilter.basic_filter/hostile-set", lambda: cf.basic_filter)
        if bf is not None:
            _call(ctx, "BasicBlockFilter.match/hostile-set", lambda: bf.match(b"\x51"))


def _proofs(ctx: Ctx) -> None:
    from btclib.block import merkle_proof  # noqa: PLC0415

    ch = ctx.ch
    n = ch.pick([0, 1, 2, 12, 32, 33, 64, 300, 5000], "p.len")
    branch: list[Any] = [ch.nbytes(ch.pick([32, 32, 32, 31, 33, 0, 64], "p.hlen"), "p.h") for _ in range(min(n, 40))] * (1 + n // 40)
    index = ch.pick([0, 1, 2**31, 2**32, 2**64, 2**300, -1], "p.index")
    leaf = ch.nbytes(ch.pick([32, 32, 31, 0, 64], "p.leaflen"), "p.leaf")
    root = ch.nbytes(ch.pick([32, 32, 31, 0], "p.rootlen"), "p.root")
    ctx.log("proof", len(branch), index if abs(index) < 2**33 else "huge")
    ctx.fault("hostile-branch", len(branch))
    _call(ctx, "merkle_proof.verify/hostile-branch", lambda: merkle_proof.verify(leaf, branch, index, root), predicate=True)


def _signatures(ctx: Ctx) -> None:
    from btclib.ecc import bms, dleq  # noqa: PLC0415

    ch = ctx.ch
    msg = ch.nbytes(ch.draw(40, "s.msglen"), "s.msg")
    addr = ch.pick(["1BvBMSEYstWetqTFn5Au4m4GFg7xJaNVN2", "bc1qw508d6qejxtdg4y5r3zarvary0c5xw7kv8f3t4", "", "x" * 3000, "bc1" + "q" * 5000], "s.addr")
    sig = _stream(ch, "s.sig")[: ch.pick([65, 64, 66, 0, 1, 4096, 70000], "s.siglen")]
    ctx.fault("hostile-signature", len(sig))
    _call(ctx, "bms.verify/hostile-signature", lambda: bms.verify(msg, addr, sig), predicate=True)
    _call(ctx, "bms.verify/hostile-text", lambda: bms.verify(msg, addr, sig.hex()[: ch.draw(200, "s.textlen")]), predicate=True)
    point = ch.nbytes(33, "s.point")
    proof = _stream(ch, "s.proof")[: ch.pick([64, 0, 63, 65, 4096], "s.prooflen")]
    _call(ctx, "dleq.verify_proof/hostile-proof", lambda: dleq.verify_proof(point, point, point, proof), predicate=True)


MEMORY_BUDGET = 6 << 30


class memory_budget:
    """An address-space ceiling while hostile input is being decoded: a decoder that allocates without bound raises
    MemoryError (a non-library exception, judged like any other) instead of taking the worker down with it."""

    def __enter__(self) -> None:
        import resource  # noqa: PLC0415

        self.old = resource.getrlimit(resource.RLIMIT_AS)
        hard = self.old[1]
        resource.setrlimit(resource.RLIMIT_AS, (MEMORY_BUDGET if hard == resource.RLIM_INFINITY else min(MEMORY_BUDGET, hard), hard))

    def __exit__(self, *exc: object) -> None:
        import resource  # noqa: PLC0415

        resource.setrlimit(resource.RLIMIT_AS, self.old)


def _shares(ctx: Ctx) -> None:
    """A malicious custodian hands back SLIP39 shares that are each well-formed (valid RS1024 checksum, fields in
    range -- written with the library's own share writer) and do not belong together: lengths, thresholds, counts,
    identifiers, indexes that disagree between shares or between groups, in a drawn order."""
    from btclib.mnemonic import slip39  # noqa: PLC0415

    # iteration exponents stay <= 3: the format allows 15, which is 10000 * 2^15 PBKDF2 iterations by the letter of
    # SLIP39 -- minutes of honest work and not a hang (a false alarm of the no-hang budget, found by the thorough tier)
    ch = ctx.ch
    base = {
        "identifier": ch.draw(1 << 15, "sh.id"), "extendable": bool(ch.draw(2, "sh.ext")), "iteration_exponent": ch.draw(3, "sh.exp"),
        "group_threshold": 1 + ch.draw(3, "sh.gt"), "group_count": 0, "member_threshold": 1 + ch.draw(3, "sh.mt"),
    }
    base["group_count"] = base["group_threshold"] + ch.draw(3, "sh.gc")
    n = 1 + ch.draw(5, "sh.n")
    mnemonics: list[str] = []
    for k in range(n):
        f = dict(base)
        f["group_index"] = ch.draw(min(16, f["group_count"] + 1), "sh.gi")
        f["member_index"] = ch.draw(4, "sh.mi")
        f["value"] = ch.nbytes(ch.pick([16, 16, 32, 32, 18, 20, 24, 64, 34], "sh.len"), "sh.value")
        for name, draw in (  # one field in three disagrees with the rest of the set
            ("identifier", lambda: ch.draw(1 << 15, "sh.id2")), ("extendable", lambda: bool(ch.draw(2, "sh.ext2"))), ("iteration_exponent", lambda: ch.draw(4, "sh.exp2")),
            ("group_threshold", lambda: 1 + ch.draw(4, "sh.gt2")), ("group_count", lambda: 1 + ch.draw(16, "sh.gc2")), ("member_threshold", lambda: 1 + ch.draw(16, "sh.mt2")),
        ):
            if ch.draw(9, "sh.odd?") == 0:
                f[name] = draw()
        try:
            mnemonics.append(slip39.mnemonic_from_share(slip39.Share(**f)))
        except BTClibException:
            ctx.probe("share-writer-refused")  # out of the format's range: not a share anybody can hand over
    if ch.draw(3, "sh.dup") == 0 and mnemonics:
        mnemonics.append(mnemonics[ch.draw(len(mnemonics), "sh.dupwhich")])
    mnemonics = ch.shuffled(mnemonics, "sh.order")
    ctx.fault("hostile-share-set", f"n={len(mnemonics)}")
    ctx.log("shares", len(mnemonics), base["group_threshold"], base["group_count"])
    if not mnemonics:
        return
    out = _call(ctx, "slip39.master_secret_from_mnemonics/hostile-set", lambda: slip39.master_secret_from_mnemonics(mnemonics, ch.pick(["", "TREZOR", "pass"], "sh.pw")))
    ctx.probe("hostile-share-set-" + ("recovered" if out is not None else "refused"))
    _call(ctx, "slip39.mxprv_from_mnemonics/hostile-set", lambda: slip39.mxprv_from_mnemonics(mnemonics))
    for m in mnemonics[:2]:
        _call(ctx, "slip39.share_from_mnemonic/hostile-set", lambda m=m: slip39.share_from_mnemonic(m))


def _scripts(ctx: Ctx) -> None:
    """A wallet classifies the scriptPubKey of an output a peer's transaction pays: an honest script of a
    standard type with one field damaged (a push cut short, a length marker or a count moved, an octet
    dropped or doubled). The `is_*` questions answer True or False for bytes; the classifier and what is
    built on it (address, payload) answer or refuse with a library exception."""
    from btclib.script import script_pub_key as spk  # noqa: PLC0415

    ch = ctx.ch
    key33 = b"\x02" + bytes.fromhex("79be667ef9dcbbac55a06295ce870b07029bfcdb2dce28d959f2815b16f81798")
    key33b = b"\x03" + bytes.fromhex("f9308a019258c31049344f85f89d5229b531c845836f99b08601f113bce036f9")
    n = 1 + ch.draw(5, "sc.n")
    m = 1 + ch.draw(n, "sc.m")
    honest = {
        "p2pk": b"\x21" + key33 + b"\xac",
        "p2pkh": b"\x76\xa9\x14" + bytes(range(20)) + b"\x88\xac",
        "p2sh": b"\xa9\x14" + bytes(range(20)) + b"\x87",
        "p2ms": bytes([0x50 + m]) + b"".join(b"\x21" + (key33 if i % 2 else key33b) for i in range(n)) + bytes([0x50 + n, 0xAE]),
        "nulldata": b"\x6a\x4c\x50" + bytes(80),
        "p2wpkh": b"\x00\x14" + bytes(range(20)),
        "p2wsh": b"\x00\x20" + bytes(range(32)),
        "p2tr": b"\x51\x20" + key33[1:],
    }
    kind = ch.pick(sorted(honest), "sc.kind")
    raw = bytearray(honest[kind])
    for _ in range(ch.draw(3, "sc.edits")):
        if not raw:
            break
        i = ch.draw(len(raw), "sc.at")
        how = ch.draw(6, "sc.how")
        if how == 0:
            del raw[i:i + 1 + ch.draw(40, "sc.cut")]  # octets dropped: every push behind them is short or shifted
        elif how == 1:
            raw[i] = ch.pick([0, 1, 0x20, 0x21, 0x41, 0x4B, 0x4C, 0x4D, 0x4E, 0x4F, 0x50, 0x51, 0x60, 0x61, 0xAE, 0xFF], "sc.octet")
        elif how == 2:
            raw[i:i] = raw[i:i + 1 + ch.draw(34, "sc.dup")]
        elif how == 3:
            del raw[len(raw) - 1 - ch.draw(min(len(raw), 40), "sc.tail"):-2 or None]  # the tail cut short, the last op codes kept
        elif how == 4:
            raw[i] ^= 1 << ch.draw(8, "sc.bit")
        else:
            raw[i:i] = ch.nbytes(ch.draw(5, "sc.ins"), "sc.insb")
    script = bytes(raw)
    ctx.fault("hostile-script", f"{kind} len={len(script)}")
    ctx.log("script", kind, script.hex()[:80])
    for name in ("is_p2pk", "is_p2pkh", "is_p2sh", "is_p2ms", "is_nulldata", "is_segwit", "is_p2wpkh", "is_p2wsh", "is_p2tr"):
        _call(ctx, f"script_pub_key.{name}/damaged", lambda name=name: getattr(spk, name)(script), predicate=True)
    _call(ctx, "script_pub_key.type_and_payload/damaged", lambda: spk.type_and_payload(script))
    _call(ctx, "script_pub_key.address/damaged", lambda: spk.address(script))
    obj = _call(ctx, "ScriptPubKey/damaged", lambda: spk.ScriptPubKey(script))
    if obj is not None:
        _call(ctx, "ScriptPubKey.type/damaged", lambda: obj.type)
        _call(ctx, "ScriptPubKey.address/damaged", lambda: obj.address)
        _call(ctx, "ScriptPubKey.addresses/damaged", lambda: obj.addresses)


def run(ctx: Ctx) -> None:
    with memory_budget():
        _run(ctx)


def _run(ctx: Ctx) -> None:
    old = signal.signal(signal.SIGVTALRM, _on_vtalrm)
    try:
        part = ctx.cfg.get("part") or ctx.ch.pick(["filters", "filters", "proofs", "signatures", "shares", "shares", "scripts", "scripts"], "part")
        ctx.state(part)
        {"filters": _filters, "proofs": _proofs, "signatures": _signatures, "shares": _shares, "scripts": _scripts}[part](ctx)
    finally:
        signal.setitimer(signal.ITIMER_VIRTUAL, 0)
        signal.signal(signal.SIGVTALRM, old)


CHECKS = {
    "C19": {
        "level": "fault_enumeration",
        "plans": lambda tier: [Plan("hostile", {}, share=1.0, chunk=50, label="hostile/decoders-and-verifiers")],
        "rule": (
            "hostile: one evaluation = one message written by a malicious peer (a cfilter whose coded set is runs of one octet up to "
            "64 KiB and noise under a drawn element count; a merkle branch of 0..5000 hashes of right and wrong widths with indexes "
            "up to 2^300; message signatures and DLEQ proofs of hostile lengths; a standard scriptPubKey with pushes cut short, markers and counts moved, asked of every is_* question and the classifier) handed to the decoder / verifier a receiver runs."
        ),
        "assumptions": ["per-call CPU budget of 10 s (ITIMER_VIRTUAL)"],
    },
}
