"""W7 `custody` -- backup and recovery of seeds (C13).

Parts (``cfg['part']``):

``slip39`` -- a share-collection protocol on the discrete-event loop.
  Actors: a *dealer* splitting a 16-32-byte secret under a drawn configuration
  (1-16 groups, <= 40 shares, member thresholds 1..n, group threshold,
  iteration exponent 0-1, extendable flag, printable-ASCII passphrase -- the
  library refuses anything else, which is probed, not asserted) with
  ``entropy_source`` = the RNG seam (uniform / edge: all-zero, all-ff,
  repeating); one *holder* per share; a *recovery node* polling the holders.
  Faults (courier): loss, duplication, delay/reorder, corruption of a share in
  flight (one-word substitution by a list word or a non-word, transposition of
  two adjacent different words), whitespace noise (benign), holders that lost
  their share. Faults stop at ``quiesce_at``.
  Invariants (all C13):
  - intact-share-accepted / corrupted-share-refused: a received share is read
    iff the reference RS1024 checksum (ref.seedwords) accepts it;
  - qualifying-selection-recovers, recovered-equals-secret: every selection
    meeting every threshold exactly, in a drawn order, gives the secret back;
  - wrong-passphrase-does-not-raise / wrong-passphrase-differs;
  - below-threshold-refused, duplicate-member-refused, surplus-refused
    (documented by master_secret_from_mnemonics: "exactly"), corrupted-share-
    refused: refused with a library exception, never answered;
  - liveness-recovers-after-faults-stop: with enough holders alive the node
    recovers within 3 polling rounds after the last fault can have an effect.

``seeds`` -- BIP39 / Electrum / BIP85. A *generator* makes sentences (entropy
  given -- leading zeros, all-zero, all-ff -- or drawn by the library through
  the RNG seam) in every shipped language; the sentence and its passphrase
  travel through a courier that re-normalises unicode (NFC/NFKC/NFKD),
  whitespace (and case, for Electrum) or, as a fault, substitutes one word; a
  *restorer* decodes and stretches.
  Invariants (all C13): bip39-checksum-is-spec, bip39-entropy-round-trips,
  bip39-seed-is-pbkdf2, master-key-is-hmac, substitution-accepted-iff-checksum
  (bip39.entropy_from_mnemonic and dispatch vs the reference checksum);
  electrum-version-is-spec, electrum-entropy-round-trips (decodes above the
  start of the search and regenerates), electrum-seed-is-pbkdf2,
  electrum-substitution-iff-prefix; bip85-entropy-is-hmac and the application
  formats (mnemonic, bytes, xprv, base64) cut from it.

Corrupted input reaching a parser may only raise library exceptions: stated as
``ctx.check("C19", "only-library-exceptions", ...)`` for W4's lens.
"""

from __future__ import annotations

import unicodedata
from base64 import b64encode
from typing import Any, Callable

from btclib.exceptions import BTClibException

from btcsim.core.ctx import Ctx, RunAborted
from btcsim.core.des import Courier, Sim
from btcsim.gen import keys as gk
from btcsim.ref import seedwords as ref
from btcsim.seams import state as st
from btcsim.seams.rng import SimRng

P = "C13"
CJK = ("ja", "ko", "zh", "zh_tw")


class _Rng(SimRng):
    """The RNG seam, remembering the last integer it handed out."""

    last_int: int | None = None

    def randbits(self, k: int) -> int:
        self.last_int = super().randbits(k)
        return self.last_int

    def randbelow(self, n: int) -> int:
        self.last_int = super().randbelow(n)
        return self.last_int


def run(ctx: Ctx) -> None:
    part = ctx.cfg.get("part", "mix")
    if part == "mix":
        part = ctx.ch.pick(["slip39", "seeds"], "part")
    rng = _Rng(ctx, mode=ctx.ch.pick(["uniform", "edge"], "rng.mode"))
    rng.install()
    st.set_backend(bool(ctx.ch.draw(4, "backend0")) and st.bindings_installed())
    ctx.log("start", part, rng.mode)
    {"slip39": _slip39, "seeds": _seeds}[part](ctx, rng)


def _guarded(ctx: Ctx, site: str, fn: Callable[[], Any]) -> tuple[bool, Any]:
    """(True, value) or (False, the library exception); anything else is C19's."""
    try:
        return True, fn()
    except BTClibException as e:
        return False, e
    except Exception as e:  # noqa: BLE001
        ctx.check("C19", "only-library-exceptions", False, f"{site}: {type(e).__name__}: {e}", site=site)
        raise RunAborted(f"{site}: {type(e).__name__}: {e}") from e


def _net(
    ctx: Ctx, sim: Sim, deliver: Callable[[str, str, Any], None], corruptor: Callable[[Any, Any], Any], lossy: bool = True
) -> tuple[Courier, Courier, int, int]:
    """Two couriers with the same drawn loss / duplication / delay: one that may also
    corrupt (for sentences), one for control messages. Returns them, the
    retransmission period and the instant from which no injected fault can
    have an effect any more."""
    ch = ctx.ch
    jitter = ch.pick([0, 3, 20], "net.jitter")
    period = 2 * (1 + jitter) + 3
    if not ctx.cfg.get("faults"):
        net = Courier(sim, deliver, jitter=jitter)
        return net, net, period, 0
    kinds = ch.subset((["drop"] if lossy else []) + ["dup", "corrupt"], "net.kinds")
    rate = {k: ch.pick([50, 150, 300], "net.rate") for k in kinds}
    quiesce = 20 + ch.draw(150, "net.quiesce")
    common = {"drop": rate.get("drop", 0), "dup": rate.get("dup", 0), "jitter": jitter, "quiesce_at": quiesce}
    net = Courier(sim, deliver, corrupt=rate.get("corrupt", 0), corruptor=corruptor, **common)
    return net, Courier(sim, deliver, **common), period, quiesce + 1 + 2 * jitter + 2


# ---------------------------------------------------------------------------
# sentences in flight
# ---------------------------------------------------------------------------
def _whitespace(ch: Any, text: str) -> str:
    """Another spelling of the separators; the words are untouched."""
    seps = [" ", "  ", "\t", "\n", " \r\n", "　", " "]
    words = text.split()
    out = ch.pick(["", " ", "\n"], "ws.lead")
    for i, w in enumerate(words):
        out += w + (ch.pick(seps, "ws.sep") if i + 1 < len(words) else ch.pick(["", " ", "\n"], "ws.trail"))
    return out


def _substitute(ch: Any, text: str, wordlist: Any, kinds: tuple[str, ...]) -> tuple[str, str]:
    """One corruption that changes the sentence: (new text, kind)."""
    words = text.split()
    kind = ch.pick(list(kinds), "garble.kind")
    i = ch.draw(len(words), "garble.pos")
    if kind == "transpose":
        for j in list(range(i, len(words) - 1)) + list(range(i)):
            if j + 1 < len(words) and words[j] != words[j + 1]:
                words[j], words[j + 1] = words[j + 1], words[j]
                return " ".join(words), kind
        kind = "word"  # all words equal: nothing to transpose
    if kind == "nonword":
        words[i] = words[i] + "x"
        return " ".join(words), kind
    k = ch.draw(len(wordlist) - 1, "garble.word")
    new = wordlist[k]
    if unicodedata.normalize("NFKD", new) == unicodedata.normalize("NFKD", words[i]):
        new = wordlist[len(wordlist) - 1]
    words[i] = new
    return " ".join(words), "word"


def _indexes(text: str, wordlist: Any) -> list[int] | None:
    """Word indexes by the harness's own look-up (None: some word is not in the list)."""
    pos = {w: i for i, w in enumerate(wordlist)}
    out = []
    for w in unicodedata.normalize("NFKD", text).split():
        if w not in pos:
            return None
        out.append(pos[w])
    return out


# ---------------------------------------------------------------------------
# SLIP39: dealer, holders, recovery node
# ---------------------------------------------------------------------------
def _draw_config(ch: Any) -> tuple[list[tuple[int, int]], int]:
    n_groups = ch.weighted([(1, 5), (2, 4), (3, 3), (4, 2), (6, 1), (16, 1)], "groups")
    budget = 40
    groups = []
    for g in range(n_groups):
        room = min(16, budget - (n_groups - g - 1))
        n = min(room, ch.weighted([(1, 3), (2, 3), (3, 4), (5, 2), (9, 1), (16, 1)], "members"))
        t = 1 if n == 1 else 2 + ch.draw(n - 1, "threshold")
        groups.append((t, n))
        budget -= n
    return groups, 1 + ch.draw(n_groups, "group.threshold")


def _slip39(ctx: Ctx, rng: _Rng) -> None:
    from btclib.mnemonic import slip39  # noqa: PLC0415
    from btclib.mnemonic.mnemonic import WORDLISTS  # noqa: PLC0415

    ch = ctx.ch
    wordlist = WORDLISTS.wordlist("slip39")
    groups, gt = _draw_config(ch)
    n_bytes = 16 + 2 * ch.draw(9, "secret.len")
    secret = ch.pick([None, bytes(n_bytes), b"\xff" * n_bytes, b"\xa5" * n_bytes], "secret.class") or ch.nbytes(n_bytes, "secret")
    passphrase = "".join(chr(32 + ch.draw(95, "pw.char")) for _ in range(ch.draw(10, "pw.len")))
    exponent = ch.draw(2, "exponent")
    extendable = bool(ch.draw(2, "extendable"))
    ctx.log("config", groups, f"gt={gt}", f"e={exponent}", f"ext={extendable}", f"secret={n_bytes}B", f"pw={len(passphrase)}")
    ctx.state(f"cfg:g{min(len(groups), 5)}:gt{min(gt, 3)}:e{exponent}:x{int(extendable)}")
    ctx.sample["slip39"] = {"groups": groups, "group_threshold": gt, "exponent": exponent, "extendable": extendable, "rng": rng.mode}

    if ch.chance(1, 8, "pw.unicode?"):
        ok, _ = _guarded(ctx, "slip39.split", lambda: slip39.mnemonics_from_master_secret(
            secret, groups, gt, passphrase + "é", exponent, extendable, rng.entropy_source))
        ctx.probe("non-ascii-passphrase-accepted" if ok else "non-ascii-passphrase-refused")
    with ctx.must_succeed(P, "split-succeeds", "slip39"):
        dealt = slip39.mnemonics_from_master_secret(secret, groups, gt, passphrase, exponent, extendable, rng.entropy_source)
    orig = {(g, m): text for g, members in enumerate(dealt) for m, text in enumerate(members)}
    keys = sorted(orig)
    if ch.chance(1, 3, "single.other-exponent?"):
        # the same secret under the same passphrase kept a second (and third) time as the single 1-of-1 share a wallet
        # starts with, at other iteration exponents, in the same process: what such a share carries is the encrypted
        # master secret itself (both thresholds are one), so the cipher is read off it and held to SLIP-0039's text --
        # an answer that depends on what was stretched before under another exponent shows here and nowhere in a
        # round trip, which repeats the dependence on the way back
        for e2 in ch.shuffled([0, 1, 2], "single.exponents")[: 1 + ch.draw(3, "single.n")]:
            with ctx.must_succeed(P, "split-succeeds", "slip39/single"):
                text = slip39.mnemonics_from_master_secret(secret, ((1, 1),), 1, passphrase, e2, extendable, rng.entropy_source)[0][0]
                sh = slip39.share_from_mnemonic(text)
            ctx.check(P, "single-share-is-the-encrypted-secret", (sh.iteration_exponent, sh.extendable, sh.member_threshold, sh.group_threshold) == (e2, extendable, 1, 1) and ref.slip39_cipher(sh.value, passphrase, e2, sh.identifier, extendable, True) == secret, lambda: f"exponent {e2} after {exponent}: the 1-of-1 share's value does not decrypt to the secret under SLIP-0039's cipher", site="slip39/single")
            ok, got = _guarded(ctx, "slip39.recover", lambda text=text: slip39.master_secret_from_mnemonics([text], passphrase))
            ctx.check(P, "recovered-equals-secret", ok and got == secret, lambda: f"exponent {e2}: the single share recovers {got!r}", site="slip39/single")
            # and a share the reference wrote, as another implementation would have: the library must read the same secret
            theirs = slip39.mnemonic_from_share(slip39.Share(sh.identifier, extendable, e2, 0, 1, 1, 0, 1, ref.slip39_cipher(secret, passphrase, e2, sh.identifier, extendable, False)))
            ok, got = _guarded(ctx, "slip39.recover", lambda theirs=theirs: slip39.master_secret_from_mnemonics([theirs], passphrase))
            ctx.check(P, "recovered-equals-secret", ok and got == secret, lambda: f"exponent {e2}: a standard 1-of-1 share of the secret recovers {got!r}", site="slip39/standard-share")
            ctx.probe(f"single-share-at-exponent:{e2}")
    ctx.check(P, "split-shape", [len(x) for x in dealt] == [n for _, n in groups], "one share per member")

    def recover(sel: list[str], pw: str) -> bytes:
        return slip39.master_secret_from_mnemonics(sel, pw)

    def must_refuse(inv: str, sel: list[str], what: str) -> None:
        ok, got = _guarded(ctx, "slip39.recover", lambda: recover(sel, passphrase))
        ctx.check(P, inv, not ok, lambda: f"{what}: answered {got.hex()} (secret {secret.hex()}) for {len(sel)} shares", site="slip39")
        ctx.log("refused", inv, type(got).__name__)

    def read_share(actor: str, key: tuple[int, int], text: str) -> Any:
        """What a holder or the recovery node does with an arriving share; None if refused."""
        ok, got = _guarded(ctx, "slip39.share", lambda: slip39.share_from_mnemonic(text))
        if " ".join(text.split()) == orig[key]:
            ctx.check(P, "intact-share-accepted", ok and (got.group_index, got.member_index) == key, lambda: f"{key}: {got}", site="slip39")
            return got
        idx = _indexes(text, wordlist)
        if idx is not None and ref.rs1024_ok(idx):
            ctx.probe("corruption-keeps-checksum")
            return None
        ctx.check(P, "corrupted-share-refused", not ok, lambda: f"{key}: a share whose RS1024 checksum fails was read: {text}", site="share")
        ctx.log("share-refused", key, actor=actor)
        return None

    # -- the protocol -------------------------------------------------------
    sim = Sim(ctx)
    held: dict[tuple[int, int], str] = {}
    acked: set[tuple[int, int]] = set()
    collected: dict[tuple[int, int], str] = {}
    lost = {k for k in keys if ctx.cfg.get("faults") and ch.chance(1, 12, "holder.lost?")}
    for k in sorted(lost):
        ctx.fault("holder-lost-share", k)
    state = {"recoveries": 0, "rounds_clean": 0, "recovered_round": -1, "stopped": False}

    def garble(c: Any, payload: Any) -> Any:
        kind, key, text = payload
        new, how = _substitute(c, text, wordlist, ("word", "nonword", "transpose"))
        ctx.probe(f"garble:{how}")
        return (kind, key, new)

    def deliver(src: str, dst: str, payload: Any) -> None:
        kind, key, text = payload
        if kind == "deal":
            if read_share(dst, key, text) is not None:
                held[key] = text
                ctl.send(dst, "dealer", ("ack", key, None), "ack")
        elif kind == "ack":
            acked.add(key)
        elif kind == "want":
            if key in held and key not in lost:
                out = _whitespace(ch, held[key]) if ch.chance(1, 4, "ws?") else held[key]
                net.send(dst, "rec", ("share", key, out), "share")
        elif kind == "share" and not state["stopped"]:
            share = read_share(dst, key, text)
            if share is not None:
                collected[(share.group_index, share.member_index)] = text
                on_collected()

    net, ctl, period, clean_from = _net(ctx, sim, deliver, garble)

    def ready_groups() -> list[int]:
        return [g for g, (t, _) in enumerate(groups) if sum(1 for k in collected if k[0] == g) >= t]

    def draw_selection() -> list[tuple[int, int]]:
        chosen = sorted(ch.shuffled(ready_groups(), "sel.groups")[:gt])
        sel = []
        for g in chosen:
            have = sorted(k for k in collected if k[0] == g)
            sel += ch.shuffled(have, "sel.members")[: groups[g][0]]
        return ch.shuffled(sel, "sel.order")

    def on_collected() -> None:
        qualifies = len(ready_groups()) >= gt
        ctx.state(f"collect:{min(len(collected), 6)}:{'q' if qualifies else 'b'}:{min(state['recoveries'], 2)}")
        if not qualifies:
            if ch.chance(1, 3, "try-below?"):
                sub = [collected[k] for k in sorted(collected) if ch.draw(4, "below.keep")] or [collected[sorted(collected)[0]]]
                must_refuse("below-threshold-refused", ch.shuffled(sub, "below.order"), "a collection that meets no group threshold")
            return
        if state["recoveries"] >= 2 or (state["recoveries"] == 1 and not ch.chance(1, 3, "again?")):
            return
        sel = draw_selection()
        texts = [collected[k] for k in sel]
        with ctx.must_succeed(P, "qualifying-selection-recovers", "slip39"):
            got = recover(texts, passphrase)
        ctx.log("recovered", got, [f"{g}.{m}" for g, m in sel], actor="rec")
        ctx.check(P, "recovered-equals-secret", got == secret, lambda: f"{got.hex()} != {secret.hex()} from {sel}", site="slip39")
        if state["recoveries"] == 0:
            state["recovered_round"] = state["rounds_clean"]
        state["recoveries"] += 1
        if ch.chance(1, 2, "wrong-pw?"):
            wrong = passphrase + "x" if ch.draw(2, "wrong.how") or not passphrase else passphrase[:-1]
            with ctx.must_succeed(P, "wrong-passphrase-does-not-raise", "slip39"):
                other = recover(texts, wrong)
            ctx.check(P, "wrong-passphrase-differs", other != secret, "the secret came back under another passphrase", site="slip39")
        for _ in range(1 + ch.draw(3, "variants")):
            variant = ch.pick(["below", "dup-extra", "dup-instead", "surplus", "corrupt"], "variant")
            i = ch.draw(len(sel), "variant.at")
            if variant == "below":
                must_refuse("below-threshold-refused", texts[:i] + texts[i + 1:], f"without {sel[i]}")
            elif variant == "dup-extra":
                must_refuse("duplicate-member-refused", [*texts, texts[i]], f"{sel[i]} twice")
            elif variant == "dup-instead" and len(sel) > 1:
                j = (i + 1) % len(sel)
                must_refuse("duplicate-member-refused", [texts[i] if n == j else t for n, t in enumerate(texts)], f"{sel[i]} in place of {sel[j]}")
            elif variant == "surplus":
                extra = [k for k in sorted(collected) if k not in sel]
                if extra:
                    k = ch.pick(extra, "surplus.which")
                    must_refuse("surplus-refused", [*texts, collected[k]], f"{k} beyond the thresholds")
            elif variant == "corrupt":
                bad, how = _substitute(ch, " ".join(texts[i].split()), wordlist, ("word", "nonword", "transpose"))
                idx = _indexes(bad, wordlist)
                if idx is None or not ref.rs1024_ok(idx):
                    must_refuse("corrupted-share-refused", [bad if n == i else t for n, t in enumerate(texts)], f"{sel[i]} with a {how} error")

    def dealer_round() -> None:
        todo = [k for k in keys if k not in acked]
        for k in todo:
            net.send("dealer", f"h{k[0]}.{k[1]}", ("deal", k, orig[k]), "deal")
        if todo:
            sim.after(period, "dealer-timer", dealer_round)

    def rec_round() -> None:
        if state["recoveries"] and len(collected) == len(keys) - len(lost):
            state["stopped"] = True
            return
        if sim.now >= clean_from:
            if state["rounds_clean"] >= 3:
                state["stopped"] = True
                return
            state["rounds_clean"] += 1
        for k in keys:
            if k not in collected:
                ctl.send("rec", f"h{k[0]}.{k[1]}", ("want", k, None), "want")
        sim.after(period, "rec-timer", rec_round)

    sim.after(0, "deal", dealer_round)
    sim.after(ch.draw(3 * period, "rec.start"), "rec-start", rec_round)
    sim.run()

    alive = [k for k in keys if k not in lost]
    feasible = sum(1 for g, (t, _) in enumerate(groups) if sum(1 for k in alive if k[0] == g) >= t) >= gt
    ctx.log("end", f"collected={len(collected)}/{len(keys)}", f"recoveries={state['recoveries']}", f"feasible={feasible}", f"capped={sim.capped}")
    if sim.capped:
        ctx.probe("event-cap")
    elif feasible:
        ctx.check(
            P, "liveness-recovers-after-faults-stop", state["recoveries"] >= 1 and state["recovered_round"] <= 3,
            lambda: f"recoveries={state['recoveries']} rounds after faults stopped={state['rounds_clean']} collected={sorted(collected)}", site="slip39",
        )
    else:
        ctx.probe("not-enough-holders")
        ctx.check(P, "below-threshold-never-recovers", state["recoveries"] == 0, "recovered without enough holders", site="slip39")


# ---------------------------------------------------------------------------
# BIP39 / Electrum / BIP85: generator -> courier -> restorer
# ---------------------------------------------------------------------------
_PW_ALPHABET = ["a", "Z", " ", "  ", "é", "é", "ñ", "Å", "ß", "ﬁ", "①", "㏒", "　", "パ", "İ", "1", "!", "™", "№", "℃", "㏍", "\U0001d400", "Ǆ", "ẞ", "ϒ"]  # among the last eight: characters on which lower() and NFKD do not commute


def _entropy_draw(ch: Any, rng: _Rng) -> tuple[Any, str | None]:
    """(what is handed to the library, the bits it stands for) -- (None, None): the library draws."""
    form = ch.pick(["bytes", "binstr", "library-rng"], "ent.form")
    if form == "library-rng":
        return None, None
    n = ch.pick([16, 20, 24, 28, 32], "ent.bytes")
    raw = ch.pick([None, bytes(n), b"\xff" * n, bytes(n - 1) + b"\x01", b"\x00\x00" + b"\x5a" * (n - 2)], "ent.class") or ch.nbytes(n, "ent")
    bits = format(int.from_bytes(raw, "big"), f"0{8 * n}b")
    return (raw if form == "bytes" else bits), bits


def _respell(ch: Any, text: str, electrum: bool) -> tuple[str, str]:
    """A benign re-spelling in transit: (text, what was done)."""
    how = ch.pick(["none", "nfc", "nfkc", "nfkd", "ws", "nfc+ws"] + (["upper"] if electrum else []), "respell")
    out = text
    if how.startswith("nf"):
        out = unicodedata.normalize(how.split("+")[0].upper(), out)
    if how.endswith("ws"):
        out = _whitespace(ch, out)
    if how == "upper" and unicodedata.normalize("NFKD", out.upper()).lower() == unicodedata.normalize("NFKD", out):
        out = out.upper()
    return out, how


def _seeds(ctx: Ctx, rng: _Rng) -> None:
    ch = ctx.ch
    sim = Sim(ctx)
    inbox: list[Any] = []

    def garble(c: Any, payload: Any) -> Any:
        scheme, lang, text, meta = payload
        new, how = _substitute(c, text, meta["wordlist"], ("word",))
        return (scheme, lang, new, dict(meta, garbled=how))

    net, _, _, _ = _net(ctx, sim, lambda src, dst, body: inbox.append(body), garble, lossy=False)
    for _ in range(1 + ch.draw(3, "n.sentences")):
        scheme = ch.weighted([("bip39", 6), ("electrum", 2), ("bip85", 3), ("bip39-shared-words", 1)], "scheme")
        if scheme == "bip39-shared-words":
            _shared_words_sentence(ctx)
            continue
        payload = {"bip39": _gen_bip39, "electrum": _gen_electrum, "bip85": _gen_bip85}[scheme](ctx, rng)
        if payload is not None:
            net.send("gen", "restorer", payload, scheme)
    sim.run()
    for scheme, lang, text, meta in inbox:
        if scheme == "bip39":
            _restore_bip39(ctx, lang, text, meta)
        elif scheme == "electrum":
            _restore_electrum(ctx, lang, text, meta)


_SHARED: list[tuple[str, str, list[str]]] | None = None


def _shared_pairs() -> list[tuple[str, str, list[str]]]:
    """(language, language, the words both BIP39 lists hold) for the pairs sharing at least 40 words at other indexes."""
    global _SHARED  # noqa: PLW0603
    if _SHARED is None:
        from btclib.mnemonic.mnemonic import BIP39_LANGUAGE_FILES, WORDLISTS  # noqa: PLC0415

        langs = sorted(BIP39_LANGUAGE_FILES)
        lists = {lang: WORDLISTS.wordlist(lang) for lang in langs}
        _SHARED = []
        for n, a in enumerate(langs):
            for b in langs[n + 1 :]:
                both = sorted(set(lists[a]) & set(lists[b]))
                if len(both) >= 40 and any(lists[a].index(w) != lists[b].index(w) for w in both):
                    _SHARED.append((a, b, both))
    return _SHARED


def _shared_words_sentence(ctx: Ctx) -> None:
    """A twelve-word sentence spelled with words two languages share, its checksum made valid in a drawn one of the
    two: read without being told the language, it decodes to that language's entropy -- unless it happens to be valid
    in the other as well (about one time in sixteen), which the library documents it refuses as ambiguous."""
    from btclib.mnemonic import bip39  # noqa: PLC0415
    from btclib.mnemonic.mnemonic import WORDLISTS  # noqa: PLC0415

    ch = ctx.ch
    pairs = _shared_pairs()
    if not pairs:
        return
    a, b, both = pairs[ch.draw(len(pairs), "shared.pair")]
    target, other = (a, b) if ch.draw(2, "shared.target") else (b, a)
    wl_t, wl_o = WORDLISTS.wordlist(target), WORDLISTS.wordlist(other)
    words = [both[ch.draw(len(both), "shared.word")] for _ in range(11)]
    start = ch.draw(len(both), "shared.last")
    last = next((w for w in both[start:] + both[:start] if ref.bip39_ok([wl_t.index(x) for x in [*words, w]])), None)
    if last is None:
        ctx.probe("shared-words:no-closing-word")
        return
    sentence = " ".join([*words, last])
    idx_t, idx_o = [wl_t.index(x) for x in [*words, last]], [wl_o.index(x) for x in [*words, last]]
    also = ref.bip39_ok(idx_o)
    ctx.log("shared-words", target, other, "also-valid" if also else "valid-in-one", actor="gen")
    ctx.state(f"shared:{target}:{other}:{also}")
    try:
        got: Any = bip39.entropy_from_mnemonic(sentence)
        verdict = "decoded"
    except BTClibException as e:
        got, verdict = e, "refused"
    want = ref.bip39_split(idx_t)[0]  # type: ignore[index]
    if also and ref.bip39_split(idx_o)[0] != want:  # type: ignore[index]
        ctx.probe("shared-words:valid-in-both")
        ctx.check(P, "bip39-entropy-round-trips", verdict == "refused" or got in (want, ref.bip39_split(idx_o)[0]), lambda: f"{sentence!r} is valid in {target} and {other}: read as {got!r}", site="bip39.shared-words")  # type: ignore[index]
        return
    ctx.probe(f"shared-words:{target}-not-{other}")
    ctx.check(P, "bip39-entropy-round-trips", verdict == "decoded" and got == want, lambda: f"{sentence!r} (valid in {target}, not in {other}) read without a language: {verdict} {got!r}", site="bip39.shared-words")
    with ctx.must_succeed(P, "bip39-seed-is-pbkdf2", "bip39.shared-words"):
        seed = bip39.seed_from_mnemonic(sentence, "")
    ctx.check(P, "bip39-seed-is-pbkdf2", seed == ref.bip39_seed(sentence, ""), f"{sentence!r}: seed differs from PBKDF2", site="bip39.shared-words")


def _passphrase(ch: Any, cjk: bool) -> str:
    """Unicode, NFKD-sensitive; ``cjk`` False leaves out the letters between which Electrum drops spaces."""
    alphabet = _PW_ALPHABET if cjk else [c for c in _PW_ALPHABET if c != "パ"]
    return "".join(ch.pick(alphabet, "pw.char") for _ in range(ch.draw(6, "pw.len")))


def _gen_bip39(ctx: Ctx, rng: _Rng) -> Any:
    from btclib.mnemonic import bip39  # noqa: PLC0415
    from btclib.mnemonic.mnemonic import BIP39_LANGUAGE_FILES, WORDLISTS  # noqa: PLC0415

    ch = ctx.ch
    lang = ch.pick(sorted(BIP39_LANGUAGE_FILES), "lang")
    wordlist = WORDLISTS.wordlist(lang)
    given, bits = _entropy_draw(ch, rng)
    with ctx.must_succeed(P, "bip39-generates", "bip39"):
        sentence = bip39.mnemonic_from_entropy(given, lang)
    if bits is None:
        assert rng.last_int is not None
        bits = format(rng.last_int, "0128b")
    idx = _indexes(sentence, wordlist)
    ctx.log("bip39", lang, f"{len(bits)}b", f"zeros={len(bits) - len(bits.lstrip('0'))}", actor="gen")
    ctx.state(f"bip39:{lang}:{len(bits)}")
    ctx.check(P, "bip39-checksum-is-spec", idx is not None and ref.bip39_ok(idx), lambda: f"{lang}: {sentence!r} fails the reference checksum", site="bip39")
    assert idx is not None
    ctx.check(P, "bip39-entropy-round-trips", ref.bip39_split(idx)[0] == bits, lambda: f"{lang}: the sentence spells {ref.bip39_split(idx)[0]} not {bits}", site="bip39.encode")  # type: ignore[index]
    canonical = " ".join(wordlist[i] for i in idx)
    text, how = _respell(ch, sentence, electrum=False)
    if how != "none":
        ctx.fault(f"respell-{how}")
    return ("bip39", lang, text, {"bits": bits, "canonical": canonical, "wordlist": wordlist, "pw": _passphrase(ch, cjk=True)})


def _ambiguous(words: list[str], registry: Any) -> bool:
    return len(registry.langs_of_words(words)) > 1


def _restore_bip39(ctx: Ctx, lang: str, text: str, meta: dict[str, Any]) -> None:
    from btclib.bip32 import BIP32KeyData  # noqa: PLC0415
    from btclib.mnemonic import bip39, dispatch  # noqa: PLC0415
    from btclib.mnemonic.mnemonic import WORDLISTS  # noqa: PLC0415

    ch = ctx.ch
    wordlist = meta["wordlist"]
    if "garbled" in meta:
        _bip39_substituted(ctx, lang, text, wordlist)
        return
    with ctx.must_succeed(P, "bip39-decodes", "bip39"):
        got = bip39.entropy_from_mnemonic(text, lang)
    ctx.check(P, "bip39-entropy-round-trips", got == meta["bits"], lambda: f"{lang}: decoded {got}, made from {meta['bits']}", site="bip39.decode")
    ambiguous = _ambiguous(unicodedata.normalize("NFKD", text).split(), WORDLISTS)
    if ambiguous:
        ctx.probe("bip39-words-in-two-languages")
    pw = meta["pw"]
    pw_sent = unicodedata.normalize(ch.pick(["NFC", "NFKD", "NFD", "NFKC"], "pw.form"), pw) if ch.draw(2, "pw.respell?") else pw
    ok, seed = _guarded(ctx, "bip39.seed", lambda: bip39.seed_from_mnemonic(text, pw_sent))
    want = ref.bip39_seed(meta["canonical"], pw)
    if ok or not ambiguous:  # a sentence two word-lists spell may be refused as ambiguous, as documented
        ctx.check(P, "bip39-seed-is-pbkdf2", ok and seed == want, lambda: f"{lang}: seed {seed!r} != PBKDF2 {want.hex()} pw={pw!r}", site="bip39")
        ctx.log("seed", lang, want[:6], actor="restorer")
    if ok and ch.chance(1, 2, "mxprv?"):
        with ctx.must_succeed(P, "master-key-is-hmac", "bip39"):
            xprv = BIP32KeyData.b58decode(bip39.mxprv_from_mnemonic(text, pw_sent))
        key, chain = ref.bip32_master(want)
        ctx.check(P, "master-key-is-hmac", (xprv.key, xprv.chain_code) == (b"\x00" + key, chain), "master key is not HMAC-SHA512('Bitcoin seed', seed)", site="bip39")
    types = dispatch.all_seed_types_from_mnemonic(text, lang)
    ctx.check(P, "dispatch-names-bip39", "bip39" in types, lambda: f"{lang}: {types}", site="dispatch")
    for _ in range(1 + ch.draw(3, "n.subst")):
        bad, _ = _substitute(ch, meta["canonical"], wordlist, ("word",))
        _bip39_substituted(ctx, lang, bad, wordlist)


def _bip39_substituted(ctx: Ctx, lang: str, text: str, wordlist: Any) -> None:
    """One word replaced by another of the list: accepted iff the reference checksum accepts."""
    from btclib.mnemonic import bip39, dispatch  # noqa: PLC0415

    idx = _indexes(text, wordlist)
    assert idx is not None
    valid = ref.bip39_ok(idx)
    ctx.probe("substitution-valid" if valid else "substitution-invalid")
    ok, got = _guarded(ctx, "bip39.decode", lambda: bip39.entropy_from_mnemonic(text, lang))
    ctx.check(P, "substitution-accepted-iff-checksum", ok == valid, lambda: f"{lang}: reference says {valid}, library {got!r}", site="bip39")
    if ok:
        ctx.check(P, "substitution-accepted-iff-checksum", got == ref.bip39_split(idx)[0], "accepted with another entropy", site="bip39")  # type: ignore[index]
    named = "bip39" in dispatch.all_seed_types_from_mnemonic(text, lang)
    ctx.check(P, "substitution-accepted-iff-checksum", named == valid, lambda: f"{lang}: dispatch says {named}, reference {valid}", site="dispatch")
    ctx.log("substituted", lang, f"valid={valid}", actor="restorer")


def _gen_electrum(ctx: Ctx, rng: _Rng) -> Any:
    from btclib.mnemonic import electrum  # noqa: PLC0415

    ch = ctx.ch
    registry = electrum.ELECTRUM_WORDLISTS
    lang = ch.pick(sorted(registry.language_files), "lang")
    wordlist = registry.wordlist(lang)
    kind = ch.weighted([("standard", 22), ("segwit", 1), ("2fa", 2), ("2fa_segwit", 1)], "electrum.type")
    form = ch.pick(["int", "bytes", "library-rng"], "ent.form")
    if form == "library-rng":
        given, start = None, None
    else:
        start = ch.pick([0, 1, (1 << 131) + 5], "ent.class") if ch.draw(3, "ent.edge?") == 0 else ch.draw(1 << 132, "ent")
        given = start if form == "int" else None
        if form == "bytes":
            n = ch.pick([16, 20, 32], "ent.bytes")
            given = (start % (1 << (8 * n))).to_bytes(n, "big")
            start = int.from_bytes(given, "big")
    if kind.startswith("2fa"):
        # a 2fa seed is one of 12 words or of 20 and more (the rule the reader applies too): entropy worth 12 words,
        # handed over as a number, is what always gives one; other sizes are legitimately refused
        base = len(wordlist)  # 2048 for most lists, 1626 for the Portuguese one: twelve words in THAT base
        start = base**11 + (start or 0) % (base**12 - base**11 - (1 << 40))
        given = start
    with ctx.must_succeed(P, "electrum-generates", "electrum"):
        sentence = electrum.mnemonic_from_entropy(kind, given, lang)
    if start is None:
        assert rng.last_int is not None
        start = rng.last_int + 1  # _random_int_entropy: randbelow(2^n - 1) + 1
    words = sentence.split()
    normalized = ref.electrum_normalize(sentence, lang in CJK)
    ctx.log("electrum", lang, kind, f"{len(words)}w", actor="gen")
    ctx.state(f"electrum:{lang}:{kind}")
    ctx.check(P, "electrum-version-is-spec", ref.electrum_type(normalized, len(words)) == kind, lambda: f"{lang}: {sentence!r} is not a '{kind}' seed by HMAC-SHA512('Seed version')", site="electrum")
    text, how = _respell(ch, sentence, electrum=True)
    if how != "none":
        ctx.fault(f"respell-{how}")
    return ("electrum", lang, text, {"start": start, "kind": kind, "sentence": sentence, "normalized": normalized, "wordlist": wordlist, "pw": _passphrase(ch, cjk=False)})


def _restore_electrum(ctx: Ctx, lang: str, text: str, meta: dict[str, Any]) -> None:
    from btclib.bip32 import BIP32KeyData  # noqa: PLC0415
    from btclib.mnemonic import electrum  # noqa: PLC0415

    ch = ctx.ch
    wordlist = meta["wordlist"]
    if "garbled" in meta:
        _electrum_substituted(ctx, lang, text)
        return
    kind = meta["kind"]
    with ctx.must_succeed(P, "electrum-decodes", "electrum"):
        version = electrum.version_from_mnemonic(text)
        bits = electrum.entropy_from_mnemonic(text, lang)
    ctx.check(P, "electrum-version-is-spec", version == (kind, meta["normalized"]), lambda: f"{lang}: read as {version}", site="electrum.read")
    value = int(bits, 2)
    ctx.check(P, "electrum-entropy-round-trips", value > meta["start"], lambda: f"{lang}: decodes to {value}, the search started above {meta['start']}", site="electrum")
    with ctx.must_succeed(P, "electrum-entropy-round-trips", "electrum.regenerate"):
        again = electrum.mnemonic_from_entropy(kind, value - 1, lang)
    ctx.check(P, "electrum-entropy-round-trips", again == meta["sentence"], lambda: f"{lang}: entropy {value} regenerates {again!r}", site="electrum.regenerate")
    if _ambiguous(electrum._decodable(text).split(), electrum.ELECTRUM_WORDLISTS):
        ctx.probe("electrum-words-in-two-languages")
    if kind == "standard":
        pw = meta["pw"]
        with ctx.must_succeed(P, "electrum-seed-is-pbkdf2", "electrum"):
            xprv = BIP32KeyData.b58decode(electrum.mxprv_from_mnemonic(text, pw))
        key, chain = ref.bip32_master(ref.electrum_seed(meta["normalized"], ref.electrum_normalize(pw)))
        ctx.check(P, "electrum-seed-is-pbkdf2", (xprv.key, xprv.chain_code) == (b"\x00" + key, chain), lambda: f"{lang}: master key is not that of PBKDF2(normalized sentence) pw={pw!r}", site="electrum")
        ctx.log("electrum-seed", lang, key[:6], actor="restorer")
    for _ in range(1 + ch.draw(2, "n.subst")):
        bad, _ = _substitute(ch, meta["sentence"], wordlist, ("word",))
        _electrum_substituted(ctx, lang, bad)


def _electrum_substituted(ctx: Ctx, lang: str, text: str) -> None:
    from btclib.mnemonic import electrum  # noqa: PLC0415

    want = ref.electrum_type(ref.electrum_normalize(text, lang in CJK), len(text.split()))
    ok, got = _guarded(ctx, "electrum.version", lambda: electrum.version_from_mnemonic(text)[0])
    ctx.probe("electrum-substitution-valid" if want else "electrum-substitution-invalid")
    if ok and got == "old":
        ctx.probe("electrum-substitution-reads-as-old")
        return
    ctx.check(P, "electrum-substitution-iff-prefix", (got if ok else "") == want, lambda: f"{lang}: reference '{want}', library {got!r}", site="electrum")
    ctx.log("electrum-substituted", lang, want or "none", actor="restorer")


def _gen_bip85(ctx: Ctx, rng: _Rng) -> None:
    from btclib import bip85  # noqa: PLC0415
    from btclib.bip32 import BIP32KeyData, bip32  # noqa: PLC0415
    from btclib.mnemonic import bip39  # noqa: PLC0415

    ch = ctx.ch
    root = gk.root_xprv(ch)
    index = ch.pick([0, 1, 2**31 - 1], "b85.index") if ch.draw(2, "b85.edge?") else ch.draw(2**31, "b85.idx")
    app = ch.pick(["path", "mnemonic", "bytes", "xprv", "base64"], "b85.app")

    def entropy_of(path: str) -> bytes:
        return ref.bip85_entropy(BIP32KeyData.b58decode(bip32.derive(root, path)).key[1:])

    ctx.state(f"bip85:{app}")
    with ctx.must_succeed(P, "bip85-entropy-is-hmac", app):
        if app == "path":
            path = f"m/83696968h/{ch.draw(2**31, 'b85.app#')}h/{index}h" + (f"/{ch.draw(2**31, 'b85.sub')}h" if ch.draw(2, "b85.deep") else "")
            got, want = bip85.entropy_from_der_path(root, path), entropy_of(path)
        elif app == "mnemonic":
            words = ch.pick([12, 15, 18, 21, 24], "b85.words")
            lang, code = ch.pick([("en", 0), ("ja", 1), ("ko", 2), ("es", 3), ("zh", 4), ("zh_tw", 5), ("fr", 6), ("it", 7), ("cs", 8), ("pt", 9)], "b85.lang")
            sentence = bip85.mnemonic_from_root_key(root, words, lang, index)
            got = bip39.entropy_from_mnemonic(sentence, lang)
            cut = entropy_of(f"m/83696968h/39h/{code}h/{words}h/{index}h")[: words * 4 // 3]
            want = format(int.from_bytes(cut, "big"), f"0{8 * len(cut)}b")
        elif app == "bytes":
            n = 16 + ch.draw(49, "b85.n")
            got, want = bip85.bytes_entropy_from_root_key(root, n, index), entropy_of(f"m/83696968h/128169h/{n}h/{index}h")[:n]
        elif app == "xprv":
            e = entropy_of(f"m/83696968h/32h/{index}h")
            ok, x = _guarded(ctx, "bip85.xprv", lambda: BIP32KeyData.b58decode(bip85.xprv_from_root_key(root, index)))
            if not ok:  # a 2^-127 scalar out of range is refused, as documented
                ctx.probe("bip85-xprv-refused")
                return
            got, want = (x.chain_code, x.key), (e[:32], b"\x00" + e[32:])
        else:
            n = 20 + ch.draw(67, "b85.n")
            got = bip85.base64_password_from_root_key(root, n, index)
            want = b64encode(entropy_of(f"m/83696968h/707764h/{n}h/{index}h")).decode()[:n]
    ctx.check(P, "bip85-entropy-is-hmac", got == want, lambda: f"{app} index {index}: {got!r} != {want!r}", site=app)
    ctx.log("bip85", app, index, got if isinstance(got, (bytes, str)) else got[0], actor="gen")


def _plans(tier: str) -> list[Any]:
    from btcsim.core.runner import Plan  # noqa: PLC0415

    return [
        Plan("custody", {"part": "slip39", "faults": False}, share=1.0, chunk=20, label="custody/slip39"),
        Plan("custody", {"part": "slip39", "faults": True}, share=2.0, chunk=20, label="custody/slip39-faults"),
        Plan("custody", {"part": "seeds", "faults": False}, share=1.5, chunk=10, label="custody/seeds"),
        Plan("custody", {"part": "seeds", "faults": True}, share=1.5, chunk=10, label="custody/seeds-faults"),
    ]


CHECKS = {
    "C13": {
        "level": "exploration",
        "plans": _plans,
        "rule": (
            "one evaluation = one seeded run: (slip39) one drawn configuration (groups, thresholds, exponent, extendable, "
            "passphrase, secret class, entropy-source draws) dealt to holders and collected by a recovery node under a drawn "
            "fault schedule, with every recovery attempt judged against the split secret and the exact-threshold semantics; "
            "(seeds) 1-3 BIP39 / Electrum / BIP85 generations in a drawn language and entropy class, carried through a "
            "re-normalising courier and judged against hashlib/hmac references. distinct = distinct (actor, event, fault) "
            "sequence; non-trivial = at least one fault or re-spelling fired."
        ),
        "assumptions": [
            "SLIP39 passphrases are printable ASCII (the library refuses others); iteration exponent <= 1; <= 40 shares per run",
            "GF(256) interpolation has no independent reference: the oracle is the scheme's own semantics (recover iff thresholds, equal to what was split)",
            "a corrupted share is asserted refused only when the reference RS1024 checksum rejects it",
            "BIP39/Electrum calls that read the language off the words may refuse a sentence two word-lists spell (documented); the explicit-language calls are held strictly",
            "all single-word substitutions x all languages are sampled, not enumerated",
        ],
    },
}
