"""W5c `taptree` -- taproot commitments over the whole range of tree shapes (C12).

The ceremony world (W5) checks C12 on the trees wallets really use (depth
<= 5). The statement quantifies over "all binary script trees up to the
BIP341 depth limit, with repeated and unbalanced leaves", so this world
draws the shapes a wallet never builds: caterpillars whose deepest leaf
sits at depth 100, 126, 127 or exactly MAX_TREE_DEPTH = 128, lopsided
random trees, repeated leaves, other even leaf versions.

Actors: a wallet that builds (internal key, tree) and hands out the output
key; a spender that asks the library for the control block of a drawn leaf
and ships (script, control block) through a courier that may flip one bit;
a verifier (check_output_pubkey, and the engine on a whole spend for
anyone-can-spend leaves). The backend switch is drawn per run and flipped
between producer and verifier in some runs.

Invariants (all C12)
- control-block-proves-leaf: the library's control block for a leaf proves
  it against the output key the wallet handed out, at every depth it
  accepted to build; its length is 33 + 32 * depth.
- spend-accepted-by-engine: a script-path spend of an anyone-can-spend leaf
  with that control block is accepted by verify_input.
- output-prvkey-matches: output_prvkey(d, tree) * G is the output key.
- output-key-equals-reference (sampled evidence): BIP341 transcription.
- altered-proof-rejected: one bit flipped in transit in control block, leaf
  script or output key is answered False / refused with a library error.
- altered-spend-rejected-by-engine: the same altered (output key, script,
  control block) inside a script-path spend is refused by verify_input,
  whatever leaf version the altered control block names.
- bad-internal-key-refused: an internal key whose x is no coordinate of a
  point (or no field element) is refused by every producer with a library
  exception, and by check_output_pubkey with one or with False.
- out-of-range-tweak-refused: with the TapTweak digest drawn from
  [n, 2^256) -- the hash is the seam; no input reaches that clause of BIP341
  otherwise -- every producer and the checker refuse.
- answers-follow-the-tree-as-it-is: a leaf replaced IN PLACE in the list the
  caller handed over (a third of the runs): output key and control block
  are those of a deep copy of the tree as it is now.
Probe only (never asserted): a tree deeper than the limit being refused by
the producer.
"""

from __future__ import annotations

from typing import Any

from btclib.exceptions import BTClibException
from btclib.script import taproot
from btclib.script.engine import verify_input
from btclib.tx.out_point import OutPoint
from btclib.tx.tx import Tx
from btclib.tx.tx_in import TxIn
from btclib.tx.tx_out import TxOut
from btclib.script.witness import Witness

from btcsim.core.ctx import Ctx
from btcsim.core.runner import Plan
from btcsim.gen import keys as gk
from btcsim.ref import taproot as ref_taproot
from btcsim.seams import state as st
from btcsim.seams.rng import SimRng

P12 = "C12"
LIB = (BTClibException,)
DEPTHS = [1, 2, 3, 5, 8, 33, 100, 126, 127, 128]
LEAF_SCRIPTS: list[list[Any]] = [["OP_1"], ["OP_2", "OP_DROP", "OP_1"], ["OP_1", "OP_1", "OP_EQUAL"], ["OP_0", "OP_NOT"]]


def _leaf(ch: Any, pool: list[Any]) -> Any:
    """A leaf: an anyone-can-spend script, a key check, or a repeat of an earlier leaf."""
    k = ch.draw(7, "leaf.kind")
    if k == 6:
        # a long leaf: a pushed blob dropped again, so that the serialized script is 252..256 octets (either side of
        # the one-octet CompactSize length in the leaf hash) or past the largest push
        blob = ch.nbytes(ch.pick([248, 249, 249, 250, 251, 252, 520], "leaf.blob"), "leaf.blob.octets")
        leaf = (0xC0, [blob.hex(), "OP_DROP", "OP_1"])
        pool.append(leaf)
        return leaf
    if k == 5 and pool:
        return pool[ch.draw(len(pool), "leaf.repeat")]
    version = 0xC0 if ch.draw(5, "leaf.version") else 0xC0 + 2 * (1 + ch.draw(8, "leaf.otherversion"))
    if ch.draw(8, "leaf.oddversion") == 7:
        version |= 1  # the low bit is the control block's parity bit, not part of the version: the library masks it off
    if k in (0, 1, 2):
        script = LEAF_SCRIPTS[ch.draw(len(LEAF_SCRIPTS), "leaf.script")]
    else:
        script = [gk.xonly(gk.scalar(ch, "leaf.key")).hex(), "OP_CHECKSIG"]
    leaf = (version, script)
    pool.append(leaf)
    return leaf


def _caterpillar(ch: Any, depth: int, pool: list[Any]) -> tuple[Any, list[int]]:
    """A tree whose deepest two leaves sit at `depth`. Returns (tree, depth of each leaf in tree order)."""
    deep_left = bool(ch.draw(2, "cat.side"))
    tree: Any = [[_leaf(ch, pool)], [_leaf(ch, pool)]]
    depths = [depth, depth]
    for level in range(depth - 1, 0, -1):
        side = [_leaf(ch, pool)]
        if deep_left:
            tree = [tree, side]
            depths = depths + [level]
        else:
            tree = [side, tree]
            depths = [level] + depths
    return tree, depths


def _random_tree(ch: Any, budget: int, pool: list[Any], depth: int = 0) -> tuple[Any, list[int]]:
    if budget <= 1 or (depth > 0 and ch.draw(3, "tree.stop") == 0):
        return [_leaf(ch, pool)], [depth]
    left_budget = 1 + ch.draw(budget - 1, "tree.split")
    lt, ld = _random_tree(ch, left_budget, pool, depth + 1)
    rt, rd = _random_tree(ch, budget - left_budget, pool, depth + 1)
    return [lt, rt], ld + rd


def _ref_tree(tree: Any) -> Any:
    if len(tree) == 1:
        return (tree[0][0] & 0xFE, taproot.serialize(tree[0][1]))  # the low bit is not part of a leaf version
    return (_ref_tree(tree[0]), _ref_tree(tree[1]))


def _leaves(tree: Any) -> list[Any]:
    return [tree[0]] if len(tree) == 1 else _leaves(tree[0]) + _leaves(tree[1])


def _flip(data: bytes, bit: int) -> bytes:
    b = bytearray(data)
    b[bit // 8] ^= 1 << (bit % 8)
    return bytes(b)


P09 = "C09"
_CHECKS = ("OP_CHECKSIG", "OP_CHECKSIGVERIFY", "OP_CHECKSIGADD")


def _codesep_leaf(ctx: Ctx) -> None:
    """C09, BIP342's extension: a tapleaf that runs OP_CODESEPARATORs between its signature checks -- behind op codes
    the engine expands (CHECKSIGVERIFY, CHECKSIGADD, NUMEQUALVERIFY) and behind pushes -- is spent with signatures made
    over the digest AS THE TEXT DEFINES IT (`ref/sighash.bip341`, extension = leaf hash, key version 0, the op-code
    position of the last separator executed): the engine, which works the position out for itself, accepts them; a
    signature made for another position it refuses."""
    from btclib.ecc import ssa  # noqa: PLC0415
    from btclib.script import sig_hash  # noqa: PLC0415

    from btcsim.ref import sighash as ref_sighash  # noqa: PLC0415

    ch = ctx.ch
    st.set_backend(bool(ch.draw(3, "backend0")) and st.bindings_installed())
    qs = [gk.scalar(ch, "cs.key") for _ in range(2)]
    xs = [gk.xonly(q) for q in qs]
    # the script: 2-4 signature checks over the two keys, separators and fillers drawn in between
    cmds: list[Any] = []
    checks: list[tuple[int, int]] = []  # (which key, position of the last separator executed before it)
    last = 0xFFFFFFFF
    n_checks = 2 + ch.draw(3, "cs.checks")
    for k in range(n_checks):
        for _ in range(ch.draw(3, "cs.fill")):
            filler = ch.pick([["OP_CODESEPARATOR"], ["OP_CODESEPARATOR"], ["OP_NOP"], ["OP_1", "OP_VERIFY"], ["OP_1", "OP_1", "OP_NUMEQUALVERIFY"], [b"\xab" * 3, "OP_DROP"]], "cs.filler")
            for c in filler:
                if c == "OP_CODESEPARATOR":
                    last = len(cmds)
                cmds.append(c)
        who = ch.draw(2, "cs.who")
        cmds += [xs[who].hex(), "OP_CHECKSIGVERIFY" if k + 1 < n_checks else "OP_CHECKSIG"]
        checks.append((who, last))
    script = taproot.serialize(cmds)
    tree = [(0xC0, cmds)]
    internal = b"\x02" + gk.xonly(gk.scalar(ch, "cs.internal"))
    with ctx.must_succeed(P09, "direct-digest-computes", "codesep-leaf"):
        q, _ = taproot.output_pubkey(internal, tree)
        _, control = taproot.input_script_sig(internal, tree, 0)
    lh = taproot.leaf_hash(0xC0, script)
    prevouts = [TxOut(10_000, b"\x51\x20" + q)]
    tx = Tx(2, ch.pick([0, 500_000], "cs.locktime"), [TxIn(OutPoint(ch.nbytes(32, "cs.txid"), 1), b"", 0xFFFFFFFD)], [TxOut(9_000, b"\x00\x14" + bytes(20))])
    ht = ch.pick([0, 1, 3, 0x81, 0x83, 2], "cs.ht")
    wrong = ch.draw(n_checks + 2, "cs.wrong")  # which check (if any) gets a signature for another separator position
    sigs = []
    for k, (who, pos) in enumerate(checks):
        if k == wrong:
            pos = {0xFFFFFFFF: 0}.get(pos, pos + 1 + ch.draw(3, "cs.off"))
            ctx.fault("signature-for-another-codeseparator-position")
        ext = lh + b"\x00" + pos.to_bytes(4, "little")
        digest = ref_sighash.bip341(tx, 0, prevouts, ht, 1, b"", ext)
        lib = sig_hash.taproot(tx, 0, prevouts, ht, 1, b"", ext)
        ctx.check(P09, "direct-equals-definition", lib == digest, lambda: f"tapleaf extension with separator position {pos:#x}: direct {lib.hex()} != transcription {digest.hex()}", site="codesep-leaf")
        sig = ssa.sign_(digest, qs[who], ch.nbytes(32, "cs.aux")).serialize()
        sigs.append(sig + (bytes([ht]) if ht else b""))
    tx.vin[0].script_witness = Witness([*reversed(sigs), script, control])
    ctx.log("codesep-leaf", len(cmds), [hex(p) for _, p in checks], f"ht={ht}", f"wrong={wrong if wrong < n_checks else None}")
    ctx.state(f"codesep:{n_checks}:{sum(1 for c in cmds if c == 'OP_CODESEPARATOR')}:{wrong < n_checks}")
    try:
        verify_input(prevouts, tx, 0)
        verdict = "accepted"
    except LIB as e:
        verdict = f"refused {type(e).__name__}: {e}"[:160]
    if wrong < n_checks:
        ctx.check(P09, "engine-refuses-signature-for-another-position", verdict.startswith("refused"), lambda: f"{cmds}: check {wrong} signed for another separator position, the engine {verdict}", site="codesep-leaf")
    else:
        ctx.check(P09, "engine-accepts-signatures-over-defined-digest", verdict == "accepted", lambda: f"{cmds} (separator positions {[hex(p) for _, p in checks]}, type {ht}): the engine {verdict}", site="codesep-leaf")
        ctx.probe(f"codesep-leaf-accepted:{sum(1 for c in cmds if c == 'OP_CODESEPARATOR')}")


def run(ctx: Ctx) -> None:
    if ctx.cfg.get("part") == "codesep":
        _codesep_leaf(ctx)
        return
    ch = ctx.ch
    faulty = bool(ctx.cfg.get("faults"))
    SimRng(ctx, mode=ch.pick(["uniform", "edge"], "rng.mode")).install()
    serving = bool(ch.draw(4, "backend0")) and st.bindings_installed()
    st.set_backend(serving)
    pool: list[Any] = []
    if ch.draw(3, "shape") == 0:
        tree, depths = _random_tree(ch, 2 + ch.draw(10, "tree.leaves"), pool)
        shape = "random"
    else:
        d = DEPTHS[ch.draw(len(DEPTHS), "cat.depth")]
        tree, depths = _caterpillar(ch, d, pool)
        shape = f"caterpillar-{d}"
    d_int = gk.scalar(ch, "internal")
    x_only = gk.xonly(d_int)
    nums = ch.draw(6, "nums") == 0
    internal: Any = None if nums else ch.pick([b"\x02" + x_only, (b"\x02" + x_only).hex(), gk.compressed(d_int)], "internal.spelling")
    ctx.log("wallet", shape, f"leaves={len(depths)}", f"max-depth={max(depths)}", f"bindings={serving}", "nums" if nums else "key")
    ctx.state(f"{shape}:{'nums' if nums else 'key'}")
    with ctx.must_succeed(P12, "output-key-computes", "output_pubkey"):
        q, parity = taproot.output_pubkey(internal, tree)
    ctx.probe(f"output-key-parity:{parity}")
    ctx.probe(f"max-depth:{max(depths)}")
    if ch.draw(4, "reference?") == 0 and not nums:
        ref_key = ref_taproot.output_key(x_only, _ref_tree(tree))
        ctx.probe("reference-output-key")
        ctx.check(P12, "output-key-equals-reference", (q, parity) == ref_key, lambda: f"output key {q.hex()}/{parity}, BIP341 transcription {ref_key[0].hex()}/{ref_key[1]} ({shape})")
    if not nums:
        with ctx.must_succeed(P12, "output-prvkey-matches", "output_prvkey"):
            d_out = taproot.output_prvkey(d_int, tree)
        ctx.check(P12, "output-prvkey-matches", gk.xonly(d_out) == q, lambda: f"output_prvkey's public key {gk.xonly(d_out).hex()} != output key {q.hex()} ({shape})")
    leaves = _leaves(tree)
    # the spender: the deepest leaf, the shallowest, and a few drawn ones
    order = sorted(range(len(depths)), key=lambda n: (-depths[n], n))
    chosen = [order[0], order[-1]] + [ch.draw(len(depths), "leaf.n") for _ in range(2)]
    for n in dict.fromkeys(chosen):
        if ch.draw(4, "flip-backend") == 0 and st.bindings_installed():
            st.set_backend(not st.backend())
            ctx.fault("backend-flip", f"serving={st.backend()}")
        with ctx.must_succeed(P12, "control-block-proves-leaf", "input_script_sig"):
            cmds, control = taproot.input_script_sig(internal, tree, n)
            script = taproot.serialize(cmds)
        ctx.check(P12, "control-block-length", len(control) == 33 + 32 * depths[n], lambda: f"leaf {n} at depth {depths[n]}: control block of {len(control)} bytes", site=f"depth-{min(depths[n], 129)}")
        with ctx.must_succeed(P12, "control-block-proves-leaf", "check_output_pubkey"):
            ok = taproot.check_output_pubkey(q, script, control)
        ctx.check(
            P12, "control-block-proves-leaf", ok is True,
            lambda: f"leaf {n} at depth {depths[n]} of {shape}: the library's control block ({len(control)} bytes) does not prove {script.hex()} against {q.hex()}",
            site="check_output_pubkey",
        )
        ctx.log("proof", n, f"depth={depths[n]}", len(control), ok)
        ctx.probe(f"proved-depth:{depths[n] if depths[n] >= 100 else min(depths[n], 9)}")
        version, raw = leaves[n]
        # the whole spend goes to the engine: an anyone-can-spend leaf under the tapscript version, any script under
        # another even version (BIP341: an unknown leaf version succeeds once the control block has proved the leaf)
        engine = raw in LEAF_SCRIPTS or version & 0xFE != 0xC0

        def spend(out_key: bytes, scr: bytes, cb: bytes) -> tuple[list[TxOut], Tx]:
            return (
                [TxOut(10_000, b"\x51\x20" + out_key)],
                Tx(2, 0, [TxIn(OutPoint(b"\x33" * 32, 0), b"", 0xFFFFFFFD, Witness([scr, cb]))], [TxOut(9_000, b"\x00\x14" + bytes(20))]),
            )

        if engine:
            prevouts, tx = spend(q, script, control)
            with ctx.must_succeed(P12, "spend-accepted-by-engine", "verify_input"):
                verify_input(prevouts, tx, 0)
            ctx.probe("engine-accepted-script-path" if version & 0xFE == 0xC0 else "engine-accepted-other-leaf-version")
        if faulty:
            for _ in range(3):
                target = ch.pick(["control-block", "leaf-script", "output-key", "parity-or-version"], "flip.target")
                if target == "leaf-script":
                    args = (q, _flip(script, ch.draw(8 * len(script), "flip.bit")), control)
                elif target == "output-key":
                    args = (_flip(q, ch.draw(256, "flip.bit")), script, control)
                elif target == "parity-or-version":
                    args = (q, script, _flip(control, ch.draw(8, "flip.bit")))
                else:
                    args = (q, script, _flip(control, 8 + ch.draw(8 * (len(control) - 1), "flip.bit")))
                ctx.fault(f"bitflip-{target}")
                try:
                    answer: Any = taproot.check_output_pubkey(*args)
                except LIB as e:
                    answer = type(e).__name__
                    ctx.probe("altered-proof-refused")
                except Exception as e:  # noqa: BLE001
                    answer = f"non-library {type(e).__name__}: {e}"
                ctx.check(
                    P12, "altered-proof-rejected", answer is False or (isinstance(answer, str) and not answer.startswith("non-library")),
                    lambda: f"{target} altered on a depth-{depths[n]} proof: check_output_pubkey answered {answer}", site=target,
                )
                if engine:
                    # the same altered proof inside a spend: the engine refuses it, whatever leaf version the
                    # altered control block now names
                    prevouts, tx = spend(*args)
                    try:
                        verify_input(prevouts, tx, 0)
                        verdict = "accepted"
                    except LIB as e:
                        verdict = f"refused {type(e).__name__}"
                    except Exception as e:  # noqa: BLE001
                        verdict = f"non-library {type(e).__name__}: {e}"
                    ctx.probe(f"engine-on-altered-{target}:{verdict.split()[0]}")
                    ctx.check(
                        P12, "altered-spend-rejected-by-engine", verdict.startswith("refused"),
                        lambda: f"{target} altered on a depth-{depths[n]} script-path spend (leaf version {version:#x}): verify_input {verdict}", site=target,
                    )
    if ch.draw(3, "edit-in-place?") == 0:
        _edited_in_place(ctx, internal, tree, pool)
    if faulty:
        _refusals(ctx, internal, d_int, tree, q, leaves)
    # beyond the limit: whatever the producer does is logged, never judged
    if ch.draw(8, "too-deep?") == 0:
        deep, _ = _caterpillar(ch, 129, pool)
        try:
            taproot.output_pubkey(internal, deep)
            ctx.probe("depth-129-answered")
        except LIB:
            ctx.probe("depth-129-refused")


def _edited_in_place(ctx: Ctx, internal: Any, tree: Any, pool: list[Any]) -> None:
    """The caller edits the tree it handed over -- the same list object, one leaf replaced -- and asks again: the answers
    are those of the tree as it is now (a deep copy of it says what they are), not of the tree as it was."""
    from copy import deepcopy  # noqa: PLC0415

    ch = ctx.ch
    holders: list[Any] = []

    def walk(t: Any) -> None:
        if len(t) == 1:
            holders.append(t)
        else:
            walk(t[0])
            walk(t[1])

    walk(tree)
    n = ch.draw(len(holders), "edit.leaf")
    was = holders[n][0]
    new = _leaf(ch, pool)
    if new == was:
        return
    holders[n][0] = new
    ctx.fault("tree-edited-in-place")
    try:
        with ctx.must_succeed(P12, "answers-follow-the-tree-as-it-is", "output_pubkey"):
            now = taproot.output_pubkey(internal, tree)
            fresh = taproot.output_pubkey(internal, deepcopy(tree))
        ctx.check(P12, "answers-follow-the-tree-as-it-is", now == fresh, lambda: f"leaf {n} replaced in place: output key {now[0].hex()}, a copy of the same tree gives {fresh[0].hex()}", site="output_pubkey")
        with ctx.must_succeed(P12, "answers-follow-the-tree-as-it-is", "input_script_sig"):
            cmds, control = taproot.input_script_sig(internal, tree, n)
            ok = taproot.check_output_pubkey(fresh[0], taproot.serialize(cmds), control)
        ctx.check(P12, "answers-follow-the-tree-as-it-is", ok is True and taproot.serialize(cmds) == taproot.serialize(new[1]), lambda: f"leaf {n} replaced in place: the control block for it does not prove the new leaf against {fresh[0].hex()}", site="input_script_sig")
    finally:
        holders[n][0] = was


_FIELD = 2**256 - 2**32 - 977
_ORDER = 0xFFFFFFFFFFFFFFFFFFFFFFFFFFFFFFFEBAAEDCE6AF48A03BBFD25E8CD0364141


def _refused(ctx: Ctx, what: str, site: str, fn: Any, *, false_is_refusal: bool = False) -> None:
    try:
        answer: Any = fn()
        verdict = "refused" if false_is_refusal and answer is False else f"answered {answer!r}"[:120]
    except LIB as e:
        verdict = "refused"
        ctx.probe(f"refused-{site}:{type(e).__name__}")
    except Exception as e:  # noqa: BLE001
        verdict = f"non-library {type(e).__name__}: {e}"[:160]
    ctx.check(P12, what, verdict == "refused", lambda: f"{site}: {verdict}", site=site)


def _refusals(ctx: Ctx, internal: Any, d_int: int, tree: Any, q: bytes, leaves: list[Any]) -> None:
    """The last clause: an internal key that is no point, a tweak that is no scalar."""
    ch = ctx.ch
    # (a) an x that is not the coordinate of a point, or not a field element at all
    if ch.draw(2, "bad-internal?"):
        while True:
            x = ch.draw(_FIELD, "badx") if ch.draw(4, "badx.k") else _FIELD + ch.draw(2**32 + 977, "badx.over")
            if x >= _FIELD or pow(x**3 + 7, (_FIELD - 1) // 2, _FIELD) != 1:
                break
        xb = x.to_bytes(32, "big")
        # 32 bare octets would be read as a private key by the Key-taking entry points: the sec spellings name an x
        spelled = ch.pick([b"\x02" + xb, b"\x03" + xb, (b"\x02" + xb).hex()], "badx.spelling")
        ctx.fault("internal-key-not-a-point")
        _refused(ctx, "bad-internal-key-refused", "output_pubkey", lambda: taproot.output_pubkey(spelled, tree))
        _refused(ctx, "bad-internal-key-refused", "output_pubkey_from_merkle_root", lambda: taproot.output_pubkey_from_merkle_root(xb, ch.nbytes(32, "badx.root")))
        _refused(ctx, "bad-internal-key-refused", "input_script_sig", lambda: taproot.input_script_sig(spelled, tree, 0))
        cmds, control = taproot.input_script_sig(internal, tree, 0)
        forged = control[:1] + xb + control[33:]
        _refused(ctx, "bad-internal-key-refused", "check_output_pubkey", lambda: taproot.check_output_pubkey(q, taproot.serialize(cmds), forged), false_is_refusal=True)
    # (b) BIP341: "fail if t >= n". No input reaches that in 2^128 tries, so the hash is the seam: for this call the
    # TapTweak digest is drawn from [n, 2^256) -- a value SHA256 may legally return
    if ch.draw(2, "big-tweak?"):
        from btclib import hashes  # noqa: PLC0415

        t = _ORDER + ch.draw(2**256 - _ORDER, "tweak.over") if ch.draw(3, "tweak.k") else ch.pick([_ORDER, 2**256 - 1, _ORDER + 1], "tweak.edge")
        real = taproot.tagged_hash

        def rigged(tag: bytes, m: bytes, *a: Any, **kw: Any) -> bytes:
            return t.to_bytes(32, "big") if tag == b"TapTweak" else real(tag, m, *a, **kw)

        undo = [st.patch_attr(taproot, "tagged_hash", rigged)]
        if getattr(hashes, "tagged_hash", None) is real:
            undo.append(st.patch_attr(hashes, "tagged_hash", rigged))
        ctx.fault("tap-tweak-digest-not-below-order", hex(t)[:12])
        try:
            _refused(ctx, "out-of-range-tweak-refused", "output_pubkey", lambda: taproot.output_pubkey(internal, tree))
            if internal is not None:
                _refused(ctx, "out-of-range-tweak-refused", "output_prvkey", lambda: taproot.output_prvkey(d_int, tree))
                _refused(ctx, "out-of-range-tweak-refused", "output_pubkey_from_merkle_root", lambda: taproot.output_pubkey_from_merkle_root(internal, bytes(32)))
            cmds, control = _with(undo, real, lambda: taproot.input_script_sig(internal, tree, 0))
            _refused(ctx, "out-of-range-tweak-refused", "check_output_pubkey", lambda: taproot.check_output_pubkey(q, taproot.serialize(cmds), control), false_is_refusal=True)
        finally:
            for u in reversed(undo):
                u()


def _with(undo: list[Any], real: Any, fn: Any) -> Any:
    """fn() under the real hash (the honest spender's control block), the rigged one back afterwards."""
    rigged = taproot.tagged_hash
    taproot.tagged_hash = real  # type: ignore[assignment]
    try:
        return fn()
    finally:
        taproot.tagged_hash = rigged  # type: ignore[assignment]


def _plans(tier: str) -> list[Plan]:
    return [
        Plan("taptree", {"faults": False}, share=0.4, chunk=20, label="taptree/fault-free"),
        Plan("taptree", {"faults": True}, share=0.4, chunk=20, label="taptree/bitflips"),
    ]


CHECKS = {
    "C09": {
        "level": "exploration",
        "plans": lambda tier: [Plan("taptree", {"part": "codesep"}, share=0.5, chunk=40, label="taptree/codeseparator-leaf")],
        "rule": (
            "taptree/codeseparator-leaf: one evaluation = one drawn tapleaf of 2-4 signature checks with OP_CODESEPARATORs, expanding "
            "op codes and pushes drawn in between, spent with signatures made over the transcribed BIP341/342 digest for the separator "
            "position each check sees; the engine accepts, and refuses a signature made for another position."
        ),
        "assumptions": ["btcsim/ref/sighash.py is the oracle for the digest; the engine derives the separator position itself"],
    },
    "C12": {
        "level": "exploration",
        "plans": _plans,
        "rule": (
            "taptree: one evaluation = one drawn (internal key spelling or NUMS, tree) with the tree a random lopsided tree or a "
            "caterpillar whose deepest leaves sit at depth 1..128 (the BIP341 limit included), repeated leaves and other leaf versions; "
            "the deepest, the shallowest and two drawn leaves are proved, anyone-can-spend leaves are spent through the engine; "
            "non-trivial = a backend flip or a bit flip fired."
        ),
        "assumptions": ["that the output key is BIP341's formula is sampled against a transcription, not decided"],
    },
}
