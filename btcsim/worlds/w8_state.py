"""W8 `state` -- objects with memory, pure functions under histories and
schedules (C20).

Parts (``cfg['part']``):
- ``nonce``  : MuSig2 secret nonces over a generated history of calls;
- ``signer`` : dsa.Signer / ssa.Signer / SoftwareSigner, open -> dead;
- ``wallet`` : the ledger and high-water mark vs a reference model;
- ``indep``  : pure calls vs their quiescent baseline under cache and
               backend perturbation;
- ``threads``: the same calls from simulated threads, seeded interleavings.
"""

from __future__ import annotations

import hashlib
from typing import Any, Callable

from btclib.exceptions import BTClibException

from btcsim.core.ctx import Ctx, RunAborted
from btcsim.gen import keys as gk
from btcsim.seams import state as st
from btcsim.seams.rng import SimRng

P = "C20"
LIB_ERRORS = (BTClibException,)


def run(ctx: Ctx) -> None:
    part = ctx.cfg.get("part", "mix")
    if part == "mix":
        part = ctx.ch.pick(["nonce", "signer", "wallet", "indep"], "part")
    rng = SimRng(ctx, mode=ctx.ch.pick(["uniform", "edge"], "rng.mode"))
    rng.install()
    serving = bool(ctx.ch.draw(4, "backend0")) and st.bindings_installed()
    st.set_backend(serving)
    ctx.log("start", part, f"bindings={serving}")
    {
        "nonce": _nonce_history,
        "signer": _signer_history,
        "wallet": _wallet_history,
        "indep": _independence,
        "threads": _threads,
    }[part](ctx, rng)


# ---------------------------------------------------------------------------
# perturbations usable between any two operations
# ---------------------------------------------------------------------------
def _perturb(ctx: Ctx, label: str = "perturb") -> None:
    k = ctx.ch.draw(6, label)
    if k == 0:
        name = st.clear_cache(ctx.ch.draw(16, label + ".which"))
        ctx.fault("cache-clear", name)
    elif k == 1:
        st.clear_all_caches()
        ctx.fault("cache-clear-all")
    elif k == 2 and st.bindings_installed():
        now = not st.backend()
        st.set_backend(now)
        ctx.fault("backend-flip", f"serving={now}")
    elif k == 3:
        # an unrelated call that populates tables
        from btclib.curves import mult, secp256k1  # noqa: PLC0415

        mult(2 + ctx.ch.draw(1000, label + ".k"), secp256k1.G)
        ctx.log("unrelated-mult")
    # 4, 5: nothing


# ---------------------------------------------------------------------------
# (a1) nonces
# ---------------------------------------------------------------------------
class _Round:
    def __init__(self) -> None:
        self.prv: list[int] = []
        self.pks: list[bytes] = []
        self.sec: list[bytearray] = []
        self.pubn: list[bytes] = []
        self.signed: list[int] = []  # successful signatures per nonce (model)
        self.sigs: list[list[bytes]] = []
        self.ctx_good: Any = None
        self.ctx_other: Any = None  # a second assembling session (other msg)


def _bip373_psbt(ctx: Ctx, pks: list[bytes], style: int) -> tuple[Any, bytes]:
    """A one-input PSBT spending a p2tr output whose key is the MuSig2 aggregate
    of pks (style 0: the output key itself; 1: the internal key, no tree)."""
    from btclib.psbt import musig2 as pm  # noqa: PLC0415
    from btclib.psbt.psbt import Psbt  # noqa: PLC0415
    from btclib.script import taproot  # noqa: PLC0415
    from btclib.tx.out_point import OutPoint  # noqa: PLC0415
    from btclib.tx.tx import Tx  # noqa: PLC0415
    from btclib.tx.tx_in import TxIn  # noqa: PLC0415
    from btclib.tx.tx_out import TxOut  # noqa: PLC0415

    tx = Tx(2, 0, [TxIn(OutPoint(b"\x22" * 32, 1), b"", 0xFFFFFFFD)], [TxOut(9000, b"\x00\x14" + bytes(20))])
    psbt = Psbt.from_tx(tx)
    agg = pm.add_participant_pub_keys(psbt.inputs[0], pks)
    if style == 0:
        out_key = agg[1:]
    else:
        psbt.inputs[0].taproot_internal_key = agg[1:]
        out_key = taproot.output_pubkey(agg)[0]
    psbt.inputs[0].witness_utxo = TxOut(10000, b"\x51\x20" + out_key)
    return psbt, agg


class _PsbtRound:
    def __init__(self) -> None:
        self.prv: list[int] = []
        self.sec: list[bytearray] = []
        self.signed: list[int] = []
        self.psbt: Any = None
        self.agg = b""


def _handed(ch: Any, sec: bytearray) -> Any:
    """The secnonce as a caller hands it over: the bytearray nonce_gen returned, or a writable view of it (what a
    caller that keeps its nonces in one arena passes). Either way it is the one buffer, and it signs once."""
    return memoryview(sec) if ch.draw(3, "sec.handed-as-view") == 0 else sec


def _nonce_history(ctx: Ctx, rng: SimRng) -> None:
    from btclib.ecc import musig2  # noqa: PLC0415
    from btclib.psbt import musig2 as pm  # noqa: PLC0415

    ch = ctx.ch
    rounds: list[_Round] = []
    prounds: list[_PsbtRound] = []

    def new_psbt_round() -> None:
        pr = _PsbtRound()
        n = 1 + ch.draw(3, "p.signers")
        pr.prv = [gk.scalar(ch, "p.prv") for _ in range(n)]
        pks = [musig2.individual_pub_key(q) for q in pr.prv]
        with ctx.must_succeed("C16", "bip373-session-builds"):
            pr.psbt, pr.agg = _bip373_psbt(ctx, pks, ch.draw(2, "p.style"))
            for q in pr.prv:
                pr.sec.append(pm.nonce_gen(pr.psbt, 0, q, pr.agg))
                pr.signed.append(0)
        prounds.append(pr)
        ctx.log("psbt-round", f"n={n}")

    def new_round() -> None:
        r = _Round()
        n = 1 + ch.draw(3, "signers")
        for _ in range(n):
            q = gk.scalar(ch, "prv")
            r.prv.append(q)
            r.pks.append(musig2.individual_pub_key(q))
        msg = ch.nbytes(ch.draw(40, "msglen"), "msg")
        tweaks: list[bytes] = []
        xo: list[bool] = []
        for _ in range(ch.draw(3, "ntweaks")):
            tweaks.append((1 + ch.draw(gk.N - 1, "tweak")).to_bytes(32, "big"))
            xo.append(bool(ch.draw(2, "xonly")))
        for i in range(n):
            with_key = bool(ch.draw(2, "noncegen.withkey"))
            sec, pub = musig2.nonce_gen(r.prv[i] if with_key else None, r.pks[i], None, msg if ch.draw(2, "noncegen.msg") else None)
            r.sec.append(sec)
            r.pubn.append(pub)
            r.signed.append(0)
            r.sigs.append([])
        agg = musig2.nonce_agg(r.pubn)
        r.ctx_good = musig2.SessionContext(agg, r.pks, tweaks, xo, msg)
        r.ctx_other = musig2.SessionContext(agg, r.pks, tweaks, xo, msg + b"\x01")
        rounds.append(r)
        ctx.log("round", f"n={n}", f"tweaks={len(tweaks)}", f"msg={len(msg)}")

    def invariant() -> None:
        for ri, pr in enumerate(prounds):
            for i, cnt in enumerate(pr.signed):
                ctx.check(P, "nonce-signs-at-most-once", cnt <= 1, f"psbt round {ri} signer {i}: {cnt} partial signatures from one secnonce", site="psbt.musig2.partial_sign")
                if cnt >= 1:
                    ctx.check(P, "nonce-zeroed-after-sign", bytes(pr.sec[i][:64]) == bytes(64), f"psbt round {ri} signer {i}: secnonce not zeroed", site="psbt.musig2.partial_sign")
        for ri, r in enumerate(rounds):
            for i, cnt in enumerate(r.signed):
                ctx.check(P, "nonce-signs-at-most-once", cnt <= 1, f"round {ri} signer {i}: {cnt} signatures from one secnonce")
                if cnt >= 1:
                    ctx.check(P, "nonce-zeroed-after-sign", bytes(r.sec[i][:64]) == bytes(64), f"round {ri} signer {i}: secnonce not zeroed after signing")

    new_round()
    n_ops = 5 + ch.draw(30, "nops")
    for _ in range(n_ops):
        op = ch.weighted(
            [("sign", 8), ("sign-other-session", 4), ("sign-bad-session", 3), ("sign-other-key", 2), ("new-round", 1), ("det-sign", 1), ("verify", 2), ("perturb", 3), ("psbt-sign", 5), ("psbt-cross-sign", 2)],
            "op",
        )
        if op == "new-round":
            if len(rounds) < 3:
                new_round()
            continue
        if op in ("psbt-sign", "psbt-cross-sign"):
            if not prounds or (len(prounds) < 2 and ch.draw(4, "p.new") == 0):
                new_psbt_round()
            pr = prounds[ch.draw(len(prounds), "p.round")]
            i = ch.draw(len(pr.prv), "p.signer")
            try:
                if op == "psbt-sign":
                    sig = pm.partial_sign(pr.psbt, 0, _handed(ch, pr.sec[i]), pr.prv[i], pr.agg)
                else:
                    # the same secnonce handed to the free function, on the session the psbt describes
                    sig = musig2.sign(_handed(ch, pr.sec[i]), pr.prv[i], pm.session_context(pr.psbt, 0, pr.agg).context)
            except LIB_ERRORS as e:
                ctx.log(op, i, "refused", type(e).__name__)
            else:
                pr.signed[i] += 1
                ctx.log(op, i, "signed", sig[:6])
                ctx.probe("psbt-signed")
            ctx.state(f"pnonce:{min(pr.signed[i], 2)}:{op}")
            invariant()
            continue
        if op == "perturb":
            _perturb(ctx)
            continue
        r = rounds[ch.draw(len(rounds), "round")]
        i = ch.draw(len(r.prv), "signer")
        if op in ("sign", "sign-other-session"):
            sess = r.ctx_good if op == "sign" else r.ctx_other
            before = bytes(r.sec[i])
            try:
                sig = musig2.sign(_handed(ch, r.sec[i]), r.prv[i], sess)
            except LIB_ERRORS as e:
                ctx.log(op, i, "refused", type(e).__name__)
                if r.signed[i] == 0 and before[:64] != bytes(64):
                    ctx.probe("fresh-sign-refused")
            else:
                r.signed[i] += 1
                r.sigs[i].append(sig)
                ctx.log(op, i, "signed", sig[:6])
                ctx.probe("signed")
                if r.signed[i] > 1:
                    ctx.probe("second-signature")
            ctx.state(f"nonce:{min(r.signed[i], 2)}:{op}")
        elif op == "sign-bad-session":
            # a session that does not assemble: aggregate nonce that is no point
            bad_agg = b"\x02" + (gk.P - 1 - ch.draw(3, "badx")).to_bytes(32, "big") + r.ctx_good.agg_nonce[33:]
            try:
                bad = musig2.SessionContext(bad_agg, r.pks, r.ctx_good.tweaks, r.ctx_good.is_xonly, r.ctx_good.msg)
                sig = musig2.sign(r.sec[i], r.prv[i], bad)
            except LIB_ERRORS as e:
                ctx.log(op, i, "refused", type(e).__name__)
            else:
                # x happened to be on the curve: an assembling session, a real signature
                r.signed[i] += 1
                r.sigs[i].append(sig)
                ctx.log(op, i, "signed (session assembled)")
        elif op == "sign-other-key":
            j = ch.draw(len(r.prv), "otherkey")
            other = r.prv[j] if r.prv[j] != r.prv[i] else (r.prv[i] % (gk.N - 1)) + 1
            try:
                sig = musig2.sign(r.sec[i], other, r.ctx_good)
            except LIB_ERRORS as e:
                ctx.log(op, i, "refused", type(e).__name__)
            else:
                r.signed[i] += 1
                r.sigs[i].append(sig)
                ctx.log(op, i, "signed with another key")
        elif op == "det-sign":
            others = [p for k, p in enumerate(r.pubn) if k != i]
            try:
                if others:
                    agg_other = musig2.nonce_agg(others)
                    musig2.deterministic_sign(r.prv[i], agg_other, r.pks, r.ctx_good.tweaks, r.ctx_good.is_xonly, r.ctx_good.msg)
                ctx.log(op, i)
            except LIB_ERRORS as e:
                ctx.log(op, i, "refused", type(e).__name__)
        elif op == "verify":
            if r.sigs[i]:
                ok = musig2.partial_sig_verify_(r.sigs[i][0], r.pubn[i], r.pks[i], r.ctx_good)
                ctx.log(op, i, ok)
        invariant()
    # closing: every nonce that signed is asked once more, on both sessions
    for r in rounds:
        for i in range(len(r.prv)):
            if r.signed[i] >= 1:
                for sess in (r.ctx_good, r.ctx_other):
                    try:
                        sig = musig2.sign(r.sec[i], r.prv[i], sess)
                    except LIB_ERRORS:
                        ctx.log("final-sign", i, "refused")
                    else:
                        r.signed[i] += 1
                        ctx.log("final-sign", i, "signed", sig[:6])
    invariant()


# ---------------------------------------------------------------------------
# (a2) signers
# ---------------------------------------------------------------------------
def _signer_history(ctx: Ctx, rng: SimRng) -> None:
    from btclib.ecc import dsa, ssa  # noqa: PLC0415

    ch = ctx.ch
    kind = ch.pick(["dsa", "ssa", "soft"], "signer.kind")
    q = gk.scalar(ch, "prv")
    msg32 = ch.nbytes(32, "msg")
    dead = False
    entry_points: list[tuple[str, Callable[[], Any]]]

    if kind in ("dsa", "ssa"):
        import hashlib as _hl  # noqa: PLC0415

        from btclib.curves import CURVES  # noqa: PLC0415

        mod = dsa if kind == "dsa" else ssa
        # which arm an instance lives on is decided at construction: by the switch, the curve and the hash
        ec = CURVES[ch.pick(["secp256k1", "secp256k1", "secp256r1" if kind == "dsa" else "secp192k1"], "signer.ec")]
        hf = ch.pick([_hl.sha256, _hl.sha256, _hl.sha3_256], "signer.hf")
        q = q % (ec.n - 1) + 1
        s = mod.Signer(q, ec, hf)
        msg32 = msg32[: hf().digest_size]
        ctx.log("signer", kind, ec.name if hasattr(ec, "name") else "ec", hf.__name__, f"bindings={st.backend()}")
        entry_points = [
            ("sign_", lambda: s.sign_(msg32)),
            ("sign", lambda: s.sign(ch.nbytes(ch.draw(50, "mlen"), "m"))),
        ]
        if kind == "dsa":
            entry_points.append(("sign_ nogrind", lambda: s.sign_(msg32, grind=False, verify=False)))
        else:
            entry_points.append(("sign_ aux", lambda: s.sign_(msg32, ch.nbytes(hf().digest_size, "aux"), verify=False)))
        killers: list[tuple[str, Callable[[], Any]]] = [("wipe", s.wipe), ("with-exit", lambda: s.__exit__(None, None, None))]
    else:
        s, entry_points, killers = _soft_signer(ctx, q, msg32)

    n_ops = 4 + ch.draw(20, "nops")
    for _ in range(n_ops):
        op = ch.weighted([("sign", 6), ("kill", 2), ("perturb", 2)], "op")
        if op == "perturb":
            _perturb(ctx)
            continue
        if op == "kill":
            name, fn = ch.pick(killers, "killer")
            fn()
            dead = True
            ctx.fault("signer-" + name)
            ctx.state(f"{kind}:dead")
            continue
        name, fn = ch.pick(entry_points, "entry")
        try:
            out = fn()
        except LIB_ERRORS as e:
            ctx.log("sign", kind, name, "refused", type(e).__name__)
            if not dead:
                ctx.probe("open-signer-refused")
        else:
            signed = out is not None and out is not False
            ctx.log("sign", kind, name, "signed" if signed else "declined")
            ctx.state(f"{kind}:{'dead' if dead else 'open'}:{name}")
            ctx.check(P, "dead-signer-never-signs", not (dead and signed), f"{kind}.{name} signed after wipe/close", site=f"{kind}.{name}")
            if name.startswith("same-as-fresh:"):
                ctx.check(P, "answer-independent-of-history", not signed, f"{name}: a signer fresh from the same root declines this; the one with a history signed", site=name.split(":", 1)[1])
            if signed and not dead:
                ctx.probe("open-signed")


def _soft_signer(ctx: Ctx, q: int, msg32: bytes) -> tuple[Any, list[tuple[str, Callable[[], Any]]], list[tuple[str, Callable[[], Any]]]]:
    from btclib.bip32 import BIP32KeyOrigin, bip32  # noqa: PLC0415
    from btclib.psbt_signer import SoftwareSigner  # noqa: PLC0415
    from btclib.to_pub_key import pub_keyinfo_from_key  # noqa: PLC0415

    ch = ctx.ch
    root = bip32.rootxprv_from_seed(gk.seed(ch))
    s = SoftwareSigner(root)
    path = f"m/84h/0h/0h/0/{ch.draw(5, 'idx')}"
    child = bip32.derive(root, path)
    sec = pub_keyinfo_from_key(child)[0]
    origin = BIP32KeyOrigin(s.master_fingerprint, path)
    psbt = _tiny_wpkh_psbt(sec, origin)
    eps: list[tuple[str, Callable[[], Any]]] = [
        ("sign_psbt", lambda: s.sign_psbt(psbt)),
        ("sign_message", lambda: s.sign_message(b"hello", path)),
        ("sign_ecdsa", lambda: s.sign_ecdsa(sec, origin, msg32)),
        ("sign_schnorr", lambda: s.sign_schnorr(sec[1:], origin, msg32, b"")),
        ("sign_schnorr_script_path", lambda: s.sign_schnorr_script_path(sec[1:], origin, msg32, bytes(32))),
        ("psbt.sign(km)", lambda: _psbt_sign(psbt, s)),
        ("request_signatures", lambda: _request(s, psbt)),
    ]
    # questions a signer fresh from the same root declines (None): the key named is not the one the path derives to,
    # or the fingerprint is another wallet's. What was asked before must not change that
    other = pub_keyinfo_from_key(bip32.derive(root, f"m/84h/0h/0h/1/{ch.draw(5, 'idx.other')}"))[0]
    foreign_fp = BIP32KeyOrigin(bytes(b ^ 0xFF for b in s.master_fingerprint), path)
    eps += [
        ("same-as-fresh:sign_ecdsa/other-key-at-this-path", lambda: s.sign_ecdsa(other, origin, msg32)),
        ("same-as-fresh:sign_schnorr/other-key-at-this-path", lambda: s.sign_schnorr(other[1:], origin, msg32, b"")),
        ("same-as-fresh:sign_schnorr_script_path/other-key-at-this-path", lambda: s.sign_schnorr_script_path(other[1:], origin, msg32, bytes(32))),
        ("same-as-fresh:sign_ecdsa/other-fingerprint", lambda: s.sign_ecdsa(sec, foreign_fp, msg32)),
    ]
    killers: list[tuple[str, Callable[[], Any]]] = [("close", s.close)]
    return s, eps, killers


def _psbt_sign(psbt: Any, km: Any) -> Any:
    from btclib.psbt.psbt import sign  # noqa: PLC0415

    out, signed = sign(psbt, km)
    return out if signed else None


def _request(s: Any, psbt: Any) -> Any:
    from btclib.psbt_signer import request_signatures  # noqa: PLC0415

    return request_signatures(s, psbt)


def _tiny_wpkh_psbt(sec: bytes, origin: Any) -> Any:
    from btclib.hashes import hash160  # noqa: PLC0415
    from btclib.psbt.psbt import Psbt  # noqa: PLC0415
    from btclib.tx.out_point import OutPoint  # noqa: PLC0415
    from btclib.tx.tx import Tx  # noqa: PLC0415
    from btclib.tx.tx_in import TxIn  # noqa: PLC0415
    from btclib.tx.tx_out import TxOut  # noqa: PLC0415

    spk = b"\x00\x14" + hash160(sec)
    tx = Tx(2, 0, [TxIn(OutPoint(b"\x11" * 32, 0), b"", 0xFFFFFFFD)], [TxOut(9000, spk)])
    psbt = Psbt.from_tx(tx)
    psbt.inputs[0].witness_utxo = TxOut(10000, spk)
    psbt.inputs[0].hd_key_paths = {sec: origin}
    return psbt


# ---------------------------------------------------------------------------
# (a3) wallets
# ---------------------------------------------------------------------------
def _make_wallet(ctx: Ctx) -> tuple[Callable[[], Any], str]:
    from btclib.bip32 import bip32  # noqa: PLC0415
    from btclib.wallet.descriptor_wallet import DescriptorWallet  # noqa: PLC0415
    from btclib.wallet.key_wallet import BIP32KeyWallet  # noqa: PLC0415
    from btclib.wallet.script_wallet import KeyGroup, ScriptWallet  # noqa: PLC0415

    ch = ctx.ch
    kind = ch.pick(["bip32", "desc", "script"], "wallet.kind")
    root = bip32.rootxprv_from_seed(gk.seed(ch))
    if kind == "bip32":
        purpose = ch.pick([44, 49, 84, 86], "purpose")
        path = f"m/{purpose}h/0h/{ch.draw(3, 'acct')}h"
        return (lambda: BIP32KeyWallet(root, path)), f"bip32:{purpose}"
    if kind == "desc":
        fn = ch.pick(["wpkh", "pkh", "tr", "sh-wpkh", "wsh-multi"], "desc.fn")
        acct = bip32.xpub_from_xprv(bip32.derive(root, "m/84h/0h/0h"))
        acct2 = bip32.xpub_from_xprv(bip32.derive(root, "m/84h/0h/1h"))
        text = {
            "wpkh": f"wpkh({acct}/<0;1>/*)",
            "pkh": f"pkh({acct}/<0;1>/*)",
            "tr": f"tr({acct}/<0;1>/*)",
            "sh-wpkh": f"sh(wpkh({acct}/<0;1>/*))",
            "wsh-multi": f"wsh(sortedmulti(1,{acct}/<0;1>/*,{acct2}/<0;1>/*))",
        }[fn]
        return (lambda: DescriptorWallet.from_descriptor(text)), f"desc:{fn}"
    a1 = bip32.xpub_from_xprv(bip32.derive(root, "m/48h/0h/0h"))
    a2 = bip32.xpub_from_xprv(bip32.derive(root, "m/48h/0h/1h"))
    stype = ch.pick(["p2wsh", "p2sh", "p2sh-p2wsh"], "script.type")
    order = ch.pick(["none", "account", "derived"], "script.order")

    def build() -> Any:
        return ScriptWallet([KeyGroup(1 + ch_k, [a1, a2])], stype, order)

    ch_k = ch.draw(2, "script.k")
    return build, f"script:{stype}:{order}"


def _wallet_history(ctx: Ctx, rng: SimRng) -> None:
    ch = ctx.ch
    with ctx.must_succeed("C14", "wallet-builds"):
        build, label = _make_wallet(ctx)
        w = build()
        twin = build()  # used as the function (branch, index) -> address only
    branches = tuple(w.branches)
    ctx.log("wallet", label, branches)
    nxt: dict[int, int] = {}
    ledger: list[str] = []

    def snapshot() -> tuple[Any, ...]:
        return (tuple(w.addresses), len(w), tuple(sorted(nxt.items())))

    def expect_address(b: int, i: int) -> str:
        return twin.script_pub_key(b, i).address if not hasattr(twin, "_derived_xkey") else twin._address(b, i)

    def invariant(where: str) -> None:
        ctx.check(P, "ledger-equals-model", lambda: tuple(w.addresses) == tuple(ledger), lambda: f"after {where}: addresses {w.addresses} != model {ledger}")
        ctx.check(P, "ledger-len", lambda: len(w) == len(ledger), f"after {where}: len")
        ctx.check(P, "ledger-unique", lambda: len(set(w.addresses)) == len(w.addresses), f"after {where}: an address recorded twice")

    n_ops = 5 + ch.draw(35, "nops")
    for _ in range(n_ops):
        op = ch.weighted(
            [("address", 6), ("next", 8), ("spk", 2), ("position_of", 2), ("info", 2), ("contains", 1), ("bad", 3), ("assert_derives", 1), ("perturb", 2)]
            + ([("add-key", 2)] if hasattr(w, "add") and hasattr(twin, "_derived_xkey") else []),
            "op",
        )
        if op == "perturb":
            _perturb(ctx)
            continue
        b = ch.pick(branches, "branch")
        if op == "add-key":
            # a loose key taken into the wallet -- one the account itself derives at (b, i), so its address is a
            # position's address reaching the ledger by another door. It is recorded (once) and hands out no position
            i = ch.pick([0, 1, 2, 3, 5, 8, 13, 40], "index")
            key = twin._derived_xkey(b, i)
            with ctx.must_succeed(P, "add-succeeds", "add"):
                a = w.add(key if ch.draw(2, "add.form") else key.b58encode())
            if a not in ledger:
                ledger.append(a)
            ctx.probe("loose-key-is-a-position" if a == expect_address(b, i) else "loose-key-elsewhere")
            ctx.log("add-key", b, i, a[:12])
        elif op == "address":
            i = ch.pick([0, 1, 2, 3, 5, 8, 13, 40], "index")
            with ctx.must_succeed(P, "address-succeeds", "address"):
                a = w.address(b, i)
            ctx.check(P, "address-is-positional", a == expect_address(b, i), f"address({b},{i}) = {a}")
            nxt[b] = max(nxt.get(b, 0), i + 1)
            if a not in ledger:
                ledger.append(a)
            ctx.log("address", b, i, a[:12])
        elif op == "next":
            want = nxt.get(b, 0)
            with ctx.must_succeed(P, "next-succeeds", "next_address"):
                a = w.next_address(b)
            exp = expect_address(b, want)
            ctx.check(
                P, "next-is-lowest-above-all-handed-out", a == exp,
                lambda: f"next_address({b}) handed {a}, the model's index {want} is {exp}",
            )
            nxt[b] = want + 1
            if a not in ledger:
                ledger.append(a)
            with ctx.must_succeed(P, "recorded-address-is-known", "address_info"):
                info = w.address_info(a)
            ctx.check(P, "next-info-position", (info.branch, info.index) == (b, want), f"address_info says {(info.branch, info.index)}, model {(b, want)}")
            ctx.log("next", b, want, a[:12])
            ctx.state(f"next:{min(want, 6)}")
        elif op == "spk":
            before = snapshot()
            with ctx.must_succeed("C14", "script-pub-key-derives"):
                w.script_pub_key(b, ch.draw(60, "index"))
            ctx.check(P, "read-only-leaves-ledger", snapshot() == before, "script_pub_key changed the ledger")
        elif op == "position_of":
            before = snapshot()
            i = ch.pick([0, 1, 2, 3, 5, 8, 13, 40], "index")  # the indexes address() hands out, so that some are in the ledger
            bound = ch.pick([8, 0, 2, 4, 13, 45], "last_index")
            spelled = ch.pick(["spk", "script", "address"], "position_of.form")
            target = twin.script_pub_key(b, i)
            query = target if spelled == "spk" else target.script if spelled == "script" else target.address
            with ctx.must_succeed("C14", "position-of-answers"):
                got = w.position_of(query, bound)
                fresh = twin.position_of(query, bound)
                if ch.draw(2, "alien"):
                    w.position_of(b"\x00\x14" + bytes(20), 3)
            # what the wallet handed out before is no input of this question: a wallet of the same source
            # that never handed anything out (the twin) answers the same
            ctx.check(P, "position-of-independent-of-ledger", got == fresh, lambda: f"position_of({b}/{i} as {spelled}, last_index={bound}) = {got}, a fresh wallet of the same source says {fresh}; handed out so far: {sorted(nxt.items())}", site="position_of")
            ctx.check(P, "read-only-leaves-ledger", snapshot() == before, "position_of changed the ledger")
        elif op == "info":
            before = snapshot()
            if ledger and ch.draw(3, "known"):
                a = ch.pick(ledger, "which")
                with ctx.must_succeed(P, "recorded-address-is-known", "address_info"):
                    info = w.address_info(a)
                ctx.check(P, "info-is-recorded-address", info.address == a, "address_info returned another address")
            else:
                far = expect_address(b, 50 + ch.draw(5, "far"))
                try:
                    w.address_info(far)
                    hit = True
                except LIB_ERRORS:
                    hit = False
                # (a long enough run of next_address does reach index 50: the model, not the index, says what is unknown)
                ctx.check(P, "unknown-address-not-in-ledger", hit == (far in ledger), lambda: f"address_info {'answered' if hit else 'refused'} for an address the model says was {'handed out' if far in ledger else 'never handed out'}")
            ctx.check(P, "read-only-leaves-ledger", snapshot() == before, "address_info changed the ledger")
        elif op == "contains":
            a = expect_address(b, ch.draw(10, "index"))
            ctx.check(P, "contains-equals-model", (a in w) == (a in ledger), f"{a} in wallet != model")
        elif op == "bad":
            before = snapshot()
            bad_b = ch.pick([-1, 2, 7, 2**31], "badbranch") if ch.draw(2, "bad.which") else b
            bad_i = ch.pick([-1, -5, 2**31, 2**32], "badindex") if bad_b == b else 0
            call = ch.pick(["address", "next", "spk"], "bad.call")
            try:
                if call == "address":
                    w.address(bad_b, bad_i)
                elif call == "next" and bad_b != b:
                    w.next_address(bad_b)
                else:
                    w.script_pub_key(bad_b, bad_i)
                refused = False
            except LIB_ERRORS:
                refused = True
            except (OverflowError, ValueError, TypeError):
                refused = True  # C19's subject, not judged here
            if refused:
                ctx.fault("refused-call", call, bad_b, bad_i)
                ctx.check(P, "refused-call-changes-nothing", snapshot() == before and tuple(w.addresses) == tuple(ledger), f"{call}({bad_b},{bad_i}) refused but changed the ledger")
            else:
                # an index the wallet accepts after all (e.g. a large one): fold into the model
                if call == "address":
                    nxt[bad_b] = max(nxt.get(bad_b, 0), bad_i + 1)
                    a = w.addresses[-1]
                    if a not in ledger:
                        ledger.append(a)
        elif op == "assert_derives":
            before = snapshot()
            span = [expect_address(b, k) for k in range(2, 4)]
            try:
                w.assert_derives(span, b, 2)
            except LIB_ERRORS:
                pass
            ctx.check(P, "read-only-leaves-ledger", snapshot() == before, "assert_derives changed the ledger")
        invariant(op)
    # the high-water mark once more, on every branch
    for b in branches:
        want = nxt.get(b, 0)
        with ctx.must_succeed(P, "next-succeeds", "next_address"):
            a = w.next_address(b)
        ctx.check(P, "next-is-lowest-above-all-handed-out", a == expect_address(b, want), f"final next_address({b}) != index {want}")
        if a not in ledger:
            ledger.append(a)
    invariant("end")


# ---------------------------------------------------------------------------
# (b) history independence, (c) schedules -- a catalogue of pure calls
# ---------------------------------------------------------------------------
def _canon(x: Any) -> str:
    if isinstance(x, (bytes, bytearray)):
        return bytes(x).hex()
    if isinstance(x, (tuple, list)):
        return "(" + ",".join(_canon(y) for y in x) + ")"
    if hasattr(x, "serialize") and callable(x.serialize):
        try:
            return _canon(x.serialize())
        except TypeError:
            return repr(x)
    return repr(x)


class Mismatch(Exception):
    """A pure call disagrees with the same call on an equal, long-lived object."""


def _guard(fn: Callable[[], Any]) -> Callable[[], str]:
    def g() -> str:
        try:
            return "ok:" + hashlib.sha256(_canon(fn()).encode()).hexdigest()[:20]
        except Mismatch as e:
            return f"bad:{e}"
        except LIB_ERRORS as e:
            return "refused:" + type(e).__name__

    return g


class Shared:
    """Objects several callers share in one run."""

    def __init__(self, ctx: Ctx) -> None:
        from btclib.bip32 import bip32  # noqa: PLC0415
        from btclib.curves import CURVES, PreparedPoint, mult, secp256k1  # noqa: PLC0415
        from btclib.ecc import musig2  # noqa: PLC0415

        ch = ctx.ch
        self.q = gk.scalar(ch, "sh.q")
        self.Q = mult(self.q)
        self.prep = PreparedPoint(self.Q)
        self.root = bip32.rootxprv_from_seed(gk.seed(ch, "sh.seed"))
        self.acct_xpub = bip32.xpub_from_xprv(bip32.derive(self.root, "m/84h/0h/0h"))
        self.other_ec = CURVES[ch.pick(["secp256r1", "secp192k1", "bpp256r1", "secp160r1"], "sh.ec")]
        self.ec = secp256k1
        # a MuSig2 session shared by all callers
        prv = [gk.scalar(ch, "sh.m") for _ in range(2)]
        pks = [musig2.individual_pub_key(p) for p in prv]
        msg = ch.nbytes(32, "sh.msg")
        nonces = [musig2.nonce_gen_(ch.nbytes(32, "sh.rand"), p, pk, None, msg) for p, pk in zip(prv, pks)]
        self.m_pks = pks
        self.m_pubn = [n[1] for n in nonces]
        agg = musig2.nonce_agg(self.m_pubn)
        self.m_args = (agg, pks, [], [], msg)
        self.m_session = musig2.SessionContext(*self.m_args)
        tmp = musig2.SessionContext(*self.m_args)
        self.m_psigs = [musig2.sign(n[0], p, tmp) for n, p in zip(nonces, prv)]
        self.entropy = ch.nbytes(16, "sh.ent")
        self.msg = msg

    def fresh_session(self) -> None:
        from btclib.ecc import musig2  # noqa: PLC0415

        self.m_session = musig2.SessionContext(*self.m_args)


FOCUS = {
    "wordlists": ("wordlist", "wordlist", "wordlist", "mnemonic"),
    "tables": ("ellswift", "fresh-curve", "mult-Q", "prep-mult", "double-mult", "multi-mult", "mult-other-ec", "mult-G", "derive-pub", "second-gen", "b58decode", "electrum-old"),
    "musig": ("musig-values", "musig-verify", "musig-verify", "musig-adaptor"),
    "signers": ("dsa-signer", "ssa-signer", "dsa-signer", "ssa-signer", "dsa", "ssa"),
    # hand-rolled per-curve memos (module dicts) and nothing else: with the bound of such a memo lowered to one
    # entry every call on another curve is a miss, so check-then-act windows on the dict are a step wide per call
    "memos": ("ellswift-small", "ellswift-small", "ellswift-small", "second-gen-other"),
}


def catalogue(ctx: Ctx, sh: Shared, wl: Any, k: int, only: tuple[str, ...] | None = None) -> list[tuple[str, Callable[[], str]]]:
    """k pure calls drawn from the catalogue, each a closure -> canonical str."""
    from btclib import b32, b58  # noqa: PLC0415
    from btclib.bip32 import BIP32KeyData, bip32  # noqa: PLC0415
    from btclib.curves import double_mult_var, mult, multi_mult_var  # noqa: PLC0415
    from btclib.ecc import dsa, musig2, pedersen, ssa  # noqa: PLC0415
    from btclib.hashes import hash256, merkle_root_and_mutated_from_hashes  # noqa: PLC0415
    from btclib.mnemonic import bip39, electrum  # noqa: PLC0415
    from btclib.mnemonic import mnemonic as mn  # noqa: PLC0415

    ch = ctx.ch
    out: list[tuple[str, Callable[[], str]]] = []
    kinds = [
        "mult-G", "mult-Q", "prep-mult", "double-mult", "multi-mult", "mult-other-ec",
        "derive-prv", "derive-pub", "b58decode", "wordlist", "mnemonic", "second-gen",
        "electrum-old", "address", "dsa", "ssa", "musig-values", "musig-verify", "musig-adaptor", "merkle", "dsa-signer", "ssa-signer",
        "fresh-curve", "fresh-curve", "fresh-curve-dsa", "curve-id-reuse", "ellswift",
    ]
    if only is not None:
        kinds = list(only)
    for _ in range(k):
        kind = ch.pick(kinds, "call.kind")
        s = 1 + ch.draw(gk.N - 1, "call.scalar")
        if kind == "mult-G":
            fn = lambda s=s: mult(s)  # noqa: E731
        elif kind == "mult-Q":
            fn = lambda s=s: mult(s, sh.Q)  # noqa: E731
        elif kind == "prep-mult":
            fn = lambda s=s: sh.prep.mult(s)  # noqa: E731
        elif kind == "double-mult":
            t = 1 + ch.draw(gk.N - 1, "call.t")
            fn = lambda s=s, t=t: double_mult_var(s, sh.ec.G, t, sh.Q)  # noqa: E731
        elif kind == "multi-mult":
            n = 2 + ch.draw(4, "call.n")
            sc = [1 + ch.draw(gk.N - 1, "call.si") for _ in range(n)]
            pts = ([sh.Q, sh.ec.G] * 3)[:n]
            fn = lambda sc=sc, pts=pts: multi_mult_var(sc, pts)  # noqa: E731
        elif kind == "mult-other-ec":
            ec = sh.other_ec
            s2 = s % ec.n or 1
            fn = lambda s2=s2, ec=ec: mult(s2, ec.G, ec)  # noqa: E731
        elif kind == "ellswift":
            # the per-curve constants of the ElligatorSwift map are memoized in a module dict
            name = ch.pick(["secp256k1", "secp192k1", "secp224k1", "secp160k1"], "ell.ec")
            raw = ch.nbytes(2 * ((_curve(name).p.bit_length() + 7) // 8), "ell.octets")
            k2 = 1 + ch.draw(2**64, "ell.k")
            fn = lambda name=name, raw=raw, k2=k2: _ellswift(name, raw, k2)  # noqa: E731
        elif kind == "ellswift-small":
            # Python arm only (no bindings for these curves), short fields: many entries into the memo per run
            name = ch.pick(["secp192k1", "secp224k1", "secp160k1"], "ells.ec")
            raw = ch.nbytes(2 * ((_curve(name).p.bit_length() + 7) // 8), "ells.octets")
            k2 = 1 + ch.draw(2**64, "ells.k")
            fn = lambda name=name, raw=raw, k2=k2: _ellswift(name, raw, k2)  # noqa: E731
        elif kind == "second-gen-other":
            name = ch.pick(["secp192k1", "secp224k1", "secp160k1", "secp112r1", "secp128r1"], "sg.ec")
            fn = lambda name=name: pedersen.second_generator(_curve(name))  # noqa: E731
        elif kind == "curve-id-reuse":
            na = ch.pick(["secp256k1", "secp128r1", "secp256k1"], "reuse.a")
            nb = ch.pick(["secp112r1", "secp160k1", "secp256k1", "secp128r1"], "reuse.b")
            s3 = 1 + ch.draw(2**100, "reuse.scalar")
            fn = lambda na=na, nb=nb, s3=s3: _curve_id_reuse(ctx, na, nb, s3)  # noqa: E731
        elif kind in ("fresh-curve", "fresh-curve-dsa"):
            # a short-lived Curve object equal to a catalogued one: its answers must not depend on
            # which objects lived (and died) before it, nor on which arm serves an *equal* curve
            name = ch.pick(["secp256k1", "secp112r1", "secp128r1", "secp256k1", "secp160k1"], "fresh.ec")
            s3 = 1 + ch.draw(2**100, "fresh.scalar")
            if kind == "fresh-curve":
                fn = lambda name=name, s3=s3: _fresh_curve_mult(name, s3)  # noqa: E731
            else:
                m = ch.nbytes(32, "fresh.m")
                fn = lambda name=name, s3=s3, m=m: _fresh_curve_dsa(name, s3, m)  # noqa: E731
        elif kind == "derive-prv":
            path = f"m/{ch.draw(3, 'p0')}h/{ch.draw(3, 'p1')}/{ch.draw(3, 'p2')}"
            fn = lambda path=path: bip32.derive(sh.root, path)  # noqa: E731
        elif kind == "derive-pub":
            path = f"m/{ch.draw(2, 'p0')}/{ch.draw(4, 'p1')}"
            fn = lambda path=path: bip32.derive(sh.acct_xpub, path)  # noqa: E731
        elif kind == "b58decode":
            fn = lambda: BIP32KeyData.b58decode(sh.acct_xpub).key  # noqa: E731
        elif kind == "wordlist":
            lang = ch.pick(["en", "it", "es"], "lang")
            idx = [ch.draw(2048, "widx") for _ in range(3)]
            fn = lambda lang=lang, idx=idx: (  # noqa: E731
                wl.language_length(lang),  # asked first: the base every conversion rests on, and the last thing a load publishes
                mn.mnemonic_from_indexes(idx, lang, wl),
                mn.indexes_from_mnemonic(mn.mnemonic_from_indexes(idx, lang, wl), lang, wl),
            )
        elif kind == "mnemonic":
            lang = ch.pick(["en", "fr", "ja"], "lang")
            fn = lambda lang=lang: bip39.entropy_from_mnemonic(bip39.mnemonic_from_entropy(sh.entropy, lang), lang)  # noqa: E731
        elif kind == "second-gen":
            fn = lambda: pedersen.second_generator(sh.ec)  # noqa: E731
        elif kind == "electrum-old":
            fn = lambda: electrum.old_mnemonic_from_hex_seed(sh.entropy.hex())  # noqa: E731
        elif kind == "address":
            fn = lambda: (b58.p2pkh(gk.compressed(sh.q)), b32.p2wpkh(gk.compressed(sh.q)))  # noqa: E731
        elif kind == "dsa":
            m = ch.nbytes(32, "call.m")
            fn = lambda m=m: (dsa.sign_(m, sh.q).serialize(), dsa.verify_(m, sh.Q, dsa.sign_(m, sh.q)))  # noqa: E731
        elif kind == "ssa":
            m = ch.nbytes(32, "call.m")
            aux = ch.nbytes(32, "call.aux")
            fn = lambda m=m, aux=aux: (ssa.sign_(m, sh.q, aux).serialize(), ssa.verify_(m, gk.xonly(sh.q), ssa.sign_(m, sh.q, aux)))  # noqa: E731
        elif kind in ("dsa-signer", "ssa-signer"):
            # a signer object built, used and wiped inside the call: which arm it lives on is decided while it is built
            m = ch.nbytes(32, "call.m")
            aux = ch.nbytes(32, "call.aux")
            checked = bool(ch.draw(2, "call.verify"))

            def fn(m: bytes = m, aux: bytes = aux, checked: bool = checked, kind: str = kind) -> Any:
                if kind == "dsa-signer":
                    with dsa.Signer(sh.q) as signer:
                        sig = signer.sign_(m, verify=checked)
                    return (sig.serialize() if hasattr(sig, "serialize") else bytes(sig), dsa.verify_(m, sh.Q, sig))
                with ssa.Signer(sh.q) as signer:
                    sig = signer.sign_(m, aux, verify=checked)
                return (sig.serialize() if hasattr(sig, "serialize") else bytes(sig), ssa.verify_(m, gk.xonly(sh.q), sig))

        elif kind == "musig-values":
            fn = lambda: (lambda v: (v.Q, v.b, v.R, v.e, v.gacc, v.tacc))(musig2.session_values(sh.m_session))  # noqa: E731
        elif kind == "musig-adaptor":
            # the shared session and its adaptor twin (the same nonce, keys, tweaks and message; btclib's sixth field
            # differs), each context built anew for the call as `psbt.musig2` builds them, asked in a drawn order: the
            # nonce coefficient commits to the adaptor point, so the two sessions never have one b, whichever was met first
            T = b"\x02" + gk.xonly(s)
            first = ch.draw(2, "call.adaptor-first")

            def fn(T: bytes = T, first: int = first) -> Any:
                ctxs = [musig2.SessionContext(*sh.m_args), musig2.SessionContext(*sh.m_args, adaptor=T)]
                vals = [None, None]
                for k in (first, 1 - first):
                    vals[k] = musig2.session_values(ctxs[k])
                plain, twin = vals
                if plain.b == twin.b or (plain.R, plain.e) == (twin.R, twin.e):  # type: ignore[union-attr]
                    raise Mismatch("history: a session with an adaptor answered with the values of the session without it" if first == 0 else "history: a session without an adaptor answered with the values of its adaptor twin")
                return (twin.Q, twin.b, twin.R, twin.e, plain.b, plain.R, plain.e)  # type: ignore[union-attr]

        elif kind == "musig-verify":
            i = ch.draw(2, "call.i")
            fn = lambda i=i: musig2.partial_sig_verify_(sh.m_psigs[i], sh.m_pubn[i], sh.m_pks[i], sh.m_session)  # noqa: E731
        else:
            hs = [hashlib.sha256(bytes([j, s % 251])).digest() for j in range(1 + ch.draw(7, "call.nh"))]
            fn = lambda hs=hs: merkle_root_and_mutated_from_hashes(hs, hash256)  # noqa: E731
        out.append((kind, _guard(fn)))
    return out


# fresh curves stay alive for the life of the worker: an address is reused only where the world injects it,
# so that no run's outcome depends on which objects an earlier run of the same worker left to the allocator
_KEEP: list[Any] = []


def _clone_curve(name: str, keep: bool = True) -> Any:
    from btclib.curves import CURVES, Curve  # noqa: PLC0415

    ec = CURVES[name]
    new = Curve(ec.p, ec._a, ec._b, ec.G, ec.n, ec.cofactor, weakness_check=False, order_check=False)
    if keep and len(_KEEP) < 200000:
        _KEEP.append(new)
    return new


def _fresh_curve_mult(name: str, s: int) -> Any:
    from btclib.curves import mult  # noqa: PLC0415

    ec = _clone_curve(name)
    k = s % (ec.n - 1) + 1
    return (name, mult(k, ec.G, ec), mult(k, None, ec))


def _curve(name: str) -> Any:
    from btclib.curves import CURVES  # noqa: PLC0415

    return CURVES[name]


def _ellswift(name: str, raw: bytes, k: int) -> Any:
    from btclib.curves import mult  # noqa: PLC0415
    from btclib.ecc import ellswift  # noqa: PLC0415

    ec = _curve(name)
    Q = mult(k % (ec.n - 1) + 1, ec.G, ec)
    return (ellswift.decode_var(raw, ec), ellswift.decode_var(ellswift.encode_var(Q, ec), ec)[0] == Q[0])


def _curve_id_reuse(ctx: Ctx, name_a: str, name_b: str, s: int) -> Any:
    """Injected fault "object address reuse": a Curve equal to name_a is used and dies, then
    Curve objects equal to name_b are allocated until one lands on the dead one's address
    (CPython reuses freed blocks readily). The survivor's answers must be those of the
    long-lived catalogue object of name_b."""
    from btclib.curves import CURVES, mult  # noqa: PLC0415
    from btclib.ecc import dsa  # noqa: PLC0415

    a = _clone_curve(name_a, keep=False)
    ka = s % (a.n - 1) + 1
    ra = mult(ka, None, a)
    if ra != mult(ka, None, CURVES[name_a]):
        raise Mismatch(f"fresh {name_a} object: mult differs from the catalogue object's")
    ida = id(a)
    del a
    keep = []
    b = None
    for _ in range(64):
        b = _clone_curve(name_b, keep=False)
        if id(b) == ida:
            ctx.probes["curve-address-reused"] += 1
            break
        keep.append(b)
    assert b is not None
    kb = s % (b.n - 1) + 1
    rb = mult(kb, None, b)
    ref = CURVES[name_b]
    if rb != mult(kb, None, ref):
        raise Mismatch(f"a {name_b} object allocated after a {name_a} object died: mult differs from the catalogue object's")
    m = hashlib.sha256(s.to_bytes(16, "big")).digest()
    sig = dsa.sign_(m, kb, ec=b)
    sig_ref = dsa.sign_(m, kb, ec=ref)
    if (sig.r, sig.s) != (sig_ref.r, sig_ref.s) or not dsa.verify_(m, rb, sig_ref):
        raise Mismatch(f"a {name_b} object allocated after a {name_a} object died: dsa differs from the catalogue object's")
    return (name_a, name_b, ra, rb, sig.r, sig.s)


def _fresh_curve_dsa(name: str, s: int, m: bytes) -> Any:
    from btclib.curves import mult  # noqa: PLC0415
    from btclib.ecc import dsa  # noqa: PLC0415

    ec = _clone_curve(name)
    q = s % (ec.n - 1) + 1
    sig = dsa.sign_(m, q, ec=ec)
    return (name, sig.r, sig.s, dsa.verify_(m, mult(q, ec.G, ec), sig))


def _fresh_wordlists() -> Any:
    from btclib.mnemonic.mnemonic import WordLists  # noqa: PLC0415

    return WordLists()


def _signature_check(ctx: Ctx) -> None:
    """The catalogue relies on these names; a tree without them aborts the run."""
    try:
        from btclib.mnemonic import mnemonic as mn  # noqa: PLC0415

        mn.mnemonic_from_indexes  # noqa: B018
    except Exception as e:  # noqa: BLE001
        raise RunAborted(f"catalogue unavailable: {e}") from e


def _independence(ctx: Ctx, rng: SimRng) -> None:
    ch = ctx.ch
    _signature_check(ctx)
    sh = Shared(ctx)
    wl = _fresh_wordlists()
    calls = catalogue(ctx, sh, wl, 4 + ch.draw(10, "ncalls"))
    st.clear_all_caches()
    sh.fresh_session()
    baseline = [fn() for _, fn in calls]
    ctx.log("baseline", len(calls), sum(1 for b in baseline if b.startswith("ok")))
    for (kind, _), b in zip(calls, baseline):
        ctx.check(P, "answer-independent-of-history" if b.startswith("bad:history") else "answer-independent-of-object-identity", not b.startswith("bad:"), b, site=kind)
    shrink = ch.draw(4, "shrink")
    mgr = st.ShrunkCaches(shrink) if shrink else None
    if mgr is not None:
        mgr.__enter__()
        ctx.fault("cache-shrink", shrink)
    try:
        n_ops = 6 + ch.draw(30, "nops")
        for _ in range(n_ops):
            if ch.draw(3, "perturb?") == 0:
                _perturb(ctx)
                if ch.draw(4, "fresh-session") == 0:
                    sh.fresh_session()
                    ctx.fault("session-rebuilt")
                continue
            j = ch.draw(len(calls), "which")
            kind, fn = calls[j]
            got = fn()
            ctx.log("call", kind, got[:12])
            ctx.state(f"{kind}:{st.backend()}")
            ctx.check(P, "answer-independent-of-history" if got.startswith("bad:history") else "answer-independent-of-object-identity", not got.startswith("bad:"), got, site=kind)
            ctx.check(P, "answer-independent-of-history", got == baseline[j], lambda: f"{kind}: {got} != baseline {baseline[j]} (bindings={st.backend()})", site=kind)
    finally:
        if mgr is not None:
            mgr.__exit__(None, None, None)
    st.clear_all_caches()
    for j, (kind, fn) in enumerate(calls):
        got = fn()
        ctx.check(P, "answer-independent-of-history", got == baseline[j], lambda: f"{kind} (closing): {got} != baseline {baseline[j]}", site=kind)


# ---------------------------------------------------------------------------
# (c) schedules
# ---------------------------------------------------------------------------
def _threads(ctx: Ctx, rng: SimRng) -> None:
    from btclib.mnemonic import mnemonic as mn  # noqa: PLC0415

    from btcsim.core.threads import SimLock, SimThreads, ThreadingShim, count_steps  # noqa: PLC0415

    ch = ctx.ch
    _signature_check(ctx)
    sh = Shared(ctx)
    n_thr = 2 + ch.draw(3, "nthreads")
    focus = ch.pick(["wordlists", "tables", "musig", "mixed", "signers", "memos"], "focus")
    focus = str(ctx.cfg.get("focus") or focus)  # a plan may pin the focus; the draw is made either way
    undo_shim = st.patch_attr(mn, "threading", ThreadingShim())
    # the process-wide singletons: same cooperative lock, and cold for this run
    from btclib.mnemonic import electrum as el  # noqa: PLC0415

    fields = ("_lock", "_wordlist", "_index", "_language_length", "languages", "language_files")
    globs = [mn.WORDLISTS, el.ELECTRUM_WORDLISTS]
    saved = [{k: getattr(g, k) for k in fields} for g in globs]

    def recold() -> None:
        for g, sv in zip(globs, saved):
            cold = mn.WordLists(dict(sv["language_files"]), g.power_of_two)  # built under the shim: a SimLock
            for k in fields:
                setattr(g, k, getattr(cold, k))

    shrunk_holder: list[Any] = []

    def undo() -> None:
        for g, sv in zip(globs, saved):
            for k, v in sv.items():
                setattr(g, k, v)
        undo_shim()
        for m in shrunk_holder:
            m.__exit__(None, None, None)  # again after the inner exit is harmless: nothing is left to restore

    recold()
    try:
        # baseline: quiescent, fresh objects, this thread
        wl0 = _fresh_wordlists()
        lists = []
        for t in range(n_thr):
            calls = catalogue(ctx, sh, None, 2 + ch.draw(4, "ncalls"), FOCUS.get(focus))  # wl bound below
            lists.append(calls)
        # rebind wordlist closures to a registry we can swap: build through a holder
        holder = {"wl": wl0}
        lists = _rebind(ctx, sh, holder, lists)
        st.clear_all_caches()
        sh.fresh_session()
        def sequential() -> tuple[list[list[str]], int]:
            out: list[list[str]] = []
            total = 0
            for cl in lists:
                res, steps = count_steps(lambda cl=cl: [fn() for _, fn in cl], dedupe="op")
                if res[0] != "ok":
                    raise RunAborted(f"baseline raised {res[1]!r}")
                out.append(res[1])
                total += steps
            return out, total

        if ctx.cfg.get("_isolate"):
            # the sequential truth comes from a process of its own, so that the threads below are the first
            # callers this process sees: a table or memo a sequential first call would have built is still to build
            base, est = _in_child(ctx, sequential, ch.draw(2**32, "baseline.seed"))
        else:
            base, est = sequential()
        ctx.log("baseline", n_thr, est)
        # the shared state the threads will race on is cold again
        recold()
        st.clear_all_caches(memos=bool(ctx.cfg.get("_isolate")))  # nothing runs yet: hand-rolled memos go back to empty as well
        sh.fresh_session()
        holder["wl"] = _fresh_wordlists()
        from btclib.curves import PreparedPoint  # noqa: PLC0415

        sh.prep = PreparedPoint(sh.Q)
        disk_fault = ch.draw(5, "diskfault") == 0
        state = {"n": 0}
        if disk_fault:
            real_read = holder["wl"]._read_wordlist

            def flaky(filename: str) -> Any:
                state["n"] += 1
                if state["n"] == 1:
                    ctx.fault("disk-eio-wordlist")
                    raise OSError(5, "simulated EIO")
                return real_read(filename)

            holder["wl"]._read_wordlist = flaky
        shrink = ch.pick([0, 0, 1, 2, 3], "threads.shrink")
        if focus == "memos":
            shrink = 1 + shrink % 2  # the eviction path is the point of this focus
        shrunk = st.ShrunkCaches(shrink) if shrink else None
        if shrunk is not None:
            shrunk_holder.append(shrunk)
            shrunk.__enter__()  # tiny caches and memo bounds while the threads run: eviction paths under interleaving
            ctx.fault("cache-shrink-concurrent", shrink)
        weights = {"signers": [("pct", 2), ("unif", 6), ("stagger", 1), ("rdv", 2)], "memos": [("pct", 1), ("unif", 1), ("rdv", 8)], "wordlists": [("pct", 2), ("unif", 6), ("stagger", 1), ("rdv", 1)]}
        strat_kind = ch.weighted(weights.get(focus, [("pct", 5), ("unif", 3), ("stagger", 2), ("rdv", 2)]), "strategy")
        strategy: dict[str, Any] = {"kind": strat_kind}
        if strat_kind == "pct":
            strategy["d"] = 1 + ch.draw(3, "pct.d")
        else:
            strategy["p"] = ch.pick([(1, 50), (1, 10), (3, 10)], "p")
        dedupe = ch.weighted([("op", 6), ("frame", 3)] + ([("none", 2)] if ctx.cfg.get("every_line") else []), "dedupe")
        if strat_kind == "rdv" and dedupe == "op":
            dedupe = "frame"  # every entry into a hot function is a place to park, not only an operation's first
        sched = SimThreads(
            ctx, strategy, dedupe=dedupe,
            max_steps=int(ctx.cfg.get("max_steps", 400000)),
            hot=st.hot_codes(),
        )
        SimLock.sched = sched
        results: list[list[Any]] = [[] for _ in range(n_thr)]

        def worker(t: int) -> Callable[[], None]:
            def body() -> None:
                for kind, fn in lists[t]:
                    sched.new_op()
                    try:
                        results[t].append(fn())
                    except OSError as e:
                        results[t].append(f"oserror:{e.errno}")
                    except Exception as e:  # noqa: BLE001
                        results[t].append(f"EXC:{type(e).__name__}:{e}")

            return body

        for t in range(n_thr):
            sched.spawn(f"T{t}", worker(t))
        chaos = ch.draw(2, "chaos") or focus == "signers"
        if chaos:
            n_chaos = 1 + ch.draw(5, "nchaos")
            acts = [ch.draw(3, "chaos.act") for _ in range(n_chaos)]
            if focus == "signers":
                acts = [0] * (8 + 8 * n_chaos)  # the switch keeps moving while signers are being built

            def chaos_body() -> None:
                for a in acts:
                    sched.yield_point("chaos")
                    if a == 0 and st.bindings_installed():
                        st.set_backend(not st.backend())
                        ctx.fault("backend-flip-concurrent")
                    elif a == 1:
                        st.clear_all_caches()
                        ctx.fault("cache-clear-concurrent")
                    else:
                        sh.fresh_session() if False else None  # noqa: B018

            sched.spawn("chaos", chaos_body)
        try:
            sched.run(est_steps=max(est, 10))
        finally:
            SimLock.sched = None
            if shrunk is not None:
                shrunk.__exit__(None, None, None)
        ctx.log("threads-done", f"steps={sched.steps}", f"switches={ctx.switches}", strat_kind)
        ctx.trace.extend(sched.switch_trace)
        ctx.sample["switch_trace"] = sched.switch_trace[:30]
        if sched.capped:
            raise RunAborted("step cap")
        ctx.check(P, "no-deadlock", not sched.deadlock, "all simulated threads blocked")
        for t in range(n_thr):
            got = results[t]
            ctx.check(P, "thread-completes", len(got) == len(base[t]), f"T{t} made {len(got)} of {len(base[t])} calls")
            for j, (g, b) in enumerate(zip(got, base[t])):
                kind = lists[t][j][0]
                if g.startswith("oserror:") and disk_fault:
                    continue  # the injected fault itself, propagated: a legal refusal
                ctx.check(
                    P, "concurrent-answer-equals-sequential", g == b,
                    lambda: f"T{t} call {j} {kind}: {g} != sequential {b}; switches={sched.switch_trace[-6:]}", site=kind,
                )
        if disk_fault and state["n"] >= 1:
            # a failed load leaves the registry usable
            for lang in ("en", "it", "es"):
                with ctx.must_succeed(P, "registry-usable-after-failed-load", lang):
                    words = holder["wl"].wordlist(lang)
                ctx.check(P, "registry-usable-after-failed-load", len(words) == 2048, f"{lang}: {len(words)} words after a failed load", site=lang)
    finally:
        undo()


def _in_child(ctx: Ctx, fn: Callable[[], Any], seed: int) -> Any:
    """fn() computed by a forked child; what the child did to its copy of the process dies with it.
    The child's draws (the RNG seam under the library) come from a sequence of its own, seeded by one
    recorded draw of the parent: they are not part of the run's choice sequence, and a replay or a
    shrunk candidate must not spend the recorded values on them."""
    import os  # noqa: PLC0415
    import pickle  # noqa: PLC0415

    from btcsim.core.choices import Choices  # noqa: PLC0415

    rfd, wfd = os.pipe()
    pid = os.fork()
    if pid == 0:
        code = 1
        try:
            os.close(rfd)
            ctx.ch = Choices(seed=seed)
            try:
                payload: Any = ("ok", fn())
            except RunAborted as e:
                payload = ("aborted", str(e))
            except BaseException as e:  # noqa: BLE001
                import traceback  # noqa: PLC0415

                payload = ("aborted", "baseline process: " + "".join(traceback.format_exception(e))[-600:])
            with os.fdopen(wfd, "wb") as f:
                f.write(pickle.dumps(payload))
            code = 0
        finally:
            os._exit(code)
    os.close(wfd)
    with os.fdopen(rfd, "rb") as f:
        data = f.read()
    os.waitpid(pid, 0)
    if not data:
        raise RunAborted("the baseline process died")
    kind, value = pickle.loads(data)  # noqa: S301
    if kind != "ok":
        raise RunAborted(value)
    return value


def _rebind(ctx: Ctx, sh: Shared, holder: dict[str, Any], lists: list[list[tuple[str, Callable[[], str]]]]) -> list[list[tuple[str, Callable[[], str]]]]:
    """Wordlist calls were built with wl=None; rebuild them over the holder."""
    from btclib.mnemonic import mnemonic as mn  # noqa: PLC0415

    out = []
    for cl in lists:
        new = []
        for kind, fn in cl:
            if kind == "wordlist":
                lang = ctx.ch.pick(["en", "it", "es"], "lang2")
                idx = [ctx.ch.draw(2048, "widx2") for _ in range(3)]

                def f(lang: str = lang, idx: list[int] = idx) -> Any:
                    wl = holder["wl"]
                    n_words = wl.language_length(lang)
                    m = mn.mnemonic_from_indexes(idx, lang, wl)
                    return (n_words, m, mn.indexes_from_mnemonic(m, lang, wl))

                new.append((kind, _guard(f)))
            else:
                new.append((kind, fn))
        out.append(new)
    return out


# ---------------------------------------------------------------------------
# check definition
# ---------------------------------------------------------------------------
def _plans(tier: str) -> list[Any]:
    from btcsim.core.runner import Plan  # noqa: PLC0415

    return [
        Plan("state", {"part": "nonce"}, share=1.0, chunk=40, label="state/nonce"),
        Plan("state", {"part": "signer"}, share=1.0, chunk=40, label="state/signer"),
        Plan("state", {"part": "wallet"}, share=1.5, chunk=20, label="state/wallet"),
        Plan("state", {"part": "indep"}, share=2.0, chunk=10, label="state/indep"),
        Plan("state", {"part": "threads", "every_line": tier == "thorough"}, share=2.5, chunk=10, label="state/threads"),
        # the lazily loaded word lists alone: runs of this focus cost a fortieth of the others (no curve arithmetic), so a
        # small share buys thousands of schedules over the one lock-and-publish sequence the library documents a race on
        Plan("state", {"part": "threads", "every_line": tier == "thorough", "focus": "wordlists"}, share=2.0, chunk=40, label="state/threads-wordlists"),
        # the same, each run in a forked child of a process that never ran anything: cold module state by construction
        Plan("state", {"part": "threads", "every_line": tier == "thorough", "_isolate": True}, share=2.5, chunk=10, label="state/threads-cold-process"),
    ]


CHECKS = {
    "C20": {
        "level": "exploration",
        "plans": _plans,
        "rule": (
            "one evaluation = one seeded run: a generated history of calls on a nonce / signer / wallet object "
            "checked against a reference state machine after every step, or a list of pure calls re-evaluated "
            "under cache clears/shrinks and backend flips, or 2-4 simulated threads under a seeded (PCT / uniform / "
            "staggered) interleaving. distinct = distinct hash of the (actor, event, fault) sequence incl. the thread "
            "switch trace; non-trivial = at least one fault/perturbation fired or >= 2 context switches."
        ),
        "assumptions": [
            "pre-emption only at first-visit line (thorough: every line event) boundaries of btclib frames; C calls are atomic (GIL); bytecode-level events are not used (CPython 3.12.1 crashes with f_trace_opcodes in generator expressions)",
            "races between two threads on one secnonce bytearray or one wallet object are not asserted (not stated by the property)",
        ],
    },
}
