"""W5d `units` -- amount and fee-rate conversions under the caller's ambient
decimal context (C18, last clause).

`decimal`'s context is thread-local ambient state an application sets for
its own reasons (a display precision of 6, a financial one of 50); the
property says the satoshi/BTC and fee-rate conversions are exact and refuse
values outside the money range -- whatever that context is. The simulator
owns it as a configuration seam: each run draws a precision (1..50) and a
rounding mode, installs them as the ambient context, and asks.

Oracle: exact integer / `fractions.Fraction` arithmetic, independent of
`decimal`.

Invariants (C18)
- sats-btc-round-trip: sats_from_btc(btc_from_sats(s)) == s and
  btc_from_sats(s) == s / 10^8 exactly, for s over the money range and its
  boundaries;
- out-of-range-refused: amounts below 0 / above 21e14, or with more than
  8 decimals, are refused with a library exception (never answered, never
  another exception type);
- fee-rate-conversion-exact: FeeRate.from_sats_per_vbyte(q).sats_per_kvbyte
  == 1000 q exactly when that is an integer, refused otherwise;
  FeeRate.sats_per_vbyte gives q back digit for digit;
- fee-is-ceil: fee_from_vsize(v, r) == ceil(r * v / 1000).
"""

from __future__ import annotations

import decimal
from decimal import Decimal
from fractions import Fraction

from btclib import amount, fee
from btclib.exceptions import BTClibException

from btcsim.core.ctx import Ctx
from btcsim.core.runner import Plan

P18 = "C18"
MAX_SATS = 21_000_000 * 100_000_000
ROUNDINGS = [decimal.ROUND_HALF_EVEN, decimal.ROUND_DOWN, decimal.ROUND_UP, decimal.ROUND_FLOOR, decimal.ROUND_CEILING, decimal.ROUND_HALF_UP]


def _sats(ch: object, label: str) -> int:
    k = ch.draw(8, label + ".kind")  # type: ignore[attr-defined]
    if k == 0:
        return ch.pick([0, 1, 99_999_999, 100_000_000, 100_000_001, MAX_SATS, MAX_SATS - 1, 123_456_789], label + ".edge")  # type: ignore[attr-defined]
    if k == 1:
        return MAX_SATS - ch.draw(10**9, label + ".top")  # type: ignore[attr-defined]
    return ch.draw(10 ** (1 + ch.draw(16, label + ".digits")), label)  # type: ignore[attr-defined]


def _btc_text(sats: int) -> str:
    whole, frac = divmod(sats, 100_000_000)
    return f"{whole}.{frac:08d}"


def run(ctx: Ctx) -> None:
    ch = ctx.ch
    prec = ch.pick([28, 6, 1, 3, 9, 15, 16, 17, 50], "ctx.prec")
    rounding = ROUNDINGS[ch.draw(len(ROUNDINGS), "ctx.rounding")]
    ctx.log("ambient-decimal-context", prec, rounding)
    if prec != 28 or rounding != decimal.ROUND_HALF_EVEN:
        ctx.fault("decimal-context", f"prec={prec}")
    ctx.state(f"prec{prec}")
    with decimal.localcontext() as ambient:
        ambient.prec = prec
        ambient.rounding = rounding
        for _ in range(3 + ch.draw(8, "n")):
            what = ch.pick(["round-trip", "out-of-range", "fee-rate", "fee"], "what")
            if what == "round-trip":
                s = min(_sats(ch, "sats"), MAX_SATS)
                with ctx.must_succeed(P18, "sats-btc-round-trip", "btc_from_sats"):
                    btc = amount.btc_from_sats(s)
                    back = amount.sats_from_btc(btc)
                    from_text = amount.sats_from_btc(ch.pick([_btc_text(s), Decimal(_btc_text(s))], "btc.form"))
                exact = Fraction(btc.as_integer_ratio()[0], btc.as_integer_ratio()[1]) == Fraction(s, 100_000_000)
                ctx.check(P18, "sats-btc-round-trip", exact and back == s and from_text == s, lambda: f"prec={prec}: {s} sat -> {btc} BTC -> {back} sat; text -> {from_text}", site="amount")
            elif what == "out-of-range":
                bad = ch.pick(["-0.00000001", "21000000.00000001", "0.000000001", "1e-9", "21000001", "NaN", "Infinity", "-1", "1.234567891"], "bad.btc")
                try:
                    got: object = amount.sats_from_btc(bad)
                    verdict = f"answered {got}"
                except BTClibException:
                    verdict = "refused"
                except Exception as e:  # noqa: BLE001
                    verdict = f"{type(e).__name__}"
                ctx.check(P18, "out-of-range-refused", verdict == "refused", lambda: f"prec={prec}: sats_from_btc({bad!r}) {verdict}", site="sats_from_btc")
                bad_sats = ch.pick([-1, MAX_SATS + 1, 2**63, -(2**63)], "bad.sats")
                try:
                    got = amount.btc_from_sats(bad_sats)
                    verdict = f"answered {got}"
                except BTClibException:
                    verdict = "refused"
                except Exception as e:  # noqa: BLE001
                    verdict = f"{type(e).__name__}"
                ctx.check(P18, "out-of-range-refused", verdict == "refused", lambda: f"prec={prec}: btc_from_sats({bad_sats}) {verdict}", site="btc_from_sats")
            elif what == "fee-rate":
                kvb = ch.draw(10 ** (1 + ch.draw(12, "rate.digits")), "rate")
                extra = ch.pick(["", "", "5", "0001", "0" * 30 + "1"], "rate.extra")  # finer than a millisatoshi per vB: no exact sat/kvB
                whole, milli = divmod(kvb, 1000)
                text = f"{whole}.{milli:03d}{extra}"
                quote = ch.pick([text, Decimal(text)], "rate.form")
                want_exact = not extra.strip("0")
                try:
                    rate: object = fee.FeeRate.from_sats_per_vbyte(quote)
                    verdict = "answered"
                except BTClibException:
                    rate, verdict = None, "refused"
                except Exception as e:  # noqa: BLE001
                    rate, verdict = None, type(e).__name__
                if want_exact:
                    ok = verdict == "answered" and rate.sats_per_kvbyte == kvb  # type: ignore[union-attr]
                    ctx.check(P18, "fee-rate-conversion-exact", ok, lambda: f"prec={prec}: from_sats_per_vbyte({text}) {verdict} {rate}, exact is {kvb} sat/kvB", site="from_sats_per_vbyte")
                    if ok and kvb:
                        with ctx.must_succeed(P18, "fee-rate-conversion-exact", "sats_per_vbyte"):
                            back_q = rate.sats_per_vbyte  # type: ignore[union-attr]
                        num, den = back_q.as_integer_ratio()
                        ctx.check(P18, "fee-rate-conversion-exact", Fraction(num, den) == Fraction(kvb, 1000), lambda: f"prec={prec}: FeeRate({kvb}).sats_per_vbyte == {back_q}", site="sats_per_vbyte")
                else:
                    ctx.check(P18, "fee-rate-conversion-exact", verdict == "refused", lambda: f"prec={prec}: a quote finer than a sat/kvB, {text}, was {verdict} {rate}", site="from_sats_per_vbyte")
            else:
                kvb = ch.draw(10 ** (1 + ch.draw(7, "fee.digits")), "fee.rate")
                vsize = 1 + ch.draw(10 ** (1 + ch.draw(6, "vsize.digits")), "vsize")
                with ctx.must_succeed(P18, "fee-is-ceil", "fee_from_vsize"):
                    got_fee = fee.fee_from_vsize(vsize, fee.FeeRate(sats_per_kvbyte=kvb))
                ctx.check(P18, "fee-is-ceil", got_fee == -(-kvb * vsize // 1000), lambda: f"prec={prec}: fee_from_vsize({vsize}, {kvb}/kvB) = {got_fee}", site="fee_from_vsize")
            ctx.log(what)


CHECKS = {
    "C18": {
        "level": "exploration",
        "plans": lambda tier: [Plan("units", {}, share=0.4, chunk=100, label="units/ambient-decimal-context")],
        "rule": (
            "units: one evaluation = one drawn ambient decimal context (precision 1..50, six rounding modes) under which satoshi/BTC "
            "round trips over the money range, out-of-range refusals, sat/vB <-> sat/kvB conversions and ceil fees are compared with "
            "exact integer / Fraction arithmetic; non-trivial = the context is not decimal's default."
        ),
        "assumptions": ["the ambient decimal context is the only environment these conversions can depend on"],
    },
}
