"""W4 `wire` -- peers over a byte stream, objects on a disk (C05, C19).

Part ``frame`` (``cfg['part']``). Actors: a sender, a byte stream, a
receiver. The sender builds 1-12 p2p messages -- every payload class of
btclib.p2p field by field with boundary values, and unknown commands with
opaque payloads -- frames them with ``Payload.to_message(magic).serialize()``
and the concatenation arrives in the receiver's ``io.BytesIO`` in drawn
segments (``ChunkedFeed``). The receiver is the loop ``Message.parse``'s
docstring prescribes: parse; on ``IncompleteMessageError`` wait for
``missing`` more octets and parse again from the rewound position.
Every segmentation point class (1, header-1, header, header+1, whole-1,
whole, into the next message) is also walked per message.
Faults (``cfg['faults']``): a bit flip in each header field and in the
payload, close mid-message at each boundary class, garbage between messages,
a replayed segment, and well-framed messages whose payload went through the
systematic corruption walk of ``btcsim.gen.objects.mutations``.

Part ``store``. A writer puts 1-6 objects (Tx, Block, BlockHeader, PSBT v0/v2
and its maps, BIP32KeyData, key origins, Witness, var_int / var_bytes,
dsa/ssa/bms signatures, ECIES envelopes, p2p address and inventory entries;
generated field by field or vendored) back to back in a ``SimDisk`` file; a
reader parses them from one stream, with check_validity on and off.
Faults: torn write (crash before sync), bit rot, and per object the
systematic walk -- truncation at every field boundary the writer knows and
+-1, every length prefix re-encoded non-minimally, every count / marker /
flag byte set to boundary values, trailing garbage, drawn bit flips --
read back as octets and from a stream that goes on after the object.

Part ``spend`` (C19 only): "a hostile script behind a valid commitment". 1-6
stored transactions of 1-2 inputs, each spending a p2sh, p2wsh, p2sh-p2wsh or
p2tr script-path output whose commitment ``btcsim.gen.spends`` computes around
an arbitrary inner script (random octets; a short sequence over all 256 opcode
byte values; a valid little script with one byte replaced) and an arbitrary
initial stack. The transaction is parsed back and handed to
engine.verify_input / verify_transaction under five flag sets, to
sig_hash.from_tx, to sizes and ids, and -- as the witness of a BIP322
signature for the output's address -- to bip322.verify.

Invariants (C05):
  serialize-equals-writer, envelope-equals-writer : the library writes what an independent writer writes
  parse-equals-object, position-after-object      : X.parse(x.serialize()) == x, stream on the byte after it
  delivered-exactly-once-in-order, payload-round-trip
  missing-exact, rewound-on-incomplete, position-after-message, missing-completes
  size-and-ids-equal-hashlib                      : size/weight/vsize/id/wtxid/hash computed from the octets
  json-round-trip, b64-round-trip                 : the second stored forms
  psbt-fixed-point, psbt-keeps-pairs              : against the reference map splitter, unknown pairs included
  refused-or-canonical, accepted-serializes       : accepted octets b => serialize() == b (PSBT: fixed point)
  truncated-refused                               : a torn object is not read short
Invariants (C19):
  only-library-exceptions   : parse/decode/from_dict and every consumer of an accepted object
  no-over-read              : position after parse never beyond the object
  no-livelock               : each receiver call consumes, refuses finally, or asks for missing > 0
  refused-or-canonical      : what a receiver accepts is what was on the wire
  predicate-total           : boolean verifiers answer True/False on corrupted artefacts
  no-hang                   : per-call CPU budget (ITIMER_VIRTUAL)

A site ``<Class>.<method>/<input class>`` listed in ``PENDING`` is still
exercised, but recorded as probe ``pending:<site>`` instead of checked.
"""

from __future__ import annotations

import base64
import hashlib
import io
import json
import signal
from contextlib import contextmanager
from math import ceil
from typing import Any, Callable, Iterator

from btclib import bip322
from btclib.b58 import p2pkh
from btclib.ecc import bms, dsa, ssa
from btclib.exceptions import BTClibException, IncompleteMessageError
from btclib.p2p import Message
from btclib.script import sig_hash, taproot
from btclib.script.engine import verify_input, verify_transaction
from btclib.script.engine.flags import ALL_FLAGS, NO_FLAGS, ScriptFlag
from btclib.script.script_pub_key import ScriptPubKey
from btclib.script.witness import Witness
from copy import deepcopy

from btclib.tx.tx import Tx
from btclib.tx.tx_out import TxOut

from btcsim.core.ctx import Ctx, RunAborted
from btcsim.gen import keys as gk
from btcsim.gen import objects as go
from btcsim.gen import p2pgen as pg
from btcsim.gen import spends as gs
from btcsim.ref import psbtmap
from btcsim.seams import state as st
from btcsim.seams.disk import ChunkedFeed, SimDisk
from btcsim.seams.rng import SimRng

P5, P19 = "C05", "C19"
CPU_BUDGET_S = 10.0

# Divergences of the pinned tree that are recorded rather than repaired live in /verif/known_findings.json,
# keyed by (property, site): ctx.check counts them, the runner announces them, the run goes on.
PENDING: set[str] = set()


class _Hang(BaseException):
    """The per-call CPU budget tripped."""


def _on_vtalrm(signum: int, frame: Any) -> None:
    raise _Hang


@contextmanager
def _budget(seconds: float) -> Iterator[None]:
    signal.setitimer(signal.ITIMER_VIRTUAL, seconds)
    try:
        yield
    finally:
        signal.setitimer(signal.ITIMER_VIRTUAL, 0)


class Judge:
    """Invariant plumbing shared by both parts: pending sites, guarded calls."""

    def __init__(self, ctx: Ctx) -> None:
        self.ctx = ctx
        self.budget = float(ctx.cfg.get("cpu_budget_s", CPU_BUDGET_S))

    def check(self, prop: str, inv: str, cond: bool | Callable[[], bool], detail: Any, site: str) -> None:
        if site in PENDING:
            self.ctx.probe("pending:" + site)
            return
        self.ctx.check(prop, inv, cond, detail, site)

    def call(self, site: str, fn: Callable[[], Any]) -> tuple[bool, Any]:
        """A library call on received data: (True, value) or (False, the refusal).

        A library exception is a refusal. Any other exception type is C19's
        violation (and, for the other lens, still a refusal); a tripped CPU
        budget is C19's ``no-hang``.
        """
        try:
            with _budget(self.budget):
                return True, fn()
        except BTClibException as e:
            return False, e
        except _Hang:
            self.check(P19, "no-hang", False, f"more than {self.budget} s of CPU in one call", site)
            raise RunAborted("cpu budget tripped at " + site) from None
        except Exception as e:  # noqa: BLE001
            self.check(P19, "only-library-exceptions", False, f"{type(e).__name__}: {e}", site)
            return False, e


def run(ctx: Ctx) -> None:
    part = ctx.cfg.get("part") or ctx.ch.pick(["store", "frame"], "part")
    SimRng(ctx, mode="uniform").install()
    serving = bool(ctx.ch.draw(6, "backend0")) and st.bindings_installed()
    st.set_backend(serving)
    ctx.log("start", part, f"faults={bool(ctx.cfg.get('faults'))}", f"bindings={serving}")
    old = signal.signal(signal.SIGVTALRM, _on_vtalrm)
    try:
        {"store": _store, "frame": _frame, "spend": _spend}[part](ctx, Judge(ctx))
    finally:
        signal.setitimer(signal.ITIMER_VIRTUAL, 0)
        signal.signal(signal.SIGVTALRM, old)


def _sha256d(b: bytes) -> bytes:
    return hashlib.sha256(hashlib.sha256(b).digest()).digest()


def _diff(a: bytes, b: bytes) -> str:
    at = next((i for i, (x, y) in enumerate(zip(a, b)) if x != y), min(len(a), len(b)))
    lo = max(0, at - 24)
    return f"first difference at {at}: ..{a[lo:at + 24].hex()} vs ..{b[lo:at + 24].hex()}"


def _tag(data: bytes) -> str:
    return f"{len(data)}:{hashlib.sha256(data).hexdigest()[:12]}"


# ---------------------------------------------------------------------------
# what is checked of any octets handed to a parser
# ---------------------------------------------------------------------------
def _view(ctx: Ctx, j: Judge, data: bytes, fault: str, tail: bytes | None) -> None:
    """The streamed reader of the same octets (C19): PsbtView walks the maps without parsing them, so what it
    makes of a hostile length or count is its own; only library exceptions may leave it, whichever question is asked."""
    from btclib.psbt import PsbtView  # noqa: PLC0415

    def walk() -> int:
        view = PsbtView(data if tail is None else io.BytesIO(data + tail))
        asked = 0
        for ask in (lambda: view.tx, lambda: view.lock_time, lambda: view.prevouts, lambda: view.input(0), lambda: view.output(0), lambda: view.input(1)):
            try:
                ask()
                asked += 1
            except BTClibException:
                pass
        return asked

    ok, _ = j.call(f"PsbtView/{fault}", walk)
    ctx.probe("view-built" if ok else "view-refused")


def _accept(ctx: Ctx, j: Judge, codec: go.Codec, data: bytes, cv: bool, fault: str, tail: bytes | None) -> Any:
    """Hand ``data`` to ``codec.parse`` -- as octets, or (``tail`` given) in the caller's
    stream with ``tail`` after it. Refused, or accepted and canonical; returns the object."""
    site = f"{codec.name}.parse/{fault}"
    if codec.name == "Psbt":
        _view(ctx, j, data, fault, tail)
    if tail is None:
        ok, obj = j.call(site, lambda: codec.parse(data, cv))
        consumed = data
    else:
        stream = io.BytesIO(data + tail)
        ok, obj = j.call(site, lambda: codec.parse(stream, cv))
        consumed = (data + tail)[:stream.tell()]
    ctx.state(f"{codec.name}:{fault}:{'accepted' if ok else 'refused'}:{'octets' if tail is None else 'stream'}")
    ctx.probe(("accepted:" if ok else "refused:") + fault)
    if not ok:
        return None
    ok, ser = j.call(f"{codec.name}.serialize/{fault}", lambda: codec.ser(obj, cv))
    j.check(P5, "accepted-serializes", ok, lambda: f"cv={cv}: parsed {_tag(data)} but serialize refuses: {ser}", site)
    if not ok:
        return None
    if codec.psbt:
        _psbt_fixed_point(ctx, j, codec, consumed, obj, ser, cv, fault)
    else:
        # a whole object followed by more octets is one input class, whatever fault produced it
        extended = tail is None and len(consumed) > len(ser) and consumed[:len(ser)] == ser
        for prop in (P5, P19):
            j.check(
                prop, "refused-or-canonical", ser == consumed,
                lambda: f"cv={cv}: accepted {len(consumed)} octets, serializes to {len(ser)}; {_diff(consumed, ser)}",
                f"{codec.name}.parse/trailing-octets" if extended else site,
            )
    if tail is not None and (data + tail)[:len(ser)] == ser:
        j.check(P19, "no-over-read", len(consumed) == len(ser), lambda: f"object of {len(ser)} octets, stream left at {len(consumed)}", site)
    return obj


_KNOWN_TYPES = {"Psbt": {*range(0x0A), 0xFB}, "PsbtIn": {*range(0x09), *range(0x0A, 0x19), *range(0x1A, 0x1F)}, "PsbtOut": set(range(0x0B))}
_SINGLETON_TYPES = {
    "Psbt": {0x00, 0x02, 0x03, 0x04, 0x05, 0x06, 0x09, 0xFB},
    "PsbtIn": {0x00, 0x01, 0x03, 0x04, 0x05, 0x07, 0x08, 0x0E, 0x0F, 0x10, 0x11, 0x12, 0x13, 0x17, 0x18},
    "PsbtOut": {0x00, 0x01, 0x03, 0x04, 0x05, 0x06, 0x09, 0x0A},
}
_DROPPED_ONCE_FINALIZED = {0x02, 0x03, 0x04, 0x05, 0x06, 0x0A, 0x0B, 0x0C, 0x0D, 0x13, 0x14, 0x15, 0x16, 0x17, 0x18, 0x1A, 0x1B, 0x1C}


def _loss_class(kind: str, key: bytes, value: bytes, finalized: bool, keys: list[bytes]) -> str | None:
    """Input class of a key-value pair that did not survive parse -> serialize."""
    if kind == "PsbtIn" and finalized and key[0] in _DROPPED_ONCE_FINALIZED:
        return None  # documented: what a finalizer consumed is not carried beside what it produced
    if kind == "PsbtIn" and key == b"\x03" and value == bytes(4):
        return "sighash-zero"
    if kind == "Psbt" and key == b"\xfb" and value == bytes(4):
        return "version-zero"
    if key[0] in _SINGLETON_TYPES[kind] and any(len(k) > 1 and k[0] == key[0] for k in keys):
        return f"keydata-{key[0]:02x}"  # a type that carries no key data, written with some (it may shadow the plain one)
    if not value or (kind == "PsbtIn" and key == b"\x08" and value == b"\x00"):
        return "empty-value"
    return f"type-{key[0]:02x}" if key[0] in _KNOWN_TYPES[kind] else "unknown-pair"


def _psbt_fixed_point(ctx: Ctx, j: Judge, codec: go.Codec, data: bytes, obj: Any, ser: bytes, cv: bool, fault: str) -> None:
    name = codec.name
    site = f"{name}.serialize/{fault}"
    ok, again = j.call(f"{name}.parse/reserialized", lambda: codec.ser(codec.parse(ser, cv), cv))
    j.check(P5, "psbt-fixed-point", ok and again == ser, lambda: f"serialize(parse(s)) != s for s = {ser.hex()[:200]}: {again if not ok else again.hex()[:200]}", site)
    whole = name == "Psbt"
    try:
        before = psbtmap.split(data) if whole else psbtmap.split_maps(data)
        after = psbtmap.split(ser) if whole else psbtmap.split_maps(ser)
    except psbtmap.MalformedPsbt as e:
        j.check(P5, "psbt-keeps-pairs", False, f"the reference splitter cannot read what the library accepted or wrote: {e}", site)
        return
    j.check(P5, "psbt-keeps-pairs", len(before) == len(after), f"{len(before)} maps in, {len(after)} out", site)
    n_in = len(obj.inputs) if whole else 0
    for i, (m_in, m_out) in enumerate(zip(before, after)):
        kind = name if not whole else "Psbt" if i == 0 else "PsbtIn" if i <= n_in else "PsbtOut"
        finalized = any((p.key == b"\x07" and p.value) or (p.key == b"\x08" and p.value != b"\x00") for p in m_in)
        kept = {(p.key, p.value) for p in m_out}
        for p in m_in:
            if (p.key, p.value) in kept:
                continue
            cls = _loss_class(kind, p.key, p.value, finalized, [q.key for q in m_in])
            if cls is None:
                ctx.probe("psbt-finalized-drop")
                continue
            j.check(P5, "psbt-keeps-pairs", False, f"map {i}: pair {p.key.hex()} -> {p.value.hex()[:80]} of {data.hex()[:400]} is not in {ser.hex()[:400]}", f"{kind}.serialize/{cls}")


# ---------------------------------------------------------------------------
# consumers of an accepted object (C19) and of a valid one (C05)
# ---------------------------------------------------------------------------
def _prevouts(ctx: Ctx, n: int) -> list[TxOut]:
    return [TxOut(ctx.ch.draw(go.MAX_MONEY // max(n, 1) + 1, "prevout.value"), go.script_pub_key(ctx.ch, "prevout.spk"), check_validity=False) for _ in range(n)]


def _consume(ctx: Ctx, j: Judge, codec: go.Codec, obj: Any, cv: bool, fault: str) -> None:
    """An accepted object is handed on: no consumer may leave the contract."""
    name = codec.name
    if codec.to_dict is not None:
        j.call(f"{name}.to_dict/{fault}", lambda: json.dumps(codec.to_dict(obj, cv)))
    if name in ("Tx", "Block"):
        j.call(f"{name}.size/{fault}", lambda: (obj.size, obj.weight, obj.vsize))
    if name in ("Tx", "Block", "BlockHeader"):
        j.call(f"{name}.hash/{fault}", lambda: (obj.id, obj.hash) if name == "Tx" else obj.header.hash if name == "Block" else obj.hash)
    if name == "Psbt":
        j.call(f"Psbt.unique_id/{fault}", lambda: obj.unique_id)
    if name == "Tx" and obj.vin and len(obj.vin) <= 8:
        prevouts = _prevouts(ctx, len(obj.vin))
        i = ctx.ch.draw(len(obj.vin), "consume.vin")
        hash_type = ctx.ch.pick([1, 0, 2, 3, 0x81, 0x83, 0x42], "consume.hashtype")
        j.call(f"sig_hash.from_tx/{fault}", lambda: sig_hash.from_tx(prevouts, obj, i, hash_type))
        j.call(f"engine.verify_input/{fault}", lambda: verify_input(prevouts, obj, i))


def _ids(ctx: Ctx, j: Judge, b: go.Built, obj: Any) -> None:
    """Reported size, weight, vsize, id, wtxid and hash are those of the octets."""
    name, raw, site = b.name, b.raw, f"{b.name}/{'corpus' if 'corpus' in b.tags else 'valid'}"
    if name in ("Tx", "Block"):
        if "stripped" in b.extra:
            stripped = b.extra["stripped"]
        else:  # vendored: the stripped form is the library's own, the rest is independent
            stripped = obj.serialize(include_witness=False, check_validity=False)
        weight = 3 * len(stripped) + len(raw)
        got = (obj.size, obj.weight, obj.vsize)
        j.check(P5, "size-and-ids-equal-hashlib", got == (len(raw), weight, ceil(weight / 4)), lambda: f"size/weight/vsize {got} for {len(raw)} octets, {len(stripped)} stripped", site)
        if name == "Tx":
            j.check(P5, "size-and-ids-equal-hashlib", obj.id == _sha256d(stripped)[::-1] and obj.hash == _sha256d(raw)[::-1], lambda: f"id {obj.id.hex()} wtxid {obj.hash.hex()}", site)
    header = raw[:80] if name in ("Block", "BlockHeader") else None
    if header is not None:
        h = obj.header.hash if name == "Block" else obj.hash
        j.check(P5, "size-and-ids-equal-hashlib", h == _sha256d(header)[::-1], lambda: f"header hash {h.hex()}", site)


def _json(ctx: Ctx, j: Judge, b: go.Built, obj: Any, cv: bool) -> None:
    codec = b.codec
    if codec.to_dict is None or codec.from_dict is None:
        return
    ins = obj.inputs if b.name == "Psbt" else [obj] if b.name == "PsbtIn" else []
    cls = "taproot-derivs" if any(i.taproot_hd_key_paths for i in ins) else "valid"
    import decimal  # noqa: PLC0415

    # the JSON form holds amounts in BTC: the caller's ambient decimal context is a configuration it must not depend on
    prec = ctx.ch.pick([28, 28, 28, 1, 3, 6, 8, 9, 12], "json.decimal-prec")
    if prec != 28:
        ctx.fault("decimal-context", f"prec={prec}")
    with decimal.localcontext() as ambient:
        ambient.prec = prec
        ok, text = j.call(f"{b.name}.to_dict/{cls}", lambda: json.dumps(codec.to_dict(obj, cv)))
        if not ok:
            ctx.probe("to_dict-refused:" + b.name)  # e.g. the difficulty of a header whose target is zero
            return
        site = f"{b.name}.from_dict/{cls}"
        ok, back = j.call(site, lambda: codec.from_dict(json.loads(text), cv))
    j.check(P5, "json-round-trip", lambda: ok and back == obj, lambda: f"from_dict(json(to_dict(x))) {'raised ' + repr(back) if not ok else '!= x'} for x = {b.raw.hex()[:300]}", site)
    if b.name in ("TxOut", "Tx") and ctx.ch.draw(2, "json.network?"):
        # the same output on another network: nothing on the wire says which, the JSON form does
        from btclib.script.script_pub_key import ScriptPubKey  # noqa: PLC0415

        network = ctx.ch.pick(["testnet", "regtest", "signet", "testnet4"], "json.network")
        rehome = lambda o: TxOut(o.value, ScriptPubKey(o.script_pub_key.script, network), check_validity=False)  # noqa: E731
        other = deepcopy(obj)
        if b.name == "TxOut":
            other = rehome(other)
        else:
            other.vout[:] = [rehome(o) for o in other.vout]
        ok, text2 = j.call(f"{b.name}.to_dict/other-network", lambda: json.dumps(codec.to_dict(other, cv)))
        if ok:
            ok, back = j.call(f"{b.name}.from_dict/other-network", lambda: codec.from_dict(json.loads(text2), cv))
            j.check(P5, "json-round-trip", lambda: ok and back == other, lambda: f"{network}: from_dict(json(to_dict(x))) {'raised ' + repr(back) if not ok else '!= x'} for x = {b.raw.hex()[:200]}", f"{b.name}.from_dict/other-network")
            ctx.probe("json-other-network")
    if b.name in ("BlockHeader", "Block") and ctx.ch.draw(2, "json.zone?"):
        # the same header with its time told in another zone: the same instant, the same 80 octets on the wire, and a JSON
        # form that spells the offset out
        from dataclasses import replace  # noqa: PLC0415
        from datetime import timedelta, timezone  # noqa: PLC0415

        minutes = ctx.ch.pick([840, -720, 60, -300, 330, 345, 1, -1], "json.zone")
        hdr = obj if b.name == "BlockHeader" else obj.header
        ok, moved = j.call(f"{b.name}.replace/other-zone", lambda: replace(hdr, time=hdr.time.astimezone(timezone(timedelta(minutes=minutes)))))
        if ok:
            other = moved if b.name == "BlockHeader" else type(obj)(moved, obj.transactions, check_validity=False)
            ok, text3 = j.call(f"{b.name}.to_dict/other-zone", lambda: json.dumps(codec.to_dict(other, cv)))
            if ok:
                ok, back = j.call(f"{b.name}.from_dict/other-zone", lambda: codec.from_dict(json.loads(text3), cv))
                same = lambda: ok and back == other and (back if b.name == "BlockHeader" else back.header).serialize(check_validity=False) == hdr.serialize(check_validity=False)  # noqa: E731
                j.check(P5, "json-round-trip", same, lambda: f"UTC{minutes:+d}min: from_dict(json(to_dict(x))) {'raised ' + repr(back) if not ok else 'is another header: ' + text3[:200]}", f"{b.name}.from_dict/other-zone")
                ctx.probe("json-other-zone")
    if ctx.cfg.get("faults") and cv:
        _json_walk(ctx, j, b, text, cv)


_JSON_EDGES = (None, True, -1, 1 << 64, 1.5, "", "zz", "00", [], {}, [None], {"hex": 1}, "0001-01-01T00:00:00+14:00", "9999-12-31T23:59:59-14:00", "2009-01-03T18:15:05", "1e400", "\ud800")


def _json_walk(ctx: Ctx, j: Judge, b: go.Built, text: str, cv: bool) -> None:
    """The stored JSON form with one value deleted or replaced by a boundary value of another type."""
    doc = json.loads(text)
    slots: list[tuple[Any, Any, str]] = []  # (container, key or index, name of the field it belongs to), in document order

    def visit(node: Any, field: str) -> None:
        for key in (sorted(node) if isinstance(node, dict) else range(len(node)) if isinstance(node, list) else ()):
            name = key if isinstance(node, dict) else field
            slots.append((node, key, name))
            visit(node[key], name)

    visit(doc, "")
    if not slots:
        return
    step = -(-len(slots) // 12)
    chosen = slots[ctx.ch.draw(step, "json.phase")::step]
    ctx.fault("json-edit", b.name, f"n={len(chosen)}")
    for container, key, field in chosen:
        saved = container[key]
        k = ctx.ch.draw(len(_JSON_EDGES) + 1, "json.edge")
        if k == len(_JSON_EDGES) and isinstance(container, dict):
            del container[key]
        elif k == len(_JSON_EDGES) and isinstance(container, list):
            container.insert(key, json.loads(json.dumps(saved)))  # an array entry twice (undone below by the pop)
        else:
            container[key] = _JSON_EDGES[k % len(_JSON_EDGES)]
        edited = json.loads(json.dumps(doc))
        cls = "json-network" if field == "network" and not b.codec.psbt else "json-edit"
        ok, got = j.call(f"{b.name}.from_dict/{cls}", lambda edited=edited: b.codec.from_dict(edited, cv))
        ctx.probe("json-edit-" + ("accepted" if ok else "refused"))
        if ok:
            j.call(f"{b.name}.serialize/{cls}", lambda got=got: b.codec.ser(got, cv))
        if isinstance(container, list) and k == len(_JSON_EDGES):
            container.pop(key)
        container[key] = saved


def _b64(ctx: Ctx, j: Judge, b: go.Built, obj: Any) -> None:
    """base64 as the text form of PSBTs, message signatures and envelopes."""
    if b.name not in ("Psbt", "bms.Sig", "ecies.Envelope"):
        return
    cls = type(obj)
    text = base64.b64encode(b.raw).decode()
    site = f"{b.name}.b64decode/valid"
    ok, back = j.call(site, lambda: cls.b64decode(text))
    j.check(P5, "b64-round-trip", lambda: ok and back == obj and (b.codec.psbt or obj.b64encode() == text), f"{text[:120]}", site)
    if not ctx.cfg.get("faults"):
        return
    for _ in range(4):
        k, at = ctx.ch.draw(6, "b64.kind"), ctx.ch.draw(len(text), "b64.at")
        bad = (text[:at], text[:at] + "=" + text[at:], text[:at] + "é" + text[at + 1:], text[:at] + "\x00" + text[at:], text[:at] + "\n" + text[at:], text[:at] + chr(0x21 + ctx.ch.draw(0x5E, "b64.chr")) + text[at + 1:])[k]
        ctx.fault("text-" + ("truncate", "pad", "non-ascii", "nul", "newline", "char")[k])
        j.call(f"{b.name}.b64decode/text-corrupt", lambda: cls.b64decode(bad))


_P = 2**256 - 2**32 - 977


def _predicates(ctx: Ctx, j: Judge, b: go.Built, mutants: list[tuple[str, bytes]]) -> None:
    """Boolean verifiers fed the corrupted artefact answer True or False."""
    q, msg = b.extra["q"], b.extra["msg"]
    pub = gk.compressed(q)
    bad_key = go.mutations(ctx.ch, pub, [go.Mark(0, 1, "flag"), go.Mark(1, 32, "field")], cap=6)
    # the other declared spellings of a key: integers (BIP340PubKey) and points, outside every range
    px, py = gk.pub_point(q)
    odd_ints = [-1, 0, -px, _P - 1, _P, _P + 1, 2**256 - 1, 2**256, 2**256 + px, 2**300, 2**64]
    odd_points = [(px, py ^ 1), (px, 0), (0, 0), (2**256, 1), (-1, 1), (px, 2**256 + py), (_P + px, py), (px, -py)]
    if b.name == "dsa.Sig":
        calls = [(f"dsa.verify_/{f}", lambda m=m: dsa.verify_(msg, pub, m)) for f, m in mutants]
        calls += [(f"dsa.verify_/key-{f}", lambda k=k: dsa.verify_(msg, k, b.raw)) for f, k in bad_key]
        calls += [("dsa.verify_/key-odd-point", lambda k=k: dsa.verify_(msg, k, b.raw)) for k in ctx.ch.shuffled(odd_points, "odd.points")[:3]]
        genuine = lambda: dsa.verify_(msg, pub, b.raw)  # noqa: E731
    elif b.name == "ssa.Sig":
        x = gk.xonly(q)
        calls = [(f"ssa.verify_/{f}", lambda m=m: ssa.verify_(msg, x, m)) for f, m in mutants]
        calls += [(f"ssa.verify_/key-{f}", lambda k=k: ssa.verify_(msg, k, b.raw)) for f, k in bad_key]
        calls += [(f"ssa.batch_verify_/{f}", lambda m=m: ssa.batch_verify_([msg, msg], [x, x], [b.obj, ssa.Sig.parse(m, check_validity=False)])) for f, m in mutants if len(m) == 64]
        odd = ctx.ch.shuffled(odd_ints, "odd.ints")[:3] + ctx.ch.shuffled(odd_points, "odd.points")[:2]
        calls += [("ssa.verify_/key-odd", lambda k=k: ssa.verify_(msg, k, b.raw)) for k in odd]
        calls += [("ssa.batch_verify_/key-odd", lambda k=k: ssa.batch_verify_([msg, msg], [x, k], [b.obj, b.obj])) for k in odd]
        calls += [("ssa.batch_verify_/key-odd-first", lambda k=k: ssa.batch_verify_([msg, msg, msg], [k, x, x], [b.obj, b.obj, b.obj])) for k in odd[:2]]
        genuine = lambda: ssa.verify_(msg, x, b.raw)  # noqa: E731
    else:
        addr = p2pkh(pub)
        calls = [(f"bms.verify/{f}", lambda m=m: bms.verify(msg, addr, base64.b64encode(m).decode())) for f, m in mutants]
        calls += [(f"bms.verify/addr-{f}", lambda k=k: bms.verify(msg, base64.b32encode(k).decode(), b.obj)) for f, k in bad_key[:3]]
        genuine = lambda: bms.verify(msg, addr, b.obj)  # noqa: E731
    ok, answer = j.call(f"{b.name}.verify/valid", genuine)
    ctx.probe("genuine-verifies" if ok and answer is True else "genuine-does-not-verify")
    for site, fn in calls:
        ok, answer = j.call(site, fn)
        j.check(P19, "predicate-total", lambda: ok and isinstance(answer, bool), lambda: f"answered {answer!r}", site)
        ctx.state(f"{site}:{answer if ok else 'raised'}")


# ---------------------------------------------------------------------------
# part B: the store
# ---------------------------------------------------------------------------
def _record(b: go.Built) -> bytes:
    """What the writer puts in the file: the object, length-prefixed iff its parser takes octets only."""
    return b.raw if b.codec.stream else go.compact_size(len(b.raw)) + b.raw


def _read_record(j: Judge, b: go.Built, stream: io.BytesIO, cv: bool, fault: str) -> tuple[bool, Any]:
    """The reader's step for one record; mirrors ``_record``."""
    site = f"{b.name}.parse/{fault}"
    if b.codec.stream:
        return j.call(site, lambda: b.codec.parse(stream, cv))
    ok, data = j.call("var_bytes.parse/" + fault, lambda: go.CODECS["var_bytes"].parse(stream, cv))
    return j.call(site, lambda: b.codec.parse(data, cv)) if ok else (False, data)


def _scribble_obj(ch: Any, obj: Any, depth: int, budget: list[int]) -> int:
    """Write into a parsed object in place, a drawn few places anywhere in it; returns how many writes took."""
    import dataclasses  # noqa: PLC0415

    if depth > 6 or budget[0] <= 0:
        return 0
    done = 0
    if isinstance(obj, list):
        items: list[tuple[Any, Any]] = [(i, v) for i, v in enumerate(obj)]
    elif isinstance(obj, dict):
        items = sorted(obj.items(), key=lambda kv: repr(kv[0]))
    elif dataclasses.is_dataclass(obj) and not isinstance(obj, type):
        items = [(f.name, getattr(obj, f.name, None)) for f in dataclasses.fields(obj)]
    else:
        return 0
    for key, value in items:
        if budget[0] <= 0:
            break
        if isinstance(value, (list, dict)) or (dataclasses.is_dataclass(value) and not isinstance(value, type)):
            done += _scribble_obj(ch, value, depth + 1, budget)
        if not ch.chance(1, 3, "scribble.here?"):
            continue
        budget[0] -= 1
        if isinstance(value, bool) or value is None:
            new: Any = not value if isinstance(value, bool) else None
        elif isinstance(value, int):
            new = value ^ 1
        elif isinstance(value, bytes):
            new = (bytes([value[0] ^ 1]) + value[1:]) if value else b"\x51"
        elif isinstance(value, list):
            new = value[:-1] if value else value
        elif isinstance(value, tuple):
            new = value[:-1]
        else:
            continue
        try:
            if isinstance(obj, list):
                obj[key] = new
            elif isinstance(obj, dict):
                obj[key] = new
            else:
                setattr(obj, key, new)
            done += 1
        except Exception:  # noqa: BLE001 -- frozen dataclass, validating setter: the write did not take, which is fine too
            pass
    return done


def _store(ctx: Ctx, j: Judge) -> None:
    ch = ctx.ch
    faults = bool(ctx.cfg.get("faults"))
    pool = go.Pool(ch)
    kinds = list(go.STORE_KINDS) + list(pg.PARTS)
    built: list[go.Built] = []
    for _ in range(1 + ch.draw(6, "store.n")):
        kind = ch.pick(kinds, "store.kind")
        b = pg.build_part(ch, kind) if kind in pg.PARTS else go.build(ch, pool, kind)
        if len(b.raw) <= 100_000:
            built.append(b)
            ctx.log("write:" + kind, _tag(b.raw), ",".join(b.tags), actor="writer")
    ctx.sample["objects"] = [f"{b.name}:{len(b.raw)}" for b in built]
    disk = SimDisk(ctx)
    image = b"".join(_record(b) for b in built)
    disk.write("store", image)
    disk.sync("store")

    # fault-free: one reader, one stream, every object back to back
    stream = io.BytesIO(disk.read("store"))
    objs: list[Any] = []
    for b in built:
        cv = b.valid and bool(ch.draw(2, "store.cv"))
        site = f"{b.name}/{'corpus' if 'corpus' in b.tags else 'valid'}"
        start = stream.tell()
        with ctx.must_succeed(P5, "parse-equals-object", site):
            ok, obj = _read_record(j, b, stream, cv, "valid")
            if not ok:
                raise obj
        end = start + len(_record(b))
        for prop, inv in ((P5, "position-after-object"), (P19, "no-over-read")):
            j.check(prop, inv, stream.tell() == end, lambda: f"{b.name} at {start}..{end}, stream left at {stream.tell()}", site)
        if b.obj is not None:
            j.check(P5, "parse-equals-object", obj == b.obj, lambda: f"parse({b.raw.hex()[:200]}) != the object written", site)
            if b.valid and b.name not in ("var_int", "var_bytes"):
                with ctx.must_succeed(P5, "serialize-equals-writer", site):
                    b.obj.assert_valid()
        with ctx.must_succeed(P5, "serialize-equals-writer", site):
            ser = b.codec.ser(obj, b.valid)
        if b.codec.psbt:
            _psbt_fixed_point(ctx, j, b.codec, b.raw, obj, ser, b.valid, "valid")
        else:
            j.check(P5, "serialize-equals-writer", ser == b.raw, lambda: f"serialize {ser.hex()[:200]} != written {b.raw.hex()[:200]}", site)
        _ids(ctx, j, b, obj)
        _json(ctx, j, b, obj, b.valid)
        _b64(ctx, j, b, obj)
        _consume(ctx, j, b.codec, obj, b.valid, "valid")
        objs.append(obj)
        if ch.chance(1, 3, "store.scribble?"):
            # what parse hands out is the reader's own: it writes into it (transactions inside a psbt, lists, maps, scripts),
            # and whoever reads the same octets next is owed the object those octets spell, not the one the first reader left
            ok1, obj1 = _read_record(j, b, io.BytesIO(_record(b)), cv, "valid")  # the first reader's own copy: `obj` is kept for the torn write below
            n_edits = _scribble_obj(ch, obj1, 0, [6 + ch.draw(20, "scribble.budget")]) if ok1 else 0
            ok2, obj2 = _read_record(j, b, io.BytesIO(_record(b)), cv, "valid")
            if ok2:
                with ctx.must_succeed(P5, "serialize-equals-writer", site):
                    ser2 = b.codec.ser(obj2, b.valid)
            j.check(P5, "parse-independent-of-earlier-readers", ok2 and ser2 == ser, lambda: f"{b.name} read a second time after the first reader wrote into its object ({n_edits} edits): " + (f"{ser2.hex()[:120]} != {ser.hex()[:120]}" if ok2 else f"refused: {obj2}"), f"{b.name}.parse/second-reader")
            ctx.fault("reader-writes-into-parsed-object")
        ctx.state(f"{b.name}:valid:cv={cv}")
    if not faults:
        return

    # torn write: a second file, crash before sync
    disk.write("store.new", image)
    disk.crash()
    if disk.exists("store.new"):
        torn = disk.read("store.new")
        stream, at = io.BytesIO(torn), 0
        for b, obj in zip(built, objs):
            end = at + len(_record(b))
            ok, got = _read_record(j, b, stream, False, "torn-write")
            if end <= len(torn):
                j.check(P5, "parse-equals-object", ok and got == obj, f"{b.name} whole before the tear at {len(torn)} but not read back", f"{b.name}.parse/torn-write")
            else:
                j.check(P5, "truncated-refused", not ok, lambda: f"{b.name} cut at {len(torn) - at} of {end - at} octets was read as {got!r}", f"{b.name}.parse/torn-write")
                break
            at = end

    # bit rot: every record read from the offset the writer knows
    for _ in range(1 + ch.draw(3, "store.nrot")):
        disk.rot("store")
    rotten = disk.read("store")
    at = 0
    for b in built:
        end = at + len(_record(b))
        if rotten[at:end] != image[at:end]:
            rec = rotten[at:end]
            data = rec if b.codec.stream else rec[len(rec) - len(b.raw):]
            _accept(ctx, j, b.codec, data, bool(ch.draw(2, "rot.cv")), "bit-rot", rotten[end:end + 40] if b.codec.stream else None)
        at = end

    # the systematic walk over each object
    for b, obj in zip(built, objs):
        mutants = go.mutations(ch, b.raw, b.marks, cap=max(6, min(48, 400_000 // (len(b.raw) + 1)))) + list(b.extra.get("mutants", []))
        if b.name == "Tx" and "stripped" in b.extra and not b.obj.is_segwit:
            # a legacy transaction written in the segwit form: marker, flag, one empty stack per input
            mutants.append(("superfluous-witness", b.raw[:4] + b"\x00\x01" + b.raw[4:-4] + b"\x00" * len(b.obj.vin) + b.raw[-4:]))
        if b.codec.psbt:
            mutants += _psbt_edits(ch, b, obj)
        for fault in sorted({f for f, _ in mutants}):
            n = sum(1 for f, _ in mutants if f == fault)
            ctx.fault(fault, b.name, f"n={n}")
            ctx.probe("mutants:" + fault, n)
        tail = ch.nbytes(1 + ch.draw(8, "walk.ntail"), "walk.tail")
        phase = ch.draw(2, "walk.cv")
        for k, (fault, data) in enumerate(mutants):
            cv = b.valid and (k + phase) % 2 == 0
            got = _accept(ctx, j, b.codec, data, cv, fault, None)
            if got is not None:
                _consume(ctx, j, b.codec, got, cv, fault)
            if b.codec.stream:
                _accept(ctx, j, b.codec, data, cv, fault, b"" if fault.startswith("truncate") and k % 2 else tail)
        if b.name in ("dsa.Sig", "ssa.Sig", "bms.Sig"):
            _predicates(ctx, j, b, mutants)
        if b.name == "dsa.Sig":  # the lax reading: no canonicity promised, the exception contract still holds
            for fault, data in mutants:
                j.call(f"dsa.Sig.parse-lax/{fault}", lambda data=data: dsa.Sig.parse(io.BytesIO(data + tail), strict=False))


_FALSY = {
    "Psbt": ((b"\xfb", bytes(4)),),
    "PsbtIn": ((b"\x03", bytes(4)), (b"\x04", b""), (b"\x05", b""), (b"\x07", b""), (b"\x08", b"\x00"), (b"\x13", b""), (b"\x17", b""), (b"\x18", b"")),
    "PsbtOut": ((b"\x00", b""), (b"\x01", b""), (b"\x05", b""), (b"\x06", b"")),
}
# a type that carries no key data, written with some
_KEYDATA = {
    "Psbt": ((b"\xfb\xaa", (2).to_bytes(4, "little")), (b"\x02\xaa", (2).to_bytes(4, "little"))),
    "PsbtIn": ((b"\x03\xaa", (1).to_bytes(4, "little")), (b"\x04\xaa", b"\x51"), (b"\x17\xaa", bytes(32))),
    "PsbtOut": ((b"\x06\xaa", b"\x00\xc0\x01\x51"), (b"\x00\xaa", b"\x51"), (b"\x05\xaa", bytes(32))),
}


def _psbt_edits(ch: Any, b: go.Built, obj: Any) -> list[tuple[str, bytes]]:
    """Writer-aware edits: one more pair of a known type -- whose value is that
    type's zero (falsy-pair), or whose key has data its type does not carry (keydata-pair)."""
    whole = b.name == "Psbt"
    maps = [[(p.key, p.value) for p in m] for m in psbtmap.split_maps(b.raw, len(psbtmap.MAGIC) if whole else 0)]
    out: list[tuple[str, bytes]] = []
    for fault, table in (("falsy-pair", _FALSY), ("keydata-pair", _KEYDATA)) * 2:
        i = ch.draw(len(maps), "edit.map")
        kind = b.name if not whole else "Psbt" if i == 0 else "PsbtIn" if i <= len(obj.inputs) else "PsbtOut"
        key, value = ch.pick(table[kind], "edit.pair")
        if any(k[:1] == key[:1] for k, _ in maps[i]):
            continue
        edited = [m + [(key, value)] if k == i else m for k, m in enumerate(maps)]
        out.append((fault, psbtmap.assemble(edited, magic=whole)))
    return out


# ---------------------------------------------------------------------------
# part A: framing
# ---------------------------------------------------------------------------
class Sent:
    def __init__(self, message: Message, octets: bytes, built: go.Built | None) -> None:
        self.message = message
        self.octets = octets
        self.built = built  # None: an unknown command


def _receive(ctx: Ctx, j: Judge, data: bytes, boundaries: list[int], fault: str, eager: bool) -> list[Message]:
    """The loop of ``Message.parse``'s docstring over ``data`` arriving in drawn segments."""
    stream = io.BytesIO()
    feed = ChunkedFeed(ctx, data, stream, boundaries)
    got: list[Message] = []
    site = "Message.parse/" + fault
    waits = 0  # IncompleteMessageError raised for the message now at the stream position
    want = 0
    while True:
        start = stream.tell()
        while feed.remaining() and feed.sent - start < max(want, 1):
            feed.feed(at_least=max(want, 1) - (feed.sent - start))
            if eager:
                break
        have = feed.sent - start
        if have < max(want, 1) and not feed.remaining():
            if have:
                ctx.log("closed-mid-message", f"have={have}", actor="receiver")
                ctx.probe("closed-mid-message")
            break  # the peer is done: nothing left, or less than was asked for
        buffered = stream.getvalue()
        ok, msg = j.call(site, lambda: Message.parse(stream))
        if not ok and isinstance(msg, IncompleteMessageError):
            length = int.from_bytes(buffered[start + 16:start + 20], "little")
            expected = pg.HEADER_SIZE - have if have < pg.HEADER_SIZE else pg.HEADER_SIZE + length - have
            j.check(P5, "missing-exact", msg.missing == expected, lambda: f"{have} octets of a message of {pg.HEADER_SIZE}+{length}: missing={msg.missing}, expected {expected}", site)
            j.check(P5, "rewound-on-incomplete", stream.tell() == start, lambda: f"message at {start}, stream left at {stream.tell()}", site)
            j.check(P19, "no-livelock", msg.missing > 0, f"missing={msg.missing}", site)
            waits += 1
            if not eager:
                for prop, inv in ((P5, "missing-completes"), (P19, "no-livelock")):
                    j.check(prop, inv, waits <= 2, f"asked {waits} times for one message although `missing` octets were delivered each time", site)
            ctx.probe(f"incomplete:{'header' if have < pg.HEADER_SIZE else 'payload'}{':eager' if eager else ''}")
            want = have + (1 if eager else max(msg.missing, 1))
            continue
        if not ok:
            ctx.log("refused", type(msg).__name__, actor="receiver")
            ctx.probe("refused-finally:" + fault)
            break
        end = stream.tell()
        on_wire = buffered[start:end]
        for prop, inv in ((P5, "position-after-message"), (P19, "no-over-read")):
            j.check(prop, inv, end == start + pg.HEADER_SIZE + len(msg.payload) and end <= feed.sent, lambda: f"message at {start} with {len(msg.payload)} payload octets, stream left at {end} of {feed.sent}", site)
        for prop in (P5, P19):
            j.check(prop, "refused-or-canonical", lambda: msg.serialize() == on_wire, lambda: f"accepted {on_wire.hex()[:120]}", site)
        got.append(msg)
        ctx.log("message:" + (msg.command if msg.command in pg.BY_COMMAND else "?"), msg.command, _tag(msg.payload), actor="receiver")
        waits = want = 0
    return got


def _dispatch(ctx: Ctx, j: Judge, msg: Message, fault: str) -> Any:
    """The caller's own `if message.command == X.command: X.parse(message.payload)`."""
    cls = pg.BY_COMMAND.get(msg.command)
    if cls is None:
        return None
    codec = pg.CODECS[cls]
    cv = bool(ctx.ch.draw(2, "dispatch.cv"))
    obj = _accept(ctx, j, codec, msg.payload, cv, fault, None)
    if codec.stream:
        _accept(ctx, j, codec, msg.payload, cv, fault, b"\x00\x01")
    if obj is not None and cls.__name__ == "TxPayload":
        _consume(ctx, j, go.CODECS["Tx"], obj.tx, cv, fault)
    return obj


def _frame(ctx: Ctx, j: Judge) -> None:
    ch = ctx.ch
    faults = bool(ctx.cfg.get("faults"))
    pool = go.Pool(ch)
    magic = ch.pick(list(pg.MAGICS) + [ch.nbytes(4, "magic.custom")], "magic")
    sent: list[Sent] = []
    for _ in range(1 + ch.draw(12, "frame.n")):
        k = ch.draw(len(pg.CLASSES) + 2, "frame.kind")
        if k >= len(pg.CLASSES):
            command, payload = pg.unknown_command(ch)
            with ctx.must_succeed(P5, "envelope-equals-writer", "Message/unknown-command"):
                message = Message(magic, command, payload)
                octets = message.serialize()
            built = None
        else:
            built = pg.build_payload(ch, pool, pg.CLASSES[k])
            site = f"{built.name}/valid"
            with ctx.must_succeed(P5, "serialize-equals-writer", site):
                if built.valid:
                    built.obj.assert_valid()
                message = built.obj.to_message(magic, check_validity=built.valid)
                octets = message.serialize()
            j.check(P5, "serialize-equals-writer", message.payload == built.raw, lambda: f"{message.payload.hex()[:200]} != written {built.raw.hex()[:200]}", site)
            command, payload = built.obj.command, built.raw
        if len(octets) > 100_000:
            continue
        j.check(P5, "envelope-equals-writer", octets == pg.envelope(magic, command, payload), lambda: f"{octets[:24].hex()} for {command!r}", "Message.serialize/valid")
        sent.append(Sent(message, octets, built))
        ctx.log("send:" + (command if built else "?"), command, _tag(payload), actor="sender")
    if not sent:
        raise RunAborted("every drawn message was over the size bound")
    ctx.sample["messages"] = [f"{s.message.command}:{len(s.octets)}" for s in sent]
    wire = b"".join(s.octets for s in sent)
    starts = [sum(len(s.octets) for s in sent[:i]) for i in range(len(sent) + 1)]
    boundaries = sorted({*starts, *(s + pg.HEADER_SIZE for s in starts[:-1])})
    eager = bool(ch.draw(3, "receiver.eager") == 2)

    # fault-free delivery, strict oracle
    got = _receive(ctx, j, wire, boundaries, "valid", eager)
    j.check(P5, "delivered-exactly-once-in-order", got == [s.message for s in sent], lambda: f"sent {[s.message.command for s in sent]}, received {[m.command for m in got]}", "Message.parse/valid")
    for s, msg in zip(sent, got):
        if s.built is not None:
            site = f"{s.built.name}.parse/valid"
            with ctx.must_succeed(P5, "payload-round-trip", site):
                back = s.built.codec.parse(msg.payload, s.built.valid)
                again = s.built.codec.ser(back, s.built.valid)
            j.check(P5, "payload-round-trip", back == s.built.obj and again == msg.payload, lambda: f"{s.built.name} {msg.payload.hex()[:200]}", site)

    # every segmentation point class, per message
    for i, s in enumerate(sent):
        whole = len(s.octets)
        lead = ch.nbytes(ch.draw(3, "walk.lead"), "walk.leadv")
        for cut in sorted({0, 1, pg.HEADER_SIZE - 1, pg.HEADER_SIZE, pg.HEADER_SIZE + 1, whole - 1, whole, whole + 1, whole + pg.HEADER_SIZE}):
            if not 0 <= cut <= len(wire) - starts[i]:
                continue
            stream = io.BytesIO(lead + wire[starts[i]:starts[i] + cut])
            stream.seek(len(lead))
            site = "Message.parse/segment-walk"
            ok, msg = j.call(site, lambda: Message.parse(stream))
            if ok:
                for prop, inv in ((P5, "position-after-message"), (P19, "no-over-read")):
                    j.check(prop, inv, cut >= whole and stream.tell() == len(lead) + whole, lambda: f"{cut} octets of a message of {whole}: accepted, stream left at {stream.tell() - len(lead)}", site)
                j.check(P5, "delivered-exactly-once-in-order", msg == s.message, f"message {i} read back differently", site)
            else:
                expected = pg.HEADER_SIZE - cut if cut < pg.HEADER_SIZE else whole - cut
                missing = getattr(msg, "missing", None)  # any other refusal of sound octets is not "incomplete"
                j.check(P5, "missing-exact", cut < whole and missing == expected, lambda: f"{cut} of {whole} octets: {msg!r}, expected missing={expected}", site)
                j.check(P5, "rewound-on-incomplete", stream.tell() == len(lead), f"stream left at {stream.tell() - len(lead)} after {cut} of {whole} octets", site)
                j.check(P19, "no-livelock", missing is None or missing > 0, f"missing={missing}", site)
            ctx.state(f"segment:{'<' if cut < pg.HEADER_SIZE else '=' if cut == pg.HEADER_SIZE else 'payload' if cut < whole else 'whole' if cut == whole else 'beyond'}")
    if not faults:
        return

    # a corrupted stream: every message is refused or is what was on the wire
    k = ch.draw(len(sent), "fault.msg")
    at, whole = starts[k], len(sent[k].octets)
    variants: list[tuple[str, bytes]] = []
    for field, lo, hi in (("magic", 0, 4), ("command", 4, 16), ("length", 16, 20), ("checksum", 20, 24), ("payload", 24, whole)):
        if hi > lo:
            bit = ch.draw((hi - lo) * 8, "fault.bit")
            pos = at + lo + bit // 8
            variants.append(("bitflip-" + field, wire[:pos] + bytes([wire[pos] ^ (1 << (bit % 8))]) + wire[pos + 1:]))
    variants += [("close-mid-message", wire[:at + cut]) for cut in sorted({1, pg.HEADER_SIZE - 1, pg.HEADER_SIZE, pg.HEADER_SIZE + 1, whole - 1}) if 0 < cut < whole]
    variants.append(("garbage-between", wire[:at] + ch.nbytes(1 + ch.draw(30, "fault.ngarbage"), "fault.garbage") + wire[at:]))
    lo = ch.draw(len(wire), "fault.replay.lo")
    hi = lo + 1 + ch.draw(min(len(wire) - lo, 200), "fault.replay.n")
    variants.append(("replayed-segment", wire[:hi] + wire[lo:hi] + wire[hi:]))
    for fault, data in variants:
        ctx.fault(fault, f"message {k} at {at}")
        for msg in _receive(ctx, j, data, boundaries, fault, eager):
            _dispatch(ctx, j, msg, fault)

    # a hostile peer: well-framed messages whose payload went through the systematic walk
    for s in [sent[k]] + ([ch.pick(sent, "fault.msg2")] if len(sent) > 1 else []):
        if s.built is None:
            continue
        mutants = go.mutations(ch, s.built.raw, s.built.marks, cap=max(6, min(40, 300_000 // (len(s.built.raw) + 1))))
        for fault in sorted({f for f, _ in mutants}):
            ctx.fault(fault, s.built.name, f"n={sum(1 for f, _ in mutants if f == fault)}")
            ctx.probe("mutants:" + fault, sum(1 for f, _ in mutants if f == fault))
        for fault, payload in mutants:
            framed = pg.envelope(magic, s.message.command, payload)
            stream = io.BytesIO(framed + wire[:ch.draw(30, "hostile.ntail")])
            ok, msg = j.call("Message.parse/" + fault, lambda: Message.parse(stream))
            j.check(P5, "position-after-message", ok and stream.tell() == len(framed), lambda: f"a well-framed message of {len(framed)} octets: {msg!r}, stream left at {stream.tell()}", "Message.parse/" + fault)
            j.check(P19, "no-over-read", not ok or stream.tell() == len(framed), lambda: f"a message of {len(framed)} octets, stream left at {stream.tell()}", "Message.parse/" + fault)
            if ok:
                _dispatch(ctx, j, msg, fault)


# ---------------------------------------------------------------------------
# part B, continued: a stored transaction whose scripts are hostile but whose commitments hold
# ---------------------------------------------------------------------------
_EVERY_FLAG = ScriptFlag(sum(f.value for f in ScriptFlag))


def _spend(ctx: Ctx, j: Judge) -> None:
    """The accepted object is handed to every consumer: engine, sighash, sizes and ids, BIP322."""
    ch = ctx.ch
    pool = go.Pool(ch)
    for _ in range(1 + ch.draw(6, "spend.ntx")):
        spends = [gs.spend(ch, pool, ch.pick(gs.FORMS, "spend.form")) for _ in range(1 + ch.draw(2, "spend.nin"))]
        raw, values = gs.spending_tx(ch, spends)
        form0 = spends[0].form
        with ctx.must_succeed(P5, "parse-equals-object", "Tx.parse/hostile-spend"):
            tx = Tx.parse(io.BytesIO(raw))
            again = tx.serialize(include_witness=True)
        j.check(P5, "serialize-equals-writer", again == raw, lambda: _diff(raw, again), "Tx.parse/hostile-spend")
        ctx.log("spend-tx", _tag(raw), *(f"{s.form}/{s.kind}" for s in spends), actor="writer")
        prevouts = [TxOut(v, s.spk, check_validity=False) for v, s in zip(values, spends)]
        flag_sets = [None, NO_FLAGS, _EVERY_FLAG, ALL_FLAGS & ~ScriptFlag.TAPROOT, ScriptFlag(ch.draw(_EVERY_FLAG.value + 1, "spend.flags"))]
        for i, s in enumerate(spends):
            if s.form == "p2tr":
                ok, proven = j.call("taproot.check_output_pubkey/p2tr", lambda s=s: taproot.check_output_pubkey(s.spk[2:], s.script, s.control))
                j.check(P19, "predicate-total", lambda: ok and isinstance(proven, bool), lambda: f"answered {proven!r}", "taproot.check_output_pubkey/p2tr")
                ctx.probe("commitment-proven:p2tr" if ok and proven else "commitment-not-proven:p2tr")
            for flags in flag_sets:
                ok, refusal = j.call(f"engine.verify_input/{s.form}", lambda i=i, flags=flags: verify_input(prevouts, tx, i, flags))
                ctx.probe(f"spend-{'verified' if ok else 'refused'}:{s.form}")
                ctx.state(f"{s.form}:{s.kind}:{'ok' if ok else type(refusal).__name__}")
            hash_type = ch.pick([1, 0, 2, 3, 0x81, 0x83, 0x42], "spend.hashtype")
            j.call(f"sig_hash.from_tx/{s.form}", lambda i=i: sig_hash.from_tx(prevouts, tx, i, hash_type))
            _bip322(ctx, j, s)
        for flags in flag_sets[:3]:
            j.call(f"engine.verify_transaction/{form0}", lambda flags=flags: verify_transaction(prevouts, tx, flags, bool(ch.draw(2, "spend.amounts"))))
        j.call(f"Tx.size/{form0}", lambda: (tx.size, tx.weight, tx.vsize, tx.id, tx.hash, tx.sig_op_count))
        j.call(f"Tx.to_dict/{form0}", lambda: json.dumps(tx.to_dict(check_validity=False)))


def _bip322(ctx: Ctx, j: Judge, s: gs.Spend) -> None:
    """The same script and stack as the BIP322 signature of a message for the output's address."""
    msg = ctx.ch.nbytes(ctx.ch.draw(20, "bip322.msglen"), "bip322.msg")
    addr = ScriptPubKey(s.spk).address
    witness = Witness(s.witness, check_validity=False)
    if s.script_sig:  # the full variant: a to_sign transaction carrying the script_sig
        sig = bip322.Sig(bip322.to_sign(bip322.to_spend(msg, s.spk), s.script_sig, witness))
    else:
        sig = bip322.Sig(witness)
    for what, given in (("object", sig), ("text", sig.b64encode())):
        site = f"bip322.verify/{s.form}"
        ok, answer = j.call(site, lambda given=given: bip322.verify(msg, addr, given))
        j.check(P19, "predicate-total", lambda: ok and isinstance(answer, bool), lambda: f"{what}: answered {answer!r}", site)
        ctx.probe(f"bip322-{answer if ok else 'raised'}:{s.form}")
    if ctx.ch.chance(1, 2, "bip322.pof?"):
        _bip322_pof(ctx, j, s, msg, addr)


def _bip322_pof(ctx: Ctx, j: Judge, s: gs.Spend, msg: bytes, addr: str) -> None:
    """The proof-of-funds variant from a prover who writes every field of the psbt: the challenge input as the spend has
    it, and 1-3 further inputs over the outputs of one funding transaction -- carried by the input itself, borrowed from an
    earlier input (BIP322 lets a later input omit it), carried under another id, or missing; indexes inside the
    transaction, one past its last output, far past it. The verifier is handed the object and the text."""
    from btclib.psbt.psbt import Psbt  # noqa: PLC0415
    from btclib.tx import OutPoint, Tx, TxIn, TxOut  # noqa: PLC0415

    ch = ctx.ch
    funding = Tx(2, 0, [TxIn(OutPoint(ch.nbytes(32, "pof.fund.prev"), 0), b"", 0xFFFFFFFF)], [TxOut(1000 + k, s.spk) for k in range(1 + ch.draw(3, "pof.fund.nout"))], check_validity=False)
    other = Tx(2, 1, list(funding.vin), list(funding.vout), check_validity=False)  # the same outputs under another id
    n_out = len(funding.vout)
    plan = []
    for k in range(1 + ch.draw(3, "pof.extra")):
        carries = ch.pick(["own", "borrowed", "other-id", "witness-utxo", "nothing"] if k else ["own", "own", "other-id", "witness-utxo", "nothing"], "pof.carries")
        vout = ch.pick([None, n_out, n_out + 1, 0xFFFFFFFE], "pof.vout")
        plan.append((carries, ch.draw(n_out, "pof.vout.in") if vout is None else vout))

    def build() -> Any:
        psbt0 = bip322.to_sign_psbt(msg, addr)
        tx = psbt0.tx
        vin = list(tx.vin) + [TxIn(OutPoint(funding.id, vout, check_validity=False), b"", 0, check_validity=False) for _, vout in plan]
        psbt = Psbt.from_tx(Tx(tx.version, tx.lock_time, vin, tx.vout, check_validity=False), check_validity=False)
        psbt.signed_message = msg
        psbt.inputs[0].non_witness_utxo = psbt0.inputs[0].non_witness_utxo
        psbt.inputs[0].final_script_sig = s.script_sig
        psbt.inputs[0].final_script_witness = Witness(s.witness, check_validity=False)
        for psbt_in, (carries, vout) in zip(psbt.inputs[1:], plan):
            psbt_in.final_script_witness = Witness(s.witness, check_validity=False)
            if carries == "own":
                psbt_in.non_witness_utxo = funding
            elif carries == "other-id":
                psbt_in.non_witness_utxo = other
            elif carries == "witness-utxo":
                psbt_in.witness_utxo = funding.vout[min(vout, n_out - 1)]
        return bip322.Sig(psbt)

    site = f"bip322.verify/pof/{s.form}"
    ok, sig = j.call(site, build)
    if not ok:
        ctx.probe("pof-not-built")
        return
    ctx.fault("hostile-proof-of-funds", ",".join(f"{c}:{min(v, 9)}" for c, v in plan))
    okt, text = j.call(site, lambda: sig.b64encode(check_validity=False))
    for what, given in (("object", sig), *((("text", text),) if okt else ())):
        ok, answer = j.call(site, lambda given=given: bip322.verify(msg, addr, given))
        j.check(P19, "predicate-total", lambda: ok and isinstance(answer, bool), lambda: f"{what}: answered {answer!r}", site)
        ctx.probe(f"bip322-pof-{answer if ok else 'raised'}")


# ---------------------------------------------------------------------------
# check definitions
# ---------------------------------------------------------------------------
def _plans(prop: str) -> Any:
    def plans(tier: str) -> list[Any]:
        from btcsim.core.runner import Plan  # noqa: PLC0415

        out = [
            Plan("wire", {"part": "store", "faults": True}, share=4.0, chunk=10, label="wire/store+faults"),
            Plan("wire", {"part": "frame", "faults": True}, share=3.0, chunk=10, label="wire/frame+faults"),
            Plan("wire", {"part": "store", "faults": False}, share=1.5, chunk=20, label="wire/store"),
            Plan("wire", {"part": "frame", "faults": False}, share=1.5, chunk=20, label="wire/frame"),
        ]
        if prop == P19:
            out.append(Plan("wire", {"part": "spend", "faults": True}, share=3.0, chunk=10, label="wire/spend"))
        return out

    return plans


_RULE = (
    "one evaluation = one seeded run: 1-6 generated or vendored wire objects on a simulated disk, or 1-12 framed p2p messages "
    "over a segmented stream. Objects are sampled (field-wise generators with boundary values of every integer field and "
    "CompactSize width); per object the fault positions are walked systematically: truncation at every field boundary the "
    "writer knows and +-1, every length prefix re-encoded in each non-minimal width, every count/marker/flag byte set to "
    "{00,01,02,7f,80,fc,fd,fe,ff,cur-1,cur+1}, three kinds of trailing garbage, 3 drawn bit flips (a stride sample of the walk "
    "when it exceeds 48 positions), each read as octets and from a stream that continues; per stream every segmentation class "
    "(0, 1, header-1, header, header+1, whole-1, whole, whole+1, whole+header) per message, one bit flip per header field, "
    "close at each boundary class, garbage between messages, a replayed segment. distinct = distinct hash of the "
    "(actor, event, fault) sequence; non-trivial = at least one fault fired."
)

_RULE_SPEND = (
    " Part spend: 1-6 transactions of 1-2 inputs, each spending a p2sh / p2wsh / p2sh-p2wsh / p2tr-script-path output whose "
    "commitment is computed around an arbitrary inner script (random octets; a short sequence over all 256 opcode byte values; "
    "a valid little script with one byte replaced) and an arbitrary initial stack, verified under five flag sets."
)

CHECKS = {
    "C05": {
        "level": "fault_enumeration",
        "plans": _plans(P5),
        "rule": _RULE,
        "assumptions": [
            "an input with a final script_sig or witness serializes without the fields BIP174's finalizer consumed (documented in psbt_in.py): those pairs are exempt from psbt-keeps-pairs",
            "strict dsa.Sig.parse holds a stream to the rule of a buffer (documented): DER signatures are stored length-prefixed and parsed as octets",
            "generated blocks carry no proof of work and are read with check_validity=False; the vendored blocks 1 and 170 are read with it on",
            "a to_dict that refuses a valid object with a library exception (difficulty of a zero-target header) is counted, not asserted",
        ],
    },
    "C19": {
        "level": "fault_enumeration",
        "plans": _plans(P19),
        "rule": _RULE + _RULE_SPEND,
        "assumptions": [
            "the hang guard is a per-call CPU budget of 10 s (ITIMER_VIRTUAL); inputs are capped at 100 kB",
            "predicates are fed inputs of their declared types only (octets, text, Sig objects built with check_validity=False)",
            "text forms: base64 of PSBT, message signature and ECIES envelope; descriptor, miniscript and BIP21 text are not on this wire",
        ],
    },
}
