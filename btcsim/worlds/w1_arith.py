"""W1 `arith` -- curve and field arithmetic under perturbation (C01).

Actors: one caller (part ``ops``) or 2-3 simulated threads plus an optional
chaos thread (part ``threads``); the environment owns the RNG seam, the
caches, the backend switch and the schedule.

Workload per run: a curve -- secp256k1, another of the 27 catalogued ones, or
a toy curve built from the choices (``btcsim.gen.curves``: prime p <= 251 with
3, 5 and 7 weighted, all points enumerated by the reference, largest
prime-order subgroup, kept when the ``Curve`` constructor accepts it; a
refusal is a probe, never asserted) -- then 3-40 operations (fewer on the big
curves, whose naive reference costs milliseconds per multiplication) among
``mult``, ``double_mult_var``, ``multi_mult_var`` (term counts on both sides
of ``BOS_COSTER_THRESHOLD``, zero scalars, repeated points, infinity among
the points, cancelling sums), ``PreparedPoint.mult``, ``mod_inv(_var)``,
``mod_inv_batch(_var)`` (prime and composite moduli), ``legendre_symbol_var``,
``mod_sqrt_var`` / ``tonelli_var`` (primes 3 mod 4, 5 mod 8, 1 mod 8), the SEC
point codec, refusals (off-curve / malformed points, malformed curves), with
scalars from {0, 1, n-1, n, n+1, k*n, k*n+-1, negative, > 2^256, small,
uniform} and points from {G, INF, uniform, an earlier result, minus an
earlier result}: ``alias.INF`` -- (5, 0) whatever the field -- reaches every
entry point on every curve, results that landed on infinity are fed back in.
Points handed to the library are points of the subgroup.

Perturbations between operations (plan ``faults``): cache clear (one / all),
caches shrunk to maxsize 1-3 for the run (eviction), backend flip, RNG mode
flip (uniform <-> edge: blinding factor 1, 2, m-2, m-1), an equal-but-not-
identical curve object (shared cache entries). In part ``threads`` the same
``PreparedPoint`` / generator is multiplied by several simulated threads
while its tables are built, with a chaos thread clearing caches and flipping
the switch.

Invariants (all C01):
- ``group-law``: every answer equals the naive affine law of ``ref.ec``;
- ``valid-input-answered``: a valid operand is never refused;
- ``refuses-bad-input``: an off-curve / malformed point, a malformed curve,
  a non-invertible operand, a non-residue is refused with a
  ``BTClibException`` -- never answered, never another exception;
- ``inverse-exact`` / ``inverse-times-operand-is-one``, ``root-squares-back``,
  ``legendre-exact``: the modular helpers against ``pow``;
- ``codec-round-trip``: SEC octets are the reference encoding and decode back;
- ``same-answer-after-perturbation``: an operation repeated after any
  perturbation gives the identical answer;
- ``concurrent-group-law``: an answer computed while another thread builds
  or clears the same tables equals the reference law.
"""

from __future__ import annotations

from math import gcd
from typing import Any, Callable

from btclib.alias import INF
from btclib.curves import CURVES, Curve, PreparedPoint, double_mult_var, mult, multi_mult_var, secp256k1
from btclib.curves import curve_group as cg
from btclib.curves.sec_point import bytes_from_point, point_from_octets
from btclib.exceptions import BTClibException
from btclib.number_theory import (
    legendre_symbol_var,
    mod_inv,
    mod_inv_batch,
    mod_inv_batch_var,
    mod_inv_var,
    mod_sqrt_var,
    tonelli_var,
)

from btcsim.core.ctx import Ctx, RunAborted
from btcsim.gen import curves as gc
from btcsim.ref.ec import Point as RefPoint
from btcsim.ref.ec import RefCurve
from btcsim.seams import state as st
from btcsim.seams.rng import SimRng

P = "C01"
THRESHOLD = int(getattr(cg, "BOS_COSTER_THRESHOLD", 56))
# known primes per residue class of the square-root code (2-adic valuations 1..96)
PRIMES_3MOD4 = [3, 7, 11, 19, 23, 251, 2**127 - 1, secp256k1.p]
PRIMES_5MOD8 = [5, 13, 29, 37, 53, 61, 101, 2**255 - 19, CURVES["secp224k1"].p]
PRIMES_1MOD8 = [17, 41, 73, 97, 193, 257, 7681, 12289, 65537, 2**64 - 2**32 + 1, CURVES["secp224r1"].p]
COMPOSITES = [1, 4, 6, 8, 9, 15, 21, 25, 27, 35, 49, 77, 91, 255, 256, 341, 561, 1001, 2**16, 3 * 2**61, 15 * (2**127 - 1)]
# odd composites that are no base-2 Fermat pseudoprimes, and even numbers: never a field
NOT_PRIMES = [4, 6, 8, 9, 15, 21, 25, 27, 33, 35, 49, 51, 55, 57, 63, 65, 77, 91, 121, 169, 221, 247, 253]
Op = tuple[str, Callable[[Curve], Any], tuple[Any, ...]]


class _Rng(SimRng):
    """Remembers every ``randbelow`` answer, so that probes can name the blinding draw."""

    def __init__(self, ctx: Ctx, mode: str) -> None:
        super().__init__(ctx, mode)
        self.draws: list[tuple[int, int]] = []

    def randbelow(self, n: int) -> int:
        v = super().randbelow(n)
        self.draws.append((n, v))
        return v


def _lib(Q: RefPoint) -> Any:
    return INF if Q is None else Q


def _ref(Q: Any) -> RefPoint:
    """A library point in the reference's spelling; infinity is any (x, 0)."""
    return None if Q[1] == 0 else (Q[0], Q[1])


def _weak_curve_verdict(ctx: Ctx, t: Any) -> None:
    """The constructor's default weakness check on a curve it accepts without it: refused (a library
    exception) exactly when the curve is anomalous (n == p) or its embedding degree -- the order of p
    modulo n -- is under 100, which is the documented rule (SEC 1 v.2 3.1.1.2.1 step 8)."""
    p, n = t[0], t[4]
    degree = next((i for i in range(1, n + 1) if pow(p, i, n) == 1), None) if n != p else None
    weak = n == p or (degree is not None and degree < 100)
    try:
        Curve(*t)
        verdict = "accepted"
    except BTClibException:
        verdict = "refused"
    except Exception as e:  # noqa: BLE001
        verdict = f"{type(e).__name__}: {e}"
    ctx.probe(f"weak-curve:{'weak' if weak else 'strong'}")
    if degree is not None and 90 <= degree <= 110:
        ctx.probe(f"embedding-degree:{degree}")
    ctx.check(
        P, "weak-curve-refused-iff-documented", verdict == ("refused" if weak else "accepted"),
        lambda: f"Curve{t} with the default weakness check was {verdict}; n {'==' if n == p else '!='} p, embedding degree {degree}", site="Curve.__init__",
    )


class W:
    """One run's state."""

    def __init__(self, ctx: Ctx, rng: _Rng) -> None:
        self.ctx, self.ch, self.rng = ctx, ctx.ch, rng
        kind = ctx.cfg.get("curve") or ctx.ch.weighted([("toy", 6), ("secp256k1", 2), ("catalogued", 2), ("kin", 1)], "curve.kind")
        if kind == "toy":
            ec, ref, t = gc.toy_curve(ctx)
            self.label = f"toy:p={t[0]},a={t[1]},b={t[2]},G={t[3]},n={t[4]},h={t[5]}"
            _weak_curve_verdict(ctx, t)
        elif kind == "kin":
            # caller-defined, full size, over a catalogued curve's field and not that curve
            ec, ref, self.label = gc.kin_curve(ctx, int(ctx.cfg.get("max_bits", 521)))
            ctx.probe("kin-curve:" + self.label.split(":")[0])
        else:
            names = [k for k in sorted(CURVES) if CURVES[k].p.bit_length() <= int(ctx.cfg.get("max_bits", 521))]
            name = "secp256k1" if kind == "secp256k1" else ctx.ch.pick(names, "curve.name")
            ec, ref = gc.catalogued(name)
            self.label = name
        self.kind = kind
        self.ecs = [ec, gc.twin(ec)]
        self.which = 0
        self.ref: RefCurve = ref
        self.n, self.p = ec.n, ec.p
        self.big = kind != "toy"
        # the naive law costs ~ (bits/64)^2 / 2 ms per full-size multiplication
        self.unit_ms = max(0.05, (self.p.bit_length() / 64) ** 2 / 2)
        self.pool: list[RefPoint] = []
        self.results: list[RefPoint] = []
        self.prepared: dict[tuple[Any, int], PreparedPoint] = {}
        self.history: list[tuple[Op, Any]] = []
        self.shrunk: st.ShrunkCaches | None = None

    @property
    def ec(self) -> Curve:
        return self.ecs[self.which]

    def delegated(self) -> bool:
        return self.ec == secp256k1 and st.backend()

    # -- operands -----------------------------------------------------------
    def scalar(self, label: str, cheap: bool = False) -> int:
        ch, n = self.ch, self.n
        if cheap:
            return ch.pick([ch.draw(1 << 16, label + ".small"), 0, 1], label + ".cheap")
        kind = ch.weighted(
            [("uniform", 8), ("0", 1), ("1", 1), ("n-1", 1), ("n", 1), ("n+1", 1), ("kn", 1), ("kn+1", 1), ("kn-1", 1),
             ("negative", 2), ("huge", 1), ("small", 2)], label + ".class",
        )
        k = 2 + ch.draw(5, label + ".k") if kind.startswith("kn") else 0
        if kind == "uniform":
            return ch.draw(n, label)
        if kind == "negative":
            return -(1 + ch.draw(3 * n, label))
        if kind == "huge":
            return (1 << max(257, n.bit_length() + 9)) + ch.draw(1 << 32, label)
        if kind == "small":
            return ch.draw(1 << 16, label)
        return {"0": 0, "1": 1, "n-1": n - 1, "n": n, "n+1": n + 1, "kn": k * n, "kn+1": k * n + 1, "kn-1": k * n - 1}[kind]

    def uniform_point(self, label: str) -> RefPoint:
        """A uniform point of the subgroup, infinity excluded; pooled on the big curves."""
        if not self.big:
            return self.ref.mul(1 + self.ch.draw(self.n - 1, label), self.ref.G)
        i = self.ch.draw(2, label + ".pool")
        while len(self.pool) <= i:
            self.pool.append(self.ref.mul(1 + self.ch.draw(self.n - 1, label), self.ref.G))
        return self.pool[i]

    def point(self, label: str, inf_ok: bool = True) -> RefPoint:
        # infinity is spelled in band, (5, 0): on the fields where 5 or 7 is no element it gets a weight of its own
        kind = self.ch.weighted([("uniform", 5), ("G", 3), ("neg-earlier", 2), ("earlier", 1), ("INF", 4 if self.p <= 7 else 2)], label + ".class")
        if kind == "INF" and inf_ok:
            return None
        if kind in ("earlier", "neg-earlier") and self.results:
            Q = self.ch.pick(self.results, label + ".earlier")
            Q = self.ref.neg(Q) if kind == "neg-earlier" else Q
            if Q is not None or inf_ok:
                return Q
        return self.ref.G if kind == "G" else self.uniform_point(label)

    def off_curve(self, label: str) -> tuple[int, int] | None:
        """A pair of field elements, y != 0, that is no point; None where the tiny field has none."""
        p = self.p
        x0, y0 = self.ch.draw(p, label + ".x"), self.ch.draw(p - 1, label + ".y")
        for i in range(p if p < 64 else 4):  # half of all pairs are off the curve: a few steps find one
            for j in range(p - 1 if p < 64 else 4):
                Q = ((x0 + i) % p, 1 + (y0 + j) % (p - 1))
                if not self.ref.on_curve(Q):
                    return Q
        return None

    def bad_point(self, label: str) -> tuple[str, Any]:
        """An operand that is no point of the curve."""
        ch, p = self.ch, self.p
        kind = ch.pick(["off-curve", "y-above", "y-negative", "arity-3", "arity-1", "list", "x-range"], label + ".class")
        x, y = self.uniform_point(label)  # type: ignore[misc]
        off = self.off_curve(label) if kind == "off-curve" else None
        if off is not None:
            return kind, off
        return "y-above" if kind == "off-curve" else kind, {
            "off-curve": (x, y + p), "y-above": (x, y + p), "y-negative": (x, y - p), "arity-3": (x, y, 1), "arity-1": (x,), "list": [x, y],
            "x-range": ch.pick([(x + p, y), (x - p, y)], label + ".xr"),
        }[kind]


# ---------------------------------------------------------------------------
# operation builders: (site, fn(ec) -> library answer, expectation)
# expectation: ("point", ref) | ("eq", value) | ("inverse", want, operands, m) | ("root", a, p) | ("refuse",)
# ---------------------------------------------------------------------------
def _op_mult(w: W) -> Op:
    m, Q = w.scalar("mult.m"), w.point("mult.Q")
    implicit = Q == w.ref.G and bool(w.ch.draw(2, "mult.implicitG"))
    w.ctx.log("op", "mult", m, "G" if implicit else Q)
    return "mult", lambda ec: mult(m, None if implicit else _lib(Q), ec), ("point", w.ref.mul(m, Q))


def _op_double(w: W) -> Op:
    shape = w.ch.weighted([("plain", 6), ("cancel-scalar", 1), ("cancel-point", 1), ("same-point", 1)], "double.shape")
    u, H = w.scalar("double.u"), w.point("double.H")
    v, Q = w.scalar("double.v"), w.point("double.Q")
    if shape == "cancel-scalar":
        v, Q = w.ch.pick([-u, w.n - u % w.n, 2 * w.n - u], "double.neg"), H
    elif shape == "cancel-point":
        v, Q = u, w.ref.neg(H)
    elif shape == "same-point":
        Q = H
    w.ctx.log("op", "double_mult_var", shape, u, H, v, Q)
    return "double_mult_var", lambda ec: double_mult_var(u, _lib(H), v, _lib(Q), ec), ("point", w.ref.multi([u, v], [H, Q]))


def _op_multi(w: W) -> Op:
    ch, T = w.ch, THRESHOLD
    wide = ch.chance(1, 8 if w.big else 3, "multi.wide?")
    count = ch.pick([T - 2, T - 1, T, T + 1, T + 2, T + T // 2, 2 * T - 2], "multi.count") if wide else 2 + ch.draw(7, "multi.few")
    palette = [w.point("multi.P") for _ in range(1 + ch.draw(4, "multi.palette"))]
    full = 3 if w.big else count  # full-size scalars the reference can afford
    scalars: list[int] = []
    points: list[RefPoint] = []
    for i in range(count):
        points.append(ch.pick(palette, "multi.Pi"))
        scalars.append(w.scalar("multi.s", cheap=i >= full))
    shape = ch.weighted([("plain", 6), ("closing-term", 1), ("mirrored", 1)], "multi.shape")
    if shape == "closing-term":  # the last term is minus the sum of the others
        points[-1], scalars[-1] = w.ref.neg(w.ref.multi(scalars[:-1], points[:-1])), 1
    elif shape == "mirrored":  # every term followed by its opposite
        half = count // 2
        scalars = [s for s in scalars[:half] for _ in (0, 1)]
        points = [Q for Q0 in points[:half] for Q in (Q0, w.ref.neg(Q0))]
    nonzero = sum(1 for s in scalars if s % w.n)
    side = "delegated" if w.delegated() and all(s % w.n and Q for s, Q in zip(scalars, points)) else "bos-coster" if nonzero >= T else "wnaf"
    w.ctx.probe("side:" + side)
    w.ctx.log("op", "multi_mult_var", shape, f"terms={len(scalars)}", f"nonzero={nonzero}", side)
    return "multi_mult_var", lambda ec: multi_mult_var(scalars, [_lib(Q) for Q in points], ec), ("point", w.ref.multi(scalars, points))


def _op_prepared(w: W) -> Op:
    m, Q = w.scalar("prep.m"), w.point("prep.Q", inf_ok=False)
    w.ctx.log("op", "PreparedPoint.mult", m, Q)

    def fn(ec: Curve) -> Any:
        key = (Q, w.which)
        if key not in w.prepared:
            w.prepared[key] = PreparedPoint(_lib(Q), ec)
        return w.prepared[key].mult(m)

    return "PreparedPoint.mult", fn, ("point", w.ref.mul(m, Q))


def _op_private(w: W) -> Op:
    """The helpers the statement's mechanisms name beside the public entry points (`curve.py: _sum_var,
    _tweak_add_var`, the tweak chain and the Jacobian double multiplication built on them): the sums other modules
    are made of. Private names: one that a tree no longer has is a seam that is not there (probe, and a plain
    multiplication instead), never an alarm."""
    from btclib.curves import curve as cv  # noqa: PLC0415

    ch, ref = w.ch, w.ref
    api = ch.pick(["_sum_var", "_tweak_add_var", "_TweakChain", "_jac_double_mult"], "priv.api")
    target = getattr(cv, api, None)
    if target is None:
        w.ctx.probe("seam-unavailable:curve." + api)
        return _op_mult(w)
    if api == "_sum_var":
        shape = ch.weighted([("plain", 5), ("cancelling", 2), ("all-infinity", 1), ("closing-term", 2)], "priv.sum.shape")
        pts = [w.point("priv.sum.P") for _ in range(ch.draw(6, "priv.sum.len"))]
        if shape == "cancelling" and pts:
            at = ch.draw(len(pts) + 1, "priv.sum.at")
            pts = pts[:at] + [pts[0], ref.neg(pts[0])] + pts[at:]  # not adjacent in general: the partial sums pass through anything
        elif shape == "all-infinity":
            pts = [None] * (1 + ch.draw(3, "priv.sum.ninf"))
        elif shape == "closing-term" and pts:
            pts.append(ref.neg(ref.multi([1] * len(pts), pts)))
        w.ctx.log("op", api, shape, pts)
        return api, lambda ec: target([_lib(Q) for Q in pts], ec), ("point", ref.multi([1] * len(pts), pts) if pts else None)
    if api == "_tweak_add_var":
        Q, t = w.point("priv.tw.P"), w.scalar("priv.tw.t")
        if ch.chance(1, 5, "priv.tw.cancel?"):
            Q = ref.neg(ref.mul(t, ref.G))  # lands on infinity
        w.ctx.log("op", api, Q, t)
        return api, lambda ec: target(_lib(Q), t, ec), ("point", ref.multi([1, t], [Q, ref.G]))
    if api == "_TweakChain":
        base = w.point("priv.chain.B", inf_ok=bool(ch.draw(4, "priv.chain.inf-ok?") == 3))
        tweaks = [w.scalar("priv.chain.t", cheap=True) for _ in range(1 + ch.draw(5, "priv.chain.len"))]
        if ch.chance(1, 3, "priv.chain.repeat?"):
            tweaks.insert(ch.draw(len(tweaks), "priv.chain.rat") + 1, tweaks[0])  # the same tweak again: a zero step
        if ch.chance(1, 3, "priv.chain.infinity?") and base is not None:
            k = next((k for k in range(1, min(w.n, 400)) if ref.mul(k, ref.G) == base), None) if not w.big else None
            if k is None and w.big:
                k = 1 + ch.draw(1000, "priv.chain.k")
                base = ref.mul(k, ref.G)
            if k is not None:
                tweaks.insert(ch.draw(len(tweaks) + 1, "priv.chain.iat"), -k)  # this step lands on infinity; the chain goes on after it
        w.ctx.log("op", api, base, tweaks)
        return api, lambda ec: (lambda c: [c.point(t) for t in tweaks])(target(_lib(base), ec)), ("points", [ref.multi([1, t], [base, ref.G]) for t in tweaks])
    # u*H + v*Q with operands in Jacobian coordinates under a drawn Z, the answer read back through the curve's own conversion
    u, H, v, Q = w.scalar("priv.jac.u"), w.point("priv.jac.H"), w.scalar("priv.jac.v"), w.point("priv.jac.Q")
    if ch.chance(1, 5, "priv.jac.cancel?"):
        v, Q = -u, H
    u, v = u % w.n, v % w.n  # its callers hand it reduced coefficients (n - c, s): that is the contract of a private name

    def jac(R: RefPoint, label: str) -> tuple[int, int, int]:
        if R is None:
            return ch.pick([(7, 0, 0), (0, 1, 0), (1, 1, 0)], label + ".inf")  # any z == 0 is infinity
        z = ch.pick([1, 1, w.p - 1, None], label + ".z") or 1 + ch.draw(w.p - 1, label + ".zz")
        return (R[0] * z * z % w.p, R[1] * z * z * z % w.p, z)

    HJ, QJ = jac(H, "priv.jac.HJ"), jac(Q, "priv.jac.QJ")
    prepared = bool(ch.draw(2, "priv.jac.fixed?"))
    w.ctx.log("op", api, u, HJ, v, QJ, prepared)

    def fn(ec: Curve) -> Any:
        fixed = ec._fixed_points | ({QJ, ec.negate_jac(QJ)} if prepared and QJ[2] == 1 else set())
        return ec.aff_from_jac_var(target(u, HJ, v, QJ, ec, fixed))

    return api, fn, ("point", ref.multi([u, v], [H, Q]))


def _modulus(w: W, label: str, composite_ok: bool) -> int:
    kinds = ["curve-p", "curve-n", "3mod4", "5mod8", "1mod8"] + (["composite"] * 3 if composite_ok else [])
    kind = w.ch.pick(kinds, label + ".class")
    if kind in ("curve-p", "curve-n"):
        return w.p if kind == "curve-p" else w.n
    return w.ch.pick({"3mod4": PRIMES_3MOD4, "5mod8": PRIMES_5MOD8, "1mod8": PRIMES_1MOD8, "composite": COMPOSITES}[kind], label)


def _operand(w: W, m: int, label: str) -> int:
    ch = w.ch
    kind = ch.weighted([("uniform", 6), ("0", 1), ("1", 1), ("m-1", 1), ("m", 1), ("m+1", 1), ("negative", 1), ("huge", 1), ("shares-factor", 2)], label + ".class")
    if kind == "shares-factor":  # no inverse when m is composite; a plain operand when m is prime
        f = next((q for q in (2, 3, 5, 7, 11, 13) if m % q == 0), 1)
        return f * (1 + ch.draw(max(1, m // f), label))
    if kind in ("uniform", "negative", "huge"):
        a = ch.draw(m, label)
        return a if kind == "uniform" else -a - 1 if kind == "negative" else a + (m << 260)
    return {"0": 0, "1": 1, "m-1": m - 1, "m": m, "m+1": m + 1}[kind]


def _op_inverse(w: W) -> Op:
    ch = w.ch
    name, fn1 = ch.pick([("mod_inv", mod_inv), ("mod_inv_var", mod_inv_var), ("mod_inv_batch", mod_inv_batch), ("mod_inv_batch_var", mod_inv_batch_var)], "inv.fn")
    m = _modulus(w, "inv.m", composite_ok=True)
    if "batch" in name:
        ops = [_operand(w, m, "inv.a") for _ in range(ch.draw(7, "inv.len"))]
        call, ok = (lambda ec: fn1(ops, m)), all(gcd(a, m) == 1 for a in ops)
        want: Any = [pow(a, -1, m) for a in ops] if ok else None
    else:
        a = _operand(w, m, "inv.a")
        ops = [a]
        call, ok = (lambda ec: fn1(a, m)), gcd(a, m) == 1
        want = pow(a, -1, m) if ok else None
    w.ctx.log("op", name, f"m={m}", ops)
    return name, call, ("inverse", want, ops, m) if ok else ("refuse",)


def _op_root(w: W) -> Op:
    ch = w.ch
    name, fn1 = ch.pick([("mod_sqrt_var", mod_sqrt_var), ("tonelli_var", tonelli_var), ("legendre_symbol_var", legendre_symbol_var)], "root.fn")
    p = _modulus(w, "root.p", composite_ok=False)
    kind = ch.weighted([("square", 4), ("uniform", 4), ("0", 1), ("-1", 1), ("above-p", 1), ("negative", 1)], "root.class")
    a = ch.draw(p, "root.a")
    a = {"square": a * a % p, "uniform": a, "0": 0, "-1": p - 1, "above-p": a + p * (1 + ch.draw(5, "root.k")), "negative": a - p * (1 + ch.draw(5, "root.k"))}[kind]
    euler = 0 if a % p == 0 else 1 if pow(a % p, (p - 1) // 2, p) == 1 else -1
    w.ctx.log("op", name, f"p={p}", f"a={a}", f"symbol={euler}")
    w.ctx.state(f"root:{name}:{p % 8}:{euler}")
    if name == "legendre_symbol_var":
        return name, (lambda ec: fn1(a, p)), ("eq", euler)
    return name, (lambda ec: fn1(a, p)), ("root", a, p) if euler >= 0 else ("refuse",)


def _sec(w: W, Q: tuple[int, int], prefix: int) -> bytes:
    """SEC 1 2.3.3 by hand: 02/03 || x, or 04/06/07 || x || y."""
    size = (w.p.bit_length() + 7) // 8
    x, y = Q[0].to_bytes(size, "big"), Q[1].to_bytes(size, "big")
    return bytes([prefix]) + x + (b"" if prefix in (2, 3) else y)


# x-coordinates of the points of order two of the catalogued curves whose cofactor is even (x^3 + ax + b = 0 mod p)
TWO_TORSION_X = {"secp112r2": 3610075134545239076002374364665933, "secp128r2": 311198077076599516590082177721943503641}


def _op_codec(w: W) -> Op:
    ch = w.ch
    Q = w.point("codec.Q", inf_ok=False)
    assert Q is not None
    shape = ch.weighted([("compressed", 3), ("uncompressed", 3), ("hybrid", 1), ("hybrid-unasked", 1), ("hybrid-wrong-parity", 1), ("off-curve-octets", 2), ("two-torsion-x", 2)], "codec.shape")
    w.ctx.log("op", "codec", shape, Q)
    if shape == "two-torsion-x":
        # a curve with an even cofactor has a point of order two, (x0, 0), outside the prime-order subgroup, and y = 0 is
        # how this library spells infinity: octets naming that x name no point of the group, under either parity prefix
        # (the uncompressed spelling is refused as "no bytes representation for infinity point")
        x0 = TWO_TORSION_X.get(w.label) if w.big else next((x for x in range(w.p) if (x * x * x + w.ref.a * x + w.ref.b) % w.p == 0), None)
        if x0 is not None:
            w.ctx.probe("two-torsion-x")
            prefix = ch.pick([3, 2, 4], "codec.torsion.prefix")
            return "codec-refusal", lambda ec: point_from_octets(_sec(w, (x0, 0), prefix), ec), ("refuse",)
        shape = "compressed"
    if shape in ("compressed", "uncompressed"):
        compressed = shape == "compressed"
        octets = _sec(w, Q, 2 + Q[1] % 2 if compressed else 4)
        return "codec", lambda ec: (bytes_from_point(Q, ec, compressed), point_from_octets(octets, ec)), ("eq", (octets, Q))
    if shape == "hybrid":
        return "codec-hybrid", lambda ec: point_from_octets(_sec(w, Q, 6 + Q[1] % 2), ec, hybrid=True), ("eq", Q)
    if shape == "hybrid-unasked":
        return "codec-hybrid", lambda ec: point_from_octets(_sec(w, Q, 6 + Q[1] % 2), ec), ("refuse",)
    if shape == "hybrid-wrong-parity":
        return "codec-hybrid", lambda ec: point_from_octets(_sec(w, Q, 7 - Q[1] % 2), ec, hybrid=True), ("refuse",)
    # octets of something that is no point: a compressed x with no y, or an uncompressed pair off the curve
    # (on a tiny field every x may have a y and every pair be a point: then a y that is no field element)
    if ch.draw(2, "codec.off.compressed"):
        x0 = ch.draw(w.p, "codec.off.x")
        x = next((x for x in ((x0 + i) % w.p for i in range(min(w.p, 64))) if not _has_y(w, x)), None)
        if x is not None:
            prefix = 2 + ch.draw(2, "codec.off.parity")
            return "codec-refusal", lambda ec: point_from_octets(_sec(w, (x, 1), prefix), ec), ("refuse",)
    B = w.off_curve("codec.off") or (Q[0], w.p)
    return "codec-refusal", lambda ec: point_from_octets(_sec(w, B, 4), ec), ("refuse",)


def _has_y(w: W, x: int) -> bool:
    """Euler's criterion on x^3 + ax + b: is x the x-coordinate of some point?"""
    rhs = (x * x * x + w.ref.a * x + w.ref.b) % w.p
    return rhs == 0 or pow(rhs, (w.p - 1) // 2, w.p) == 1


def _op_refusal(w: W) -> Op:
    ch = w.ch
    kind, B = w.bad_point("bad")
    api = ch.pick(["mult", "double-H", "double-Q", "multi", "prepared", "bytes_from_point"], "bad.api")
    if api in ("prepared", "bytes_from_point") and ch.chance(1, 4, "bad.infinity"):
        kind, B = "infinity", INF  # documented: infinity has no tables to prepare and no octets
    m, G = w.scalar("bad.m"), _lib(w.ref.G)
    w.ctx.log("op", "refusal", kind, api, B)
    if api == "multi":
        pts = [G] * (2 + ch.draw(3, "bad.multi.len"))
        pts[ch.draw(len(pts), "bad.multi.at")] = B
        fn: Callable[[Curve], Any] = lambda ec: multi_mult_var([m] * len(pts), pts, ec)  # noqa: E731
    else:
        fn = {
            "mult": lambda ec: mult(m, B, ec),
            "double-H": lambda ec: double_mult_var(m, B, 1, G, ec),
            "double-Q": lambda ec: double_mult_var(1, G, m, B, ec),
            "prepared": lambda ec: PreparedPoint(B, ec).mult(m),
            "bytes_from_point": lambda ec: bytes_from_point(B, ec, bool(m % 2)),
        }[api]
    return "refusal:" + api, fn, ("refuse",)


def _op_bad_curve(w: W) -> Op:
    """A curve with one malformed parameter: the constructor must refuse it."""
    ch, ec = w.ch, w.ecs[0]
    p, a, b, G, n, h = ec.p, ec._a, ec._b, ec.G, ec.n, ec.cofactor
    kind = ch.pick(["p-not-prime", "zero-discriminant", "a-range", "b-range", "G-off-curve", "G-infinity", "n-not-prime", "n-not-the-order", "cofactor"], "badcurve.kind")
    if kind == "p-not-prime":
        p = ch.pick(NOT_PRIMES, "badcurve.p")
        a, b = a % p, b % p
    elif kind == "zero-discriminant":
        c = ch.draw(p, "badcurve.c")
        a, b = -3 * c * c % p, 2 * c * c * c % p
    elif kind == "a-range":
        a = ch.pick([a + p, a - p, -1, p], "badcurve.a")
    elif kind == "b-range":
        b = ch.pick([b + p, b - p, -1, p], "badcurve.b")
    elif kind == "G-off-curve":
        G = (G[0], next((y for y in range(1, min(p, 64)) if not w.ref.on_curve((G[0], y))), p))
    elif kind == "G-infinity":
        G = INF
    elif kind == "n-not-prime":
        n = ch.pick([n + 1, n - 1, n * 3, 1], "badcurve.n")
    elif kind == "n-not-the-order":
        n = ch.pick([q for q in (gc.TOY_PRIMES + PRIMES_3MOD4 + PRIMES_1MOD8) if q != n], "badcurve.n")
    else:
        h = ch.pick([h + 1, h - 1, 2 * h + 1], "badcurve.h")
    w.ctx.log("op", "bad-curve", kind)
    return "Curve:" + kind, lambda _ec: Curve(p, a, b, G, n, h, weakness_check=False), ("refuse",)


BUILDERS: list[tuple[Callable[[W], Op], int]] = [
    (_op_mult, 6), (_op_double, 5), (_op_multi, 5), (_op_prepared, 4), (_op_inverse, 4), (_op_root, 3),
    (_op_codec, 3), (_op_refusal, 3), (_op_bad_curve, 1), (_op_private, 4),
]


# ---------------------------------------------------------------------------
# execution and oracles
# ---------------------------------------------------------------------------
def _execute(w: W, op: Op, first: Any = None, again: bool = False) -> Any:
    """Run one operation against its expectation; returns the canonical answer."""
    ctx = w.ctx
    site, fn, expect = op
    mark = len(w.rng.draws)
    if expect[0] == "refuse":
        try:
            wrong = f"answered {fn(w.ec)!r} for an operand that has no answer"
        except BTClibException as e:
            wrong = ""
            ctx.log("refused", site, type(e).__name__)
        except Exception as e:  # noqa: BLE001
            wrong = f"{type(e).__name__}: {e} instead of a library exception"
        ctx.check(P, "refuses-bad-input", not wrong, f"{site} on {w.label}: {wrong}", site=site)
        if wrong:
            raise RunAborted(f"{site}: {wrong}")
        answer: Any = "refused"
    else:
        with ctx.must_succeed(P, "valid-input-answered", site):
            got = fn(w.ec)
        if expect[0] == "point":
            answer = _ref(got)
            ctx.check(P, "group-law", answer == expect[1], lambda: f"{site} on {w.label}: {got} != reference {expect[1]} (bindings={st.backend()})", site=site)
            w.results = (w.results + [answer])[-6:]
            if answer is None and w.delegated():
                ctx.probe("infinity-on-delegated-arm")
        elif expect[0] == "points":
            answer = [_ref(g) for g in got]
            ctx.check(P, "group-law", answer == expect[1], lambda: f"{site} on {w.label}: {got} != reference {expect[1]} (bindings={st.backend()})", site=site)
        elif expect[0] == "inverse":
            _, want, ops, m = expect
            answer = got
            ctx.check(P, "inverse-exact", got == want, lambda: f"{site}({ops}, {m}) = {got} != {want}", site=site)
            outs = got if isinstance(got, list) else [got]
            ctx.check(P, "inverse-times-operand-is-one", all((r * a - 1) % m == 0 for r, a in zip(outs, ops)), lambda: f"{site}({ops}, {m}) = {got}", site=site)
            if m > 1 and any(n == m - 1 and gcd(1 + v, m) != 1 for n, v in w.rng.draws[mark:]):
                ctx.probe("zero-divisor-fallback")
        elif expect[0] == "root":
            _, a, p = expect
            answer = "root"  # either root is an answer: not compared across repetitions
            ctx.check(P, "root-squares-back", isinstance(got, int) and (got * got - a) % p == 0, lambda: f"{site}({a}, {p}) = {got}", site=site)
        else:
            answer = got
            inv = "codec-round-trip" if site.startswith("codec") else "legendre-exact"
            ctx.check(P, inv, got == expect[1], lambda: f"{site} on {w.label}: {got!r} != {expect[1]!r}", site=site)
    for n, v in w.rng.draws[mark:]:
        if v in (0, n - 1):
            ctx.probe("blinding-draw:" + ("1" if v == 0 else "max"))
    ctx.note("answer", site, answer)
    if again:
        ctx.check(P, "same-answer-after-perturbation", answer == first, lambda: f"{site} on {w.label}: {answer!r} after a perturbation, {first!r} before", site=site)
    return answer


def _perturb(w: W) -> None:
    ctx, ch = w.ctx, w.ch
    kind = ch.pick(["cache-clear", "cache-clear-all", "backend-flip", "rng-mode", "twin-curve"], "perturb")
    if kind == "cache-clear":
        if w.shrunk is not None:
            w.shrunk.new[ch.draw(len(w.shrunk.new), "perturb.which")].cache_clear()
            ctx.fault("cache-clear", "shrunk")
        else:
            ctx.fault("cache-clear", st.clear_cache(ch.draw(16, "perturb.which")))
    elif kind == "cache-clear-all":
        st.clear_all_caches()
        if w.shrunk is not None:
            w.shrunk.clear()
        ctx.fault("cache-clear-all")
    elif kind == "backend-flip":
        if st.bindings_installed():
            st.set_backend(not st.backend())
            ctx.fault("backend-flip", f"serving={st.backend()}")
    elif kind == "rng-mode":
        w.rng.mode = "uniform" if w.rng.mode == "edge" else "edge"
        ctx.fault("rng-mode", w.rng.mode)
    else:
        w.which = 1 - w.which
        ctx.fault("twin-curve", w.which)


def _ops(w: W) -> None:
    ctx, ch = w.ctx, w.ch
    faults = bool(ctx.cfg.get("faults"))
    shrink = ch.draw(4, "shrink") if faults else 0
    if shrink:
        w.shrunk = st.ShrunkCaches(shrink)
        w.shrunk.__enter__()
        ctx.fault("cache-shrink", shrink)
    try:
        n_ops = ch.between(3, max(3, min(40, int(60 / w.unit_ms))), "nops")
        for _ in range(n_ops):
            if faults and w.history and ch.chance(1, 3, "perturb?"):
                _perturb(w)
                for _ in range(1 + ch.draw(2, "repeat.n")):
                    op, first = ch.pick(w.history, "repeat.which")
                    _execute(w, op, first, again=True)
                continue
            op = ch.weighted(BUILDERS, "op")(w)
            answer = _execute(w, op)
            warm = any(c.cache_info().currsize for c in (w.shrunk.new if w.shrunk else [o for _, _, o in st.discover_caches()]))
            ctx.state(f"{op[0]}:{w.kind}:{'warm' if warm else 'cold'}:{st.backend()}:{shrink}")
            w.history = (w.history + [(op, answer)])[-8:]
        if w.shrunk is not None and any(c.cache_info().misses > c.cache_info().currsize for c in w.shrunk.new):
            ctx.probe("eviction")
    finally:
        if w.shrunk is not None:
            w.shrunk.__exit__(None, None, None)


# ---------------------------------------------------------------------------
# threads: one table, several builders
# ---------------------------------------------------------------------------
def _threads(w: W) -> None:
    from btcsim.core.threads import SimThreads, count_steps  # noqa: PLC0415

    ctx, ch, ref = w.ctx, w.ch, w.ref
    if w.ec == secp256k1 and ch.draw(4, "thr.python-arm"):
        st.set_backend(False)  # with the bindings serving no table is ever built
    Q = w.uniform_point("thr.Q")
    G = ref.G
    shared: dict[str, Any] = {}  # what the threads race on: the point and its PreparedPoint

    def aim(at: RefPoint) -> None:
        st.clear_all_caches()
        shared["Q"], shared["prep"] = _lib(at), PreparedPoint(_lib(at), w.ec)

    n_thr = 2 + ch.draw(2, "nthreads")
    lists: list[list[tuple[str, Callable[[], Any], RefPoint]]] = []
    for _ in range(n_thr):
        calls: list[tuple[str, Callable[[], Any], RefPoint]] = []
        for _ in range(1 + ch.draw(3, "ncalls")):
            kind = ch.weighted([("prepared", 4), ("mult-G", 2), ("mult-Q", 1), ("double", 2), ("multi", 2)], "thr.call")
            m, v = w.scalar("thr.m"), w.scalar("thr.v")
            if kind == "prepared":
                calls.append((kind, lambda m=m: shared["prep"].mult(m), ref.mul(m, Q)))
            elif kind == "mult-G":
                calls.append((kind, lambda m=m: mult(m, _lib(G), w.ec), ref.mul(m, G)))
            elif kind == "mult-Q":
                calls.append((kind, lambda m=m: mult(m, shared["Q"], w.ec), ref.mul(m, Q)))
            elif kind == "double":
                calls.append((kind, lambda m=m, v=v: double_mult_var(m, _lib(G), v, shared["Q"], w.ec), ref.multi([m, v], [G, Q])))
            else:
                calls.append((kind, lambda m=m, v=v: multi_mult_var([m, v, 1], [_lib(G), shared["Q"], _lib(G)], w.ec), ref.multi([m, v, 1], [G, Q, G])))
        lists.append(calls)
    # the step estimate comes from the same calls aimed at another point, so that Q's own tables are first built by the threads
    aim(ref.add(Q, G) or G)
    res, est = count_steps(lambda: [fn() for cl in lists for _, fn, _ in cl], dedupe="op")
    if res[0] != "ok":
        raise RunAborted(f"sequential rehearsal raised {res[1]!r}")
    aim(Q)
    strat_kind = ch.weighted([("pct", 5), ("unif", 3), ("stagger", 2)], "strategy")
    strategy: dict[str, Any] = {"kind": strat_kind}
    if strat_kind == "pct":
        strategy["d"] = 1 + ch.draw(3, "pct.d")
    else:
        strategy["p"] = ch.pick([(1, 50), (1, 10), (3, 10)], "p")
    sched = SimThreads(ctx, strategy, dedupe=ch.weighted([("op", 6), ("frame", 3)], "dedupe"), max_steps=400000)
    results: list[list[Any]] = [[] for _ in range(n_thr)]

    def worker(t: int) -> Callable[[], None]:
        def body() -> None:
            for _, fn, _ in lists[t]:
                sched.new_op()
                try:
                    results[t].append(_ref(fn()))
                except Exception as e:  # noqa: BLE001
                    results[t].append(f"EXC:{type(e).__name__}:{e}")

        return body

    for t in range(n_thr):
        sched.spawn(f"T{t}", worker(t))
    if ctx.cfg.get("faults") and ch.draw(2, "chaos"):
        acts = [ch.draw(2, "chaos.act") for _ in range(1 + ch.draw(4, "nchaos"))]

        def chaos() -> None:
            for a in acts:
                sched.yield_point("chaos")
                if a == 0 and st.bindings_installed():
                    st.set_backend(not st.backend())
                    ctx.fault("backend-flip-concurrent")
                else:
                    st.clear_all_caches()
                    ctx.fault("cache-clear-concurrent")

        sched.spawn("chaos", chaos)
    sched.run(est_steps=max(est, 10))
    ctx.log("threads-done", f"steps={sched.steps}", f"switches={ctx.switches}", strat_kind)
    ctx.trace.extend(sched.switch_trace)
    ctx.sample["switch_trace"] = sched.switch_trace[:30]
    if sched.capped:
        raise RunAborted("step cap")
    ctx.check(P, "concurrent-group-law", not sched.deadlock, "all simulated threads blocked", site="deadlock")
    for t in range(n_thr):
        ctx.check(P, "concurrent-group-law", len(results[t]) == len(lists[t]), f"T{t} made {len(results[t])} of {len(lists[t])} calls", site="completes")
        for (kind, _, want), got in zip(lists[t], results[t]):
            ctx.note("thread-answer", t, kind, got)
            ctx.state(f"thr:{kind}:{w.kind}:{strat_kind}")
            ctx.check(P, "concurrent-group-law", got == want, lambda: f"T{t} {kind} on {w.label}: {got} != reference {want}; switches={sched.switch_trace[-6:]}", site=kind)


def run(ctx: Ctx) -> None:
    part = ctx.cfg.get("part", "ops")
    rng = _Rng(ctx, ctx.cfg.get("rng") or ctx.ch.pick(["uniform", "edge"], "rng.mode"))
    rng.install()
    serving = bool(ctx.ch.draw(2, "backend0")) and st.bindings_installed()
    st.set_backend(serving)
    w = W(ctx, rng)
    ctx.log("start", part, w.label, f"bindings={serving}", rng.mode)
    ctx.sample["curve"] = w.label
    if part == "threads":
        _threads(w)
    else:
        _ops(w)


def _plans(tier: str) -> list[Any]:
    from btcsim.core.runner import Plan  # noqa: PLC0415

    return [
        Plan("arith", {"part": "ops", "faults": False, "rng": "uniform"}, share=2.0, chunk=20, label="arith/fault-free"),
        Plan("arith", {"part": "ops", "faults": True}, share=4.0, chunk=20, label="arith/perturbed"),
        Plan("arith", {"part": "threads", "faults": True, "curve": "toy"}, share=1.5, chunk=10, label="arith/threads-toy"),
        Plan("arith", {"part": "threads", "faults": True, "max_bits": 256}, share=1.0, chunk=5, label="arith/threads"),
    ]


CHECKS = {
    "C01": {
        "level": "exploration",
        "plans": _plans,
        "rule": (
            "one evaluation = one seeded run: a drawn curve (toy curve enumerated by the reference, secp256k1, or another catalogued one) "
            "and 3-40 drawn operations (scalar / double / multi-scalar / prepared multiplication, modular inverse and roots, codec, refusals), "
            "each judged by the naive affine law and pow; in the perturbed plan cache clears / shrinks, backend flips, RNG edge draws and a twin "
            "curve object are drawn between operations and earlier operations are repeated; in the thread plans 2-3 simulated threads multiply "
            "the same prepared point / generator from cold caches under a seeded interleaving. distinct = distinct hash of the (operation, "
            "fault, switch) sequence; non-trivial = at least one perturbation fired or >= 2 context switches."
        ),
        "assumptions": [
            "a toy curve is kept when the reference finds a prime-order subgroup and Curve(...) accepts it (a refusal is a probe); points handed over are points of that subgroup",
            "the for-all over curves and scalars is sampled, not decided; multi-scalar term counts <= 2*BOS_COSTER_THRESHOLD",
            "pre-emption only at first-visit line boundaries of btclib frames; calls into C (bindings, lru_cache, pow) are atomic",
        ],
    },
}
