"""W5 `ceremony` -- a multi-party wallet spends (C10, C18, C12, C09).

Actors: a coordinator (Creator / Updater / Combiner / Finalizer / Extractor,
with a `SimDisk`), k cosigner hosts (each a `SoftwareSigner` on its own seed
and its own `SimDisk`), a courier, and the auditor (this module's oracles).

Workload per run (all drawn; `btcsim.gen.wallets`): 1-5 cosigners (their
ECDSA signatures low-R ground, plain RFC6979, or mixed), 1-2 wallets of the
shapes {wpkh, pkh, sh(wpkh), tr(key), bare/sh/wsh/sh(wsh) [sorted]multi
k-of-n with n <= 15, tr(key|NUMS, tree of pk / multi_a / sortedmulti_a
leaves), wsh(miniscript) with older / after / hash leaves}, 1-4 inputs each
updated by its descriptor, `tx_builder.build_psbt` at a drawn fee rate with a
change script or none, PSBT v0 or v2, a sighash type per input. The
serialized PSBT goes to every asked cosigner through the courier; a host
stores it on its disk, (C09) looks at it through a `PsbtView` over that file,
signs, answers; the coordinator holds each answer to the request
(`request_signatures` -> `assert_signatures_only`), combines in arrival
order, retransmits on timeout, reads who answered off `new_signers`; then
`finalize(solver=...)`, `extract_tx`, `verify_transaction` under every flag.
A message-signature sub-flow (BIP137 through the signer, BIP322 through
`bip322.sign`) runs beside it.

Faults (cfg `faults`; kinds and rates drawn per run): courier drop,
duplicate, delay/reorder, corruption of the PSBT bytes in transit; cosigner
crash (signer closed, unsynced inbox lost or torn) and restart with a new
signer; coordinator crash with a lost or torn combined file; short reads,
EIO and truncation of the file under the view; after the ceremony one
tamper of a committed field (C10) and single-bit alterations of the taproot
commitment data (C12). Faults stop at QUIESCE.

Invariants:
- C10 honest-request-signed, honest-answer-accepted, coordinator-recovers,
  liveness (<= 2 rounds after QUIESCE), closure (finalize, extract, engine
  accepts), tamper-rejected (one edit of what >= 1 signature commits to, by
  the commitment table of DESIGN section 3; nothing asserted otherwise),
  message-verifies / message-binds (not another key's address, not another
  message).
- C18 conservation, fee-is-ceil-of-priced-size, change-not-dust,
  change-dropped-only-if-dust, change-at-dust-created, exact-funds-accepted,
  insufficient-funds-refused, fee-floor-on-final-vsize,
  estimate-covers-actual, size-identities (every Tx that flows).
- C12 control-block-proves-leaf (auditor's tree, Updater's field, finalized
  witness), output-key-is-wallets, output-key-equals-reference (sampled),
  output-prvkey-matches, keypath-signature-verifies, altered-proof-rejected
  (control block / leaf script / leaf version / parity / output key, one
  bit), altered-spend-rejected (the same through the engine).
- C09 precomputed-equals-direct, psbt-equals-direct (request and combined),
  from-tx-equals-direct (the signed transaction), view-equals-direct (intact
  file) and view-agrees-or-refuses (file faults).
- C19 (tagged here for W4's check to use) receiver-raises-only-library-errors.
"""

from __future__ import annotations

import hashlib
import io
from copy import deepcopy
from dataclasses import dataclass
from typing import Any, Callable

from btclib import bip322
from btclib.bip32 import bip32
from btclib.descriptors import parse as parse_descriptor
from btclib.ecc import bms, ssa
from btclib.exceptions import BTClibException
from btclib.fee import dust_threshold, fee_from_vsize
from btclib.psbt.psbt import Psbt, combine, ecdsa_sig_hash, extract_tx, finalize, new_signers, taproot_sig_hash
from btclib.psbt.psbt_out import PsbtOut
from btclib.psbt.psbt_view import PsbtView
from btclib.psbt_signer import request_signatures, sign_message
from btclib.script import sig_hash, taproot
from btclib.script.engine import verify_input, verify_transaction
from btclib.script.witness import Witness
from btclib.tx import OutPoint, Tx, TxOut
from btclib.tx_builder import build_psbt

from btcsim.core.ctx import Ctx, RunAborted
from btcsim.core.des import Courier, Sim
from btcsim.gen import wallets as gw
from btcsim.ref import fees as ref_fees
from btcsim.ref import sighash as ref_sighash
from btcsim.ref import taproot as ref_taproot
from btcsim.seams import state as st
from btcsim.seams.disk import SimDisk, SimFile, corrupt_bytes
from btcsim.seams.rng import SimRng

P10, P18, P12, P09, P19, P05 = "C10", "C18", "C12", "C09", "C19", "C05"
ROUND = 150  # retransmission timeout; > two longest delays plus processing
QUIESCE = 300  # no fault is injected from here on
LIB = (BTClibException,)


@dataclass
class Msg:
    kind: str  # "request" | "answer"
    data: bytes
    tainted: bool = False  # oracle only: these bytes, or the request they answer, were altered on the way


class _Answered:
    """The `PsbtSigner` adapter of an answer that has already arrived."""

    def __init__(self, returned: Psbt) -> None:
        self.returned = returned

    def sign_psbt(self, psbt: Psbt) -> Psbt:
        return self.returned


# ---------------------------------------------------------------------------
# the simulated parties
# ---------------------------------------------------------------------------
class World:
    def __init__(self, ctx: Ctx, cer: gw.Ceremony, faulty: bool, direct: Digests) -> None:
        ch = ctx.ch
        self.ctx = ctx
        self.cer = cer
        self.faulty = faulty
        self.direct = direct  # C09: what the hosts' views are compared with
        self.sim = Sim(ctx, max_events=400)
        f = {"drop": 0, "dup": 0, "corrupt": 0, "jitter": 5}
        if faulty:
            f = {
                "drop": ch.pick([0, 150, 400], "f.drop"),
                "dup": ch.pick([0, 200, 500], "f.dup"),
                "corrupt": ch.pick([0, 200, 500], "f.corrupt"),
                "jitter": ch.pick([5, 0, 30, 60], "f.jitter"),
            }
        self.courier = Courier(self.sim, self.deliver, quiesce_at=QUIESCE, corruptor=self.corrupt, min_delay=1, **f)
        # asked: every cosigner a plan needs, and drawn spares among the other key holders
        holders = sorted({c for i in cer.inputs for c in i.wallet.cosigners})
        self.asked = [cer.cosigners[i] for i in holders if i in cer.needed or ch.draw(3, "ask.spare") == 0]
        self.coord = Coordinator(self)
        self.hosts = {c.name: Host(self, c) for c in self.asked}
        if faulty:
            for h in self.hosts.values():
                if ch.draw(4, "f.host-crash?") == 0:
                    at = 1 + ch.draw(QUIESCE - 40, "f.crash-at")
                    self.sim.after(at, "crash", h.crash)
                    self.sim.after(at + 1 + ch.draw(QUIESCE - at - 1, "f.restart-after"), "restart", h.restart)
            if ch.draw(5, "f.coord-crash?") == 0:
                at = 1 + ch.draw(QUIESCE - 40, "f.crash-at")
                self.sim.after(at, "crash", self.coord.crash)
                self.sim.after(at + 1 + ch.draw(30, "f.restart-after"), "restart", self.coord.restart)

    def deliver(self, src: str, dst: str, body: Msg) -> None:
        (self.coord if dst == "coord" else self.hosts[dst]).on_message(src, body)

    def corrupt(self, ch: Any, msg: Msg) -> Msg:
        data, what = corrupt_bytes(ch, msg.data)
        self.ctx.note("corrupted", msg.kind, what)
        return Msg(msg.kind, data, msg.tainted or data != msg.data)

    def attempt(self, honest: bool, inv: str, site: str, fn: Callable[[], Any]) -> Any:
        """Run a receiver's step: on honest bytes it must succeed (C10); on altered bytes it may
        refuse with a library error; anything else it raises is C19's subject, and a refusal too."""
        if honest:
            with self.ctx.must_succeed(P10, inv, site):
                out = fn()
            self.ctx.check(P10, inv, True)  # counted in the evidence
            return out
        try:
            return fn()
        except LIB as e:
            self.ctx.note("refused", site, type(e).__name__, actor=site)
            self.ctx.probe(f"refused-altered:{site}")
        except Exception as e:  # noqa: BLE001
            self.ctx.check(P19, "receiver-raises-only-library-errors", False, f"{site}: {type(e).__name__}: {e}", site=site)
            self.ctx.probe(f"nonlibrary-error-on-altered:{site}")
        return None

    def run(self) -> Psbt:
        self.coord.start()
        self.sim.run()
        ctx = self.ctx
        if self.sim.capped:
            raise RunAborted("event cap reached")
        ctx.probe(f"rounds:{min(self.coord.round, 5)}")
        done_at = self.coord.done_at
        # with no fault, the first round; with faults, two rounds after they stop
        in_time = done_at is not None and (done_at <= QUIESCE + 2 * ROUND if self.faulty else self.coord.round == 1)
        ctx.check(
            P10, "liveness", in_time,
            lambda: f"not every asked cosigner's answer is in (in time): pending {[c.name for c in self.coord.pending()]}, "
            f"done_at={done_at}, rounds={self.coord.round}",
        )
        if self.coord.done_at is None:
            raise RunAborted("ceremony did not complete")
        return self.coord.current


def _codecs(ctx: Ctx, raw: bytes, what: str) -> None:
    """C05, on the PSBTs a real ceremony ships (signatures, taproot derivations, scripts written by the
    library's own Updater and Signers): the octets are a fixed point of parse/serialize, and the base64 and
    JSON forms -- the other two ways such a message is stored or sent -- give the same object back."""
    if not ctx.wants(P05):
        return
    import json  # noqa: PLC0415

    with ctx.must_succeed(P05, "ceremony-psbt-parses", what):
        obj = Psbt.parse(raw)
        again = obj.serialize()
    ctx.check(P05, "psbt-fixed-point", Psbt.parse(again).serialize() == again, lambda: f"{what}: re-serializing twice differs", site=what)
    ctx.check(P05, "psbt-keeps-length", len(again) == len(raw), lambda: f"{what}: {len(raw)} octets in, {len(again)} out", site=what)
    with ctx.must_succeed(P05, "b64-round-trip", what):
        back = Psbt.b64decode(obj.b64encode())
    ctx.check(P05, "b64-round-trip", back == obj and back.serialize() == again, f"{what}: the base64 form decodes to another psbt", site=what)
    with ctx.must_succeed(P05, "json-round-trip", what):
        back = Psbt.from_dict(json.loads(json.dumps(obj.to_dict())))
    ctx.check(P05, "json-round-trip", back == obj and back.serialize() == again, f"{what}: the JSON form decodes to another psbt", site=what)
    ctx.probe("codec-checked:" + what)


class Coordinator:
    name = "coord"

    def __init__(self, world: World) -> None:
        self.w = world
        self.ctx = world.ctx
        self.request: Psbt = world.cer.psbt
        self.request_bytes = self.request.serialize()
        if self.request.version == 0 and any(i.sequence is None for i in self.request.inputs):
            # PENDING-FINDING (C11/C05): a v0 psbt whose input leaves `sequence` unset (build_psbt's documented
            # default) parses back with sequence=0xffffffff, so assert_signatures_only(request,
            # parse(serialize(request))) refuses "sequence was changed". For this input class only, the
            # coordinator holds answers to the request as read back from its own bytes.
            self.request = Psbt.parse(self.request_bytes)
            self.ctx.probe("pending-finding:v0-unset-sequence")
        self.disk = SimDisk(self.ctx)
        self.current: Psbt = self.request
        self.up = True
        self.epoch = 0
        self.round = 0
        self.done_at: int | None = None
        self.clean: set[str] = set()  # volatile: lost in a crash, and everybody is asked again

    def start(self) -> None:
        _codecs(self.ctx, self.request_bytes, "request")
        self.disk.write("request", self.request_bytes)
        self.disk.sync("request")
        self.ctx.log("start", f"asked={[c.name for c in self.w.asked]}", f"bytes={len(self.request_bytes)}", actor=self.name)
        self.tick(self.epoch)

    def pending(self) -> list[gw.Cosigner]:
        # a cosigner has answered when an answer of its own, made from the request as sent, has been merged: one made
        # from a request altered in transit may be acceptable and still sign fewer inputs than it was asked for
        # (thorough tier, run 33187: a derivation index flipped on the way out and flipped back on the way in)
        signed = new_signers(self.request, self.current)
        return [c for c in self.w.asked if c.fingerprint not in signed or c.name not in self.clean]

    def tick(self, epoch: int) -> None:
        if not self.up or epoch != self.epoch or self.done_at is not None:
            return
        todo = self.pending()
        self.round += 1
        self.ctx.state(f"round{min(self.round, 6)}:{''.join('0' if c in todo else '1' for c in self.w.asked)}")
        for c in todo:
            self.w.courier.send(self.name, c.name, Msg("request", self.request_bytes), "request")
        if self.w.sim.now < QUIESCE + 2 * ROUND:
            self.w.sim.after(ROUND, "timer", lambda: self.tick(epoch))

    def on_message(self, src: str, msg: Msg) -> None:
        if not self.up:
            self.ctx.log("down-drop", src, actor=self.name)
            return

        def merge() -> Psbt:
            returned = Psbt.parse(msg.data)
            checked = request_signatures(_Answered(returned), self.request)  # type: ignore[arg-type]
            return combine([self.current, checked])

        merged = self.w.attempt(not msg.tainted, "honest-answer-accepted", self.name, merge)
        if merged is None:
            return
        if msg.tainted:
            self.ctx.probe("altered-answer-accepted")
        else:
            self.clean.add(src)
        self.current = merged
        if not msg.tainted:
            _codecs(self.ctx, msg.data, "answer")
            _codecs(self.ctx, merged.serialize(), "combined")
        self.disk.write("combined", merged.serialize())
        if not self.w.faulty or self.ctx.ch.draw(3, "coord.sync?"):
            self.disk.sync("combined")
        self.ctx.log("merged", src, hashlib.sha256(self.disk.read("combined")).hexdigest()[:12], actor=self.name)
        if self.done_at is None and not self.pending():
            self.done_at = self.w.sim.now
            self.ctx.log("complete", f"round={self.round}", actor=self.name)

    def crash(self) -> None:
        if self.done_at is not None or not self.up:
            return
        self.up = False
        self.epoch += 1
        self.ctx.fault("coordinator-crash", actor=self.name)
        self.disk.crash()
        self.clean = set()

    def restart(self) -> None:
        if self.up:
            return
        self.up = True
        with self.ctx.must_succeed(P10, "coordinator-recovers", self.name):
            self.request = Psbt.parse(self.disk.read("request"))
        self.current = self.request
        if self.disk.exists("combined"):
            stored = self.disk.read("combined")

            def reload() -> Psbt:
                return request_signatures(_Answered(Psbt.parse(stored)), self.request)  # type: ignore[arg-type]

            # what survived the crash may be torn: held to the request like any other answer
            loaded = self.w.attempt(False, "coordinator-recovers", self.name, reload)
            if loaded is not None:
                self.current = loaded
                self.ctx.probe("combined-file-survived")
        self.ctx.log("restart", f"pending={[c.name for c in self.pending()]}", actor=self.name)
        self.tick(self.epoch)


class Host:
    """A cosigner's machine: a signer on its seed, an inbox on its disk."""

    def __init__(self, world: World, cos: gw.Cosigner) -> None:
        self.w = world
        self.ctx = world.ctx
        self.cos = cos
        self.name = cos.name
        self.signer = cos.signer()
        self.disk = SimDisk(self.ctx)
        self.up = True
        self.epoch = 0
        self.inspected = False

    def on_message(self, src: str, msg: Msg) -> None:
        if not self.up:
            self.ctx.log("down-drop", src, actor=self.name)
            return
        self.disk.write("inbox", msg.data)
        if not self.w.faulty or self.ctx.ch.draw(3, "host.sync?"):
            self.disk.sync("inbox")
        epoch = self.epoch
        self.w.sim.after(1 + self.ctx.ch.draw(4, "host.work"), "work", lambda: self.work(epoch))

    def work(self, epoch: int) -> None:
        if not self.up or epoch != self.epoch:
            return
        data = self.disk.read("inbox")
        pristine = data == self.w.coord.request_bytes
        if self.ctx.wants(P09) and pristine and not self.inspected:
            self.inspect(data)
        signed = self.w.attempt(pristine, "honest-request-signed", self.name, lambda: self.signer.sign_psbt(Psbt.parse(data)))
        if signed is None:
            return
        if not pristine:
            self.ctx.probe("altered-request-signed")
        answer = signed.serialize()
        self.ctx.log("signed", hashlib.sha256(answer).hexdigest()[:12], actor=self.name)
        self.w.courier.send(self.name, "coord", Msg("answer", answer, not pristine), "answer")

    def inspect(self, data: bytes) -> None:
        """C09: the digests a memory-poor signer would compute, through a view over the stored file."""
        ctx, ch = self.ctx, self.ctx.ch
        kw: dict[str, Any] = {}
        kind = ch.draw(4, "file.fault") if self.w.faulty else 0
        if kind == 1:
            kw["short_reads"] = True
        elif kind == 2:
            kw["eio_on_read"] = 1 + ch.draw(60, "file.eio-at")
        elif kind == 3:
            data = data[: ch.draw(len(data), "file.cut")]
            ctx.fault("file-truncated", len(data))
        self.inspected = True
        stream: Any = SimFile(data, ctx, name=f"{self.name}/inbox", **kw)
        if kind and ch.draw(2, "file.buffered"):
            # what `open(path, "rb")` hands out: a buffer over the raw file, which loops over short reads
            stream = io.BufferedReader(stream, buffer_size=ch.pick([16, 64, 4096], "file.buffer"))
            ctx.probe("view-over-buffered-file")
        try:
            view = PsbtView(stream)
        except (*LIB, OSError) as e:
            ctx.check(P09, "view-equals-direct", kind != 0, f"{self.name}: the view over an intact file refused: {type(e).__name__}: {e}", site="cosigner")
            ctx.probe("view-refused-under-file-fault")
            return
        _view_digests(ctx, view, self.w.cer, self.w.direct, kind == 0, "cosigner")

    def crash(self) -> None:
        if not self.up:
            return
        self.signer.close()
        self.up = False
        self.epoch += 1
        self.ctx.fault("cosigner-crash", actor=self.name)
        self.disk.crash()

    def restart(self) -> None:
        if self.up:
            return
        self.up = True
        self.signer = self.cos.signer()
        self.ctx.log("restart", actor=self.name)
        if self.disk.exists("inbox"):
            epoch = self.epoch
            self.w.sim.after(1, "work", lambda: self.work(epoch))


def _leaf_hashes(cer: gw.Ceremony, spec: gw.InputSpec) -> list[bytes]:
    """b"" (ECDSA, or the taproot key path) and the tapleaf hash of the planned leaf and one more."""
    if spec.wallet.shape != "tr-tree":
        return [b""]
    leaves = spec.wallet.leaves()
    picks = sorted({spec.path.leaf or 0, (spec.index + 1) % len(leaves)})
    return [b""] + [taproot.leaf_hash(gw.TAPSCRIPT, taproot.serialize(gw.leaf_script(spec.wallet, cer.cosigners, leaves[n], spec.index))) for n in picks]


# ---------------------------------------------------------------------------
# the run
# ---------------------------------------------------------------------------
def run(ctx: Ctx) -> None:
    ch = ctx.ch
    SimRng(ctx, mode=ch.pick(["uniform", "edge"], "rng.mode")).install()
    serving = bool(ch.draw(6, "backend")) and st.bindings_installed()
    st.set_backend(serving)
    faulty = bool(ctx.cfg.get("faults"))
    cosigners = gw.make_cosigners(ch, 1 + ch.draw(5, "n.cosigners"), ctx.cfg.get("ecdsa"))
    shapes = list(ctx.cfg.get("shapes") or gw.SHAPES)
    first = list(ctx.cfg.get("first") or shapes)
    wallets = [gw.make_wallet(ch, first[ch.draw(len(first), "shape")], cosigners, 0)]
    if ch.draw(3, "second-wallet?") == 2:
        wallets.append(gw.make_wallet(ch, shapes[ch.draw(len(shapes), "shape")], cosigners, 20))
    ctx.log("start", f"bindings={serving}", f"faulty={faulty}", [w.shape for w in wallets], f"cosigners={''.join('g' if c.grind else 'p' for c in cosigners)}")
    with ctx.must_succeed(P18, "funded-psbt-builds", "build_psbt"):
        # the Python arm signs ~15x slower: two inputs there keep the slowest runs near a second
        cer = gw.fund_and_build(ch, wallets, cosigners, max_inputs=4 if serving else 2)
    if ctx.wants(P12):
        # every taproot script the ceremony is about to spend, before it tries
        seen: list[tuple[int, int]] = []
        for spec in cer.inputs:
            at = (wallets.index(spec.wallet), spec.index)
            if spec.wallet.kind == "taproot" and at not in seen:
                seen.append(at)
                _taproot_wallet(ctx, cosigners, spec.wallet, spec.index, faulty)
    for spec, psbt_in in zip(cer.inputs, cer.psbt.inputs, strict=True):
        ctx.probe(f"shape:{spec.wallet.shape}")
        ctx.probe(f"path:{spec.path.label.split(':')[0]}" if spec.wallet.shape != "tr-tree" else f"path:tr-{'key' if spec.path.leaf is None else spec.wallet.leaves()[spec.path.leaf].kind}")
        ctx.probe(f"sighash:{psbt_in.sig_hash_type}")
    ctx.probe(f"psbt-v{cer.psbt.version}")
    ctx.sample["shapes"] = [s.wallet.shape for s in cer.inputs]
    ctx.log("funded", f"in={len(cer.inputs)}", f"out={len(cer.psbt.outputs)}", f"rate={cer.fee_rate.sats_per_kvbyte}", f"fee={cer.funded.fee}", f"v{cer.psbt.version}", cer.psbt.tx.id)

    _funding_invariants(ctx, cer)
    direct = _digests_before(ctx, cer) if ctx.wants(P09) else {}
    signed = World(ctx, cer, faulty, direct).run()
    with ctx.must_succeed(P10, "closure", "finalize"):
        final = finalize(signed, solver=cer.solver)
    with ctx.must_succeed(P10, "closure", "extract_tx"):
        tx = extract_tx(final)
    with ctx.must_succeed(P10, "closure", "verify_transaction"):
        verify_transaction(cer.prevouts, tx, gw.STANDARD_FLAGS)
    ctx.check(P10, "closure", True)  # counted in the evidence
    ctx.log("accepted", tx.id, f"weight={tx.weight}")
    if ctx.wants(P10):
        _library_satisfier(ctx, cer, signed, tx)
    _signed_invariants(ctx, cer, tx)
    if ctx.wants(P10):
        _tamper(ctx, cer, tx)
        _messages(ctx, cer)
    if ctx.wants(P12):
        _taproot_spends(ctx, cer, tx, faulty)
    if ctx.wants(P09):
        _digests_after(ctx, cer, signed, tx, direct, faulty)


def _library_satisfier(ctx: Ctx, cer: gw.Ceremony, signed: Psbt, tx: Tx) -> None:
    """The witness of a taproot script-path input as the library's own satisfier writes it (`Descriptor.satisfy`:
    which leaf, which signature against which key, the control block), in place of the harness's: the engine accepts
    that too. Asked only where the offered keys sit in the planned leaf and in no other: `satisfy` takes the first
    leaf the signatures satisfy, and a signature is made for one leaf."""
    for i, spec in enumerate(cer.inputs):
        if spec.wallet.shape != "tr-tree" or spec.path.leaf is None:
            continue
        leaf, _, script, _ = cer.planned_leaf(spec)
        others = {ref for n, lf in enumerate(spec.wallet.leaves()) if n != spec.path.leaf for ref in lf.keys}
        if any(ref in others for ref in leaf.keys) or spec.wallet.internal in leaf.keys:
            ctx.probe("satisfier-not-asked:key-in-two-leaves")
            continue
        lh = taproot.leaf_hash(gw.TAPSCRIPT, script)
        offered = {k[:32]: sig for k, sig in signed.inputs[i].taproot_script_spend_signatures.items() if k[32:] == lh}
        with ctx.must_succeed(P10, "closure", "Descriptor.satisfy"):
            script_sig, witness = spec.wallet.descriptor.satisfy(offered, spec.index)
        other = deepcopy(tx)
        other.vin[i].script_sig, other.vin[i].script_witness = script_sig, witness
        with ctx.must_succeed(P10, "closure", "verify_input/satisfier"):
            verify_input(cer.prevouts, other, i, gw.STANDARD_FLAGS)
        ctx.probe(f"library-satisfier-accepted:{leaf.kind}")


# ---------------------------------------------------------------------------
# C18
# ---------------------------------------------------------------------------
def _sizes(ctx: Ctx, tx: Tx, what: str) -> None:
    full, stripped = len(tx.serialize(include_witness=True)), len(tx.serialize(include_witness=False))
    ctx.check(P18, "size-identities", tx.size == full, f"{what}: size {tx.size}, serialization {full}", site="size")
    ctx.check(P18, "size-identities", tx.weight == 3 * stripped + full, f"{what}: weight {tx.weight}, 3*{stripped}+{full}", site="weight")
    ctx.check(P18, "size-identities", tx.vsize == ref_fees.ceil_div4(3 * stripped + full), f"{what}: vsize {tx.vsize}, weight {3 * stripped + full}", site="vsize")


def _funding_invariants(ctx: Ctx, cer: gw.Ceremony) -> None:
    if not ctx.wants(P18):
        return
    ch = ctx.ch
    funded, psbt, rate = cer.funded, cer.funded.psbt, cer.fee_rate.sats_per_kvbyte
    total_in = cer.total_in
    total_out = sum(o.value for o in psbt.tx.vout)
    paid = sum(o.value for o in cer.payments)
    for spec in cer.inputs:
        _sizes(ctx, spec.prev_tx, "funding tx")
    _sizes(ctx, psbt.tx, "unsigned tx")
    ctx.check(P18, "conservation", total_in == total_out + funded.fee, f"in {total_in} != out {total_out} + fee {funded.fee}")
    ctx.check(P18, "conservation", total_in == paid + funded.fee + funded.change, f"in {total_in} != paid {paid} + fee {funded.fee} + change {funded.change}")
    kept = [(o.value, o.script_pub_key.script) for k, o in enumerate(psbt.tx.vout) if k != funded.change_index]
    ctx.check(P18, "conservation", kept == [(o.value, o.script_pub_key.script) for o in cer.payments], lambda: f"the outputs beside the change (index {funded.change_index}) are not the payments asked for, in order: {[v for v, _ in kept][:8]} against {[o.value for o in cer.payments][:8]}", site="payments-kept")
    if funded.change_index is not None:
        ctx.check(P18, "conservation", psbt.tx.vout[funded.change_index].value == funded.change and psbt.tx.vout[funded.change_index].script_pub_key.script == cer.change_script, lambda: f"output {funded.change_index} holds {psbt.tx.vout[funded.change_index].value}, the change is {funded.change}", site="change-output")
    priced = psbt.vsize_estimate(cer.sizer)
    script = cer.change_script
    if funded.change_index is not None:
        assert script is not None
        ctx.probe("change-created")
        ctx.check(P18, "fee-is-ceil-of-priced-size", funded.fee == ref_fees.ceil_fee(rate, priced), lambda: f"fee {funded.fee}, ceil({rate}*{priced}/1000) = {ref_fees.ceil_fee(rate, priced)}")
        ctx.check(P18, "change-not-dust", funded.change >= ref_fees.dust_threshold(script), lambda: f"change {funded.change} below dust {ref_fees.dust_threshold(script)} for {script.hex()}")
        ctx.check(P18, "change-not-dust", dust_threshold(script) == ref_fees.dust_threshold(script), lambda: f"dust_threshold {dust_threshold(script)}, Core's formula {ref_fees.dust_threshold(script)}", site="dust_threshold")
    else:
        ctx.check(P18, "fee-is-ceil-of-priced-size", funded.fee >= ref_fees.ceil_fee(rate, priced), lambda: f"fee {funded.fee} below ceil({rate}*{priced}/1000)", site="no-change")
        if script is not None:
            ctx.probe("change-dropped-as-dust")
            with_change = deepcopy(psbt)
            with_change.outputs.append(PsbtOut(amount=0, script_pub_key=script))
            would_be = total_in - paid - ref_fees.ceil_fee(rate, with_change.vsize_estimate(cer.sizer))
            ctx.check(P18, "change-dropped-only-if-dust", would_be < ref_fees.dust_threshold(script), lambda: f"a change of {would_be} (dust is {ref_fees.dust_threshold(script)}) was left to the fee")
    ctx.check(P18, "fee-is-ceil-of-priced-size", fee_from_vsize(priced, cer.fee_rate) == ref_fees.ceil_fee(rate, priced), lambda: f"fee_from_vsize({priced}, {rate}) = {fee_from_vsize(priced, cer.fee_rate)}", site="fee_from_vsize")
    if ch.draw(3, "funds.boundary?"):
        return
    # the boundary of "inputs that cannot cover the outputs and fee", found by asking once and moving to it
    ins = [deepcopy(i) for i in psbt.inputs]
    pay = list(cer.payments[:-1])
    last = cer.payments[-1]
    kw: dict[str, Any] = {"lock_time": cer.lock_time, "sizer": cer.sizer}
    owed = ref_fees.ceil_fee(rate, build_psbt(ins, cer.payments, cer.fee_rate, **kw).psbt.vsize_estimate(cer.sizer))
    exact = total_in - owed - sum(o.value for o in pay)
    with ctx.must_succeed(P18, "exact-funds-accepted", "build_psbt"):
        built = build_psbt(ins, [*pay, TxOut(exact, last.script_pub_key)], cer.fee_rate, **kw)
    ctx.check(P18, "exact-funds-accepted", built.fee == owed and built.change_index is None, f"fee {built.fee}, owed {owed}")
    short = 1 + ch.draw(3, "funds.short") if rate else total_in  # a zero rate owes nothing: only outputs above the inputs are short
    try:
        over = build_psbt(ins, [*pay, TxOut(exact + short, last.script_pub_key)], cer.fee_rate, **kw)
    except LIB:
        ctx.fault("funds-short")
    else:
        ctx.check(P18, "insufficient-funds-refused", False, f"inputs {total_in}, outputs {total_in - owed + short}, fee owed {owed}: built with fee {over.fee}")
    if script is None:
        return
    # the same boundary for a caller who offers a change script: what is left is nothing (or one satoshi short of
    # nothing), the change is dropped, and the fee owed is that of the transaction without it
    with ctx.must_succeed(P18, "exact-funds-accepted", "build_psbt+change-script"):
        built = build_psbt(ins, [*pay, TxOut(exact, last.script_pub_key)], cer.fee_rate, script, **kw)
    ctx.check(P18, "exact-funds-accepted", built.fee == owed and built.change_index is None, f"with a change script offered: fee {built.fee}, owed {owed}, change {built.change}", site="change-script")
    try:
        over = build_psbt(ins, [*pay, TxOut(exact + 1, last.script_pub_key)], cer.fee_rate, script, **kw) if rate else None
    except LIB:
        ctx.fault("funds-short")
    else:
        ctx.check(P18, "insufficient-funds-refused", over is None, lambda: f"with a change script offered: inputs {total_in}, outputs {total_in - owed + 1}, fee owed {owed}: built with fee {over.fee}", site="change-script")
    # and the boundary of dust: a change worth exactly the threshold is created, one satoshi less is left to the fee
    with_change = deepcopy(psbt)
    if funded.change_index is None:
        with_change.outputs.append(PsbtOut(amount=0, script_pub_key=script))
    fee_c = ref_fees.ceil_fee(rate, with_change.vsize_estimate(cer.sizer))
    dust = ref_fees.dust_threshold(script)
    at_dust = total_in - fee_c - dust - sum(o.value for o in pay)
    for delta, inv in ((0, "change-at-dust-created"), (1, "change-dropped-only-if-dust")):
        with ctx.must_succeed(P18, inv, "build_psbt"):
            built = build_psbt(ins, [*pay, TxOut(at_dust + delta, last.script_pub_key)], cer.fee_rate, script, **kw)
        want = (fee_c, dust) if delta == 0 else (total_in - at_dust - 1 - sum(o.value for o in pay), 0)
        ctx.check(P18, inv, (built.fee, built.change) == want, lambda: f"would-be change {dust - delta} (dust {dust}): fee {built.fee}, change {built.change}; expected {want}", site="boundary")
    ctx.probe("dust-boundary-probed")


def _signed_invariants(ctx: Ctx, cer: gw.Ceremony, tx: Tx) -> None:
    if not ctx.wants(P18):
        return
    rate = cer.fee_rate.sats_per_kvbyte
    _sizes(ctx, tx, "signed tx")
    fee = cer.total_in - sum(o.value for o in tx.vout)
    ctx.check(P18, "conservation", fee == cer.funded.fee, f"extracted tx pays {fee}, funded fee {cer.funded.fee}", site="extracted")
    ctx.check(P18, "fee-floor-on-final-vsize", fee >= ref_fees.ceil_fee(rate, tx.vsize), lambda: f"fee {fee} below ceil({rate}*{tx.vsize}/1000) = {ref_fees.ceil_fee(rate, tx.vsize)}")
    estimate = cer.psbt.weight_estimate(cer.sizer)
    ctx.check(P18, "estimate-covers-actual", estimate >= tx.weight, lambda: f"estimated weight {estimate} < signed weight {tx.weight} ({[s.wallet.shape for s in cer.inputs]})")
    if not cer.needs_sizer:
        ctx.check(P18, "estimate-covers-actual", cer.psbt.estimated_weight >= tx.weight, lambda: f"estimated_weight {cer.psbt.estimated_weight} < signed weight {tx.weight}", site="property")
    ctx.probe(f"estimate-slack:{min((estimate - tx.weight) // 4, 8)}")


# ---------------------------------------------------------------------------
# C10: one tamper, by the commitment table
# ---------------------------------------------------------------------------
def _commitments(cer: gw.Ceremony, n_out: int) -> list[tuple[str, int, bool, bool]]:
    """(kind, base type, anyone-can-pay, blind) per input. Unset means ALL (for taproot DEFAULT: the same
    commitments). Blind is the legacy SIGHASH_SINGLE with no output of its index: the digest is the constant 1."""
    out = []
    for j, (spec, psbt_in) in enumerate(zip(cer.inputs, cer.psbt.inputs, strict=True)):
        t = psbt_in.sig_hash_type or sig_hash.ALL
        kind, base = spec.wallet.kind, t & 3
        out.append((kind, base, bool(t & sig_hash.ANYONECANPAY), kind == "legacy" and base == sig_hash.SINGLE and j >= n_out))
    return out


def _flip(data: bytes, bit: int) -> bytes:
    b = bytearray(data)
    b[bit // 8] ^= 1 << (bit % 8)
    return bytes(b)


def _push_ranges(script_sig: bytes) -> list[tuple[int, int]]:
    """(offset, length) of the data of every push of a push-only script_sig."""
    out, i = [], 0
    while i < len(script_sig):
        op = script_sig[i]
        i += 1
        n = 0
        if 0 < op <= 75:
            n = op
        elif op in (76, 77):
            w = 1 if op == 76 else 2
            n = int.from_bytes(script_sig[i:i + w], "little")
            i += w
        if n:
            out.append((i, n))
        i += n
    return out


def _spk_payload(script: bytes) -> tuple[int, int]:
    """(offset, length) of the hash or key a standard script_pub_key commits to."""
    if script[:2] in (b"\x00\x14", b"\x00\x20", b"\x51\x20"):
        return 2, len(script) - 2
    if script[:3] == b"\x76\xa9\x14":
        return 3, 20
    if script[:2] == b"\xa9\x14":
        return 2, 20
    return 2, 33  # bare multisig: OP_k, then the first key


def _tamper(ctx: Ctx, cer: gw.Ceremony, tx: Tx) -> None:
    ch = ctx.ch
    n_in, n_out = len(tx.vin), len(tx.vout)
    types = _commitments(cer, n_out)
    bad, prevouts = deepcopy(tx), list(cer.prevouts)
    i, o = ch.draw(n_in, "tamper.input"), ch.draw(n_out, "tamper.output")
    kind = ch.pick(["output-amount", "spent-amount", "output-script", "sequence", "outpoint", "spent-script", "witness-or-scriptsig", "version", "lock-time", "output-added"], "tamper.kind")
    others = [t for j, t in enumerate(types) if j != i]
    sees_all_inputs = any(k == "taproot" and not acp for k, _, acp, _ in types)  # sha_amounts, sha_scriptpubkeys
    outputs_committed = any(base == sig_hash.ALL or (base == sig_hash.SINGLE and j == o) for j, (_, base, _, _) in enumerate(types))
    own = not types[i][3]
    if kind == "output-amount":
        bad.vout[o] = TxOut(tx.vout[o].value + (1 if tx.vout[o].value < 1000 or ch.draw(2, "tamper.up") else -1), tx.vout[o].script_pub_key)
        committed = outputs_committed
    elif kind == "output-script":
        script = tx.vout[o].script_pub_key.script
        bad.vout[o] = TxOut(tx.vout[o].value, _flip(script, 16 + ch.draw(8 * (len(script) - 3), "tamper.bit")))
        committed = outputs_committed
    elif kind == "output-added":
        bad.vout.append(TxOut(0, b"\x6a"))
        committed = any(base == sig_hash.ALL for _, base, _, _ in types)
    elif kind == "spent-amount":
        prevouts[i] = TxOut(prevouts[i].value + (1 if ch.draw(2, "tamper.up") else -1), prevouts[i].script_pub_key)
        committed = types[i][0] != "legacy" or sees_all_inputs
    elif kind == "spent-script":
        script = prevouts[i].script_pub_key.script
        at, n = _spk_payload(script)
        prevouts[i] = TxOut(prevouts[i].value, _flip(script, 8 * at + ch.draw(8 * n, "tamper.bit")))
        # a hash or an output key stops matching whatever was signed; a bare multisig key is held by the digest alone
        committed = cer.inputs[i].wallet.shape != "multi" or own or sees_all_inputs
    elif kind == "sequence":
        bad.vin[i].sequence = tx.vin[i].sequence ^ (1 << ch.draw(32, "tamper.bit"))
        committed = own or any(not blind and not acp and (k == "taproot" or base == sig_hash.ALL) for k, base, acp, blind in others)
    elif kind == "outpoint":
        op = tx.vin[i].prev_out
        bad.vin[i].prev_out = OutPoint(_flip(op.tx_id, ch.draw(256, "tamper.bit")), op.vout) if ch.draw(2, "tamper.txid") else OutPoint(op.tx_id, op.vout ^ 1)
        committed = own or any(not blind and not acp for _, _, acp, blind in others)
    elif kind == "version":
        bad.version = tx.version ^ (1 << ch.draw(31, "tamper.bit"))
        committed = any(not blind for _, _, _, blind in types)
    elif kind == "lock-time":
        bad.lock_time = tx.lock_time ^ (1 << ch.draw(32, "tamper.bit"))
        committed = any(not blind for _, _, _, blind in types)
    else:
        stack = [(n, e) for n, e in enumerate(tx.vin[i].script_witness.stack) if e]
        pushes = _push_ranges(tx.vin[i].script_sig)
        pick = ch.draw(len(stack) + len(pushes), "tamper.element")
        if pick < len(stack):
            n, e = stack[pick]
            elements = list(tx.vin[i].script_witness.stack)
            elements[n] = _flip(e, ch.draw(8 * len(e), "tamper.bit"))
            bad.vin[i].script_witness = Witness(elements)
        else:
            at, n = pushes[pick - len(stack)]
            bad.vin[i].script_sig = _flip(tx.vin[i].script_sig, 8 * at + ch.draw(8 * n, "tamper.bit"))
        committed = own  # a blind signature's own type byte may move within SINGLE and still verify
    ctx.fault(f"tamper-{kind}", f"input={i} output={o} committed={committed}")
    try:
        verify_transaction(prevouts, bad, gw.STANDARD_FLAGS, False)
        verdict = "accepted"
    except LIB as e:
        verdict = f"rejected {type(e).__name__}"
    except Exception as e:  # noqa: BLE001
        verdict = f"non-library {type(e).__name__}: {e}"
    ctx.note("tamper-verdict", kind, verdict.split(" ")[0])
    if not committed:
        ctx.probe(f"uncommitted-tamper-{verdict.split(' ')[0]}")
        return
    ctx.check(
        P10, "tamper-rejected", verdict.startswith("rejected"),
        lambda: f"{kind} (input {i}, output {o}) is committed to and the engine {verdict}; types {types}, shapes {[s.wallet.shape for s in cer.inputs]}", site=kind,
    )


# ---------------------------------------------------------------------------
# C10: message signatures bind to their address
# ---------------------------------------------------------------------------
def _messages(ctx: Ctx, cer: gw.Ceremony) -> None:
    ch = ctx.ch
    cos = cer.cosigners
    holder = cos[ch.draw(len(cos), "msg.holder")]
    acct, index = 9, ch.draw(4, "msg.index")
    msg = ch.nbytes(ch.draw(40, "msg.len"), "msg")
    key = holder.key_expr(acct)
    other_key = cos[(holder.index + 1) % len(cos)].key_expr(acct + (1 if len(cos) == 1 else 0))
    fn = ch.pick(["pkh({})", "wpkh({})", "sh(wpkh({}))", "tr({})"], "msg.address-type")
    addr = parse_descriptor(fn.format(key)).address(index)
    other = parse_descriptor(fn.format(other_key)).address(index)
    path = holder.leaf_path(acct, 0, index)
    ctx.probe(f"message:{fn.split('(')[0]}")
    if fn == "pkh({})" and ch.draw(2, "msg.bip137"):
        with ctx.must_succeed(P10, "message-verifies", "bip137"):
            sig: Any = sign_message(holder.signer(), msg, path, addr)  # verifies against addr itself
        verify: Callable[[bytes, str], bool] = lambda m, a: bms.verify(m, a, sig)  # noqa: E731
    else:
        with ctx.must_succeed(P10, "message-verifies", "bip322"):
            sig = bip322.sign(msg, bip32.derive(holder.xprv, path), addr).b64encode()
        verify = lambda m, a: bip322.verify(m, a, sig)  # noqa: E731
    ctx.log("message-signed", fn, hashlib.sha256(str(sig).encode()).hexdigest()[:12], actor=holder.name)
    with ctx.must_succeed(P10, "message-verifies", "verify"):
        good, alien, reworded = verify(msg, addr), verify(msg, other), verify(msg + b"!", addr)
    ctx.check(P10, "message-verifies", good is True, f"{fn}: the signature does not verify for its own address {addr}")
    ctx.check(P10, "message-binds", alien is False, f"{fn}: a signature for {addr} verifies for another key's address {other}", site="address")
    ctx.check(P10, "message-binds", reworded is False, f"{fn}: a signature verifies for another message", site="message")
    if fn == "wpkh({})":
        _proof_of_funds(ctx, msg, addr, bip32.derive(holder.xprv, path), bip32.derive(cos[(holder.index + 1) % len(cos)].xprv, cos[(holder.index + 1) % len(cos)].leaf_path(acct + (1 if len(cos) == 1 else 0), 0, index)))


def _proof_of_funds(ctx: Ctx, msg: bytes, addr: str, owner_xprv: str, forger_xprv: str) -> None:
    """BIP322's proof-of-funds variant (the signature is a finalized psbt) against a dishonest prover:
    the forger builds the to_sign of the OWNER's challenge, names its own p2wpkh output as what input 0
    spends, and signs with its own key. Every field of that psbt is the forger's to write; the verifier
    rebuilds to_spend from the message and the address, so the proof must be refused."""
    from btclib.b32 import p2wpkh  # noqa: PLC0415
    from btclib.ecc import dsa  # noqa: PLC0415
    from btclib.script import ScriptPubKey  # noqa: PLC0415
    from btclib.script.witness import Witness  # noqa: PLC0415
    from btclib.to_prv_key import prv_keyinfo_from_prv_key  # noqa: PLC0415
    from btclib.to_pub_key import pub_keyinfo_from_key  # noqa: PLC0415

    def prove(signer_xprv: str) -> str:
        signer_out = TxOut(0, ScriptPubKey.from_address(p2wpkh(signer_xprv)))
        psbt = bip322.to_sign_psbt(msg, addr)
        psbt.inputs[0].non_witness_utxo = None
        psbt.inputs[0].witness_utxo = signer_out
        q = prv_keyinfo_from_prv_key(signer_xprv)[0]
        pub_key = pub_keyinfo_from_key(signer_xprv, compressed=True)[0]
        digest = sig_hash.from_tx([signer_out], psbt.tx, 0, sig_hash.ALL)
        psbt.inputs[0].final_script_witness = Witness([dsa.sign_(digest, q).serialize() + b"\x01", pub_key])
        return bip322.Sig(Psbt.parse(psbt.serialize())).b64encode()

    with ctx.must_succeed(P10, "message-verifies", "bip322-proof-of-funds"):
        honest = prove(owner_xprv)
        good = bip322.verify(msg, addr, honest)
    ctx.check(P10, "message-verifies", good is True, f"an honest proof of funds does not verify for {addr}", site="bip322-proof-of-funds")
    with ctx.must_succeed(P10, "message-binds", "forged-proof-of-funds"):
        forged = prove(forger_xprv)
        accepted = bip322.verify(msg, addr, forged)
    ctx.fault("forged-proof-of-funds")
    ctx.check(P10, "message-binds", accepted is False, f"a proof of funds signed only by another key verifies for {addr}", site="forged-proof-of-funds")


# ---------------------------------------------------------------------------
# C12
# ---------------------------------------------------------------------------
def _proof_verdict(ctx: Ctx, q: bytes, script: bytes, control: bytes, what: str) -> None:
    """An altered (key, script, control block) triple: False or a library refusal, nothing else."""
    try:
        answer: Any = taproot.check_output_pubkey(q, script, control)
    except LIB as e:
        answer = type(e).__name__
        ctx.probe("altered-proof-refused")
    except Exception as e:  # noqa: BLE001
        answer = f"non-library {type(e).__name__}: {e}"
    ctx.check(P12, "altered-proof-rejected", answer is False or (isinstance(answer, str) and not answer.startswith("non-library")), lambda: f"{what}: check_output_pubkey answered {answer}", site=what.split(" ")[0])


def _taproot_wallet(ctx: Ctx, cos: list[gw.Cosigner], w: gw.WalletSpec, index: int, faulty: bool) -> None:
    """What a taproot wallet commits to, before anything is spent: needs no ceremony to have worked."""
    ch = ctx.ch
    with ctx.must_succeed(P12, "output-key-is-wallets", "descriptor"):
        q = w.descriptor.script_pub_key(index).script[2:]
    x_only = gw.internal_key(w, cos, index)
    tree = gw.script_tree(w, cos, index) if w.tree is not None else None
    # the internal key in a drawn accepted spelling
    if w.internal is None:
        internal: Any = ch.pick([None, b"\x02" + x_only, (b"\x02" + x_only).hex()], "tr.nums-spelling") if tree is not None else b"\x02" + x_only
    else:
        sec = cos[w.internal[0]].pub_key(w.internal[1], 0, index)
        point = ref_taproot.lift_x(int.from_bytes(x_only, "big"))
        assert point is not None
        y = point[1] if (sec[0] == 2) == (point[1] % 2 == 0) else ref_taproot.P - point[1]
        # (32 bare bytes are a *private* key to `Key`, so the x-only form is not among them)
        internal = ch.pick([sec, sec.hex(), b"\x04" + x_only + y.to_bytes(32, "big")], "tr.spelling")
        ctx.probe(f"internal-key-parity:{sec[0] & 1}")
    with ctx.must_succeed(P12, "output-key-is-wallets", "output_pubkey"):
        out_key, parity = taproot.output_pubkey(internal, tree)
    ctx.check(P12, "output-key-is-wallets", out_key == q, lambda: f"output_pubkey {out_key.hex()} != the key the descriptor pays to {q.hex()}")
    ctx.probe(f"output-key-parity:{parity}")
    leaves = w.leaves()
    if ch.draw(4, "tr.reference?") == 0:
        ref_key = ref_taproot.output_key(x_only, _ref_tree(tree) if tree is not None else None)
        ctx.probe("reference-output-key")
        ctx.check(P12, "output-key-equals-reference", (out_key, parity) == ref_key, lambda: f"output key {out_key.hex()}/{parity}, BIP341 transcription {ref_key[0].hex()}/{ref_key[1]} ({len(leaves)} leaves)")
    # (i) every leaf's control block proves it against the key the wallet hands out
    proofs: list[tuple[bytes, bytes]] = []
    for n in range(len(leaves)):
        with ctx.must_succeed(P12, "control-block-proves-leaf", "input_script_sig"):
            script_cmds, control = taproot.input_script_sig(internal, tree, n)
            script = taproot.serialize(script_cmds)
            ok = taproot.check_output_pubkey(q, script, control)
        ctx.check(P12, "control-block-proves-leaf", ok is True, lambda: f"leaf {n} of {len(leaves)}: input_script_sig's control block {control.hex()} does not prove {script.hex()} against {q.hex()}", site="input_script_sig")
        ctx.probe(f"leaf-depth:{min((len(control) - 33) // 32, 6)}")
        proofs.append((script, control))
    # the private half, where a cosigner holds the internal key
    if w.internal is not None:
        holder = cos[w.internal[0]]
        prv = bip32.derive(holder.xprv, holder.leaf_path(w.internal[1], 0, index))
        msg = ch.nbytes(32, "tr.msg")
        with ctx.must_succeed(P12, "output-prvkey-matches", "output_prvkey"):
            d = taproot.output_prvkey(prv, tree)
            pub = ssa.gen_keys(d)[1]
        ctx.check(P12, "output-prvkey-matches", pub.to_bytes(32, "big") == q, lambda: f"output_prvkey's public key {pub:064x} != output key {q.hex()}")
        with ctx.must_succeed(P12, "keypath-signature-verifies", "ssa"):
            ok = ssa.verify_(msg, q, ssa.sign_(msg, d))
        ctx.check(P12, "keypath-signature-verifies", ok is True, "a signature by output_prvkey does not verify under the output key")
    if not faulty or not proofs:
        return
    # (ii) one bit altered in transit: never accepted
    script, control = proofs[ch.draw(len(proofs), "flip.leaf")]
    _proof_verdict(ctx, q, script, _flip(control, 0), "parity bit")
    _proof_verdict(ctx, q, script, _flip(control, 1 + ch.draw(7, "flip.version-bit")), "leaf-version bit")
    ctx.fault("bitflip-parity")
    ctx.fault("bitflip-leaf-version")
    for _ in range(6):
        target = ch.pick(["control-block", "leaf-script", "output-key", "internal-key", "merkle-path"], "flip.target")
        if target == "leaf-script":
            bit = ch.draw(8 * len(script), "flip.bit")
            _proof_verdict(ctx, q, _flip(script, bit), control, f"{target} bit {bit}")
        elif target == "output-key":
            bit = ch.draw(256, "flip.bit")
            _proof_verdict(ctx, _flip(q, bit), script, control, f"{target} bit {bit}")
        else:
            lo, hi = {"control-block": (0, len(control)), "internal-key": (1, 33), "merkle-path": (33, len(control))}[target]
            if lo == hi:
                continue
            bit = 8 * lo + ch.draw(8 * (hi - lo), "flip.bit")
            _proof_verdict(ctx, q, script, _flip(control, bit), f"{target} bit {bit}")
        ctx.fault(f"bitflip-{target}")


def _taproot_spends(ctx: Ctx, cer: gw.Ceremony, tx: Tx, faulty: bool) -> None:
    """The control blocks that travelled: the Updater's in the psbt, the Finalizer's in the witness."""
    for i, spec in enumerate(cer.inputs):
        if spec.wallet.kind != "taproot":
            continue
        q = spec.script_pub_key[2:]
        for control, (script, version) in cer.psbt.inputs[i].taproot_leaf_scripts.items():
            with ctx.must_succeed(P12, "control-block-proves-leaf", "updater"):
                ok = taproot.check_output_pubkey(q, script, control)
            ctx.check(P12, "control-block-proves-leaf", ok is True and version == gw.TAPSCRIPT, lambda: f"the Updater's control block {control.hex()} does not prove {script.hex()}", site="updater")
        stack = tx.vin[i].script_witness.stack
        if len(stack) > 1:
            ctx.probe("script-path-spent")
            with ctx.must_succeed(P12, "control-block-proves-leaf", "finalizer"):
                ok = taproot.check_output_pubkey(q, stack[-2], stack[-1])
            ctx.check(P12, "control-block-proves-leaf", ok is True, lambda: f"the finalized witness's control block {stack[-1].hex()} does not prove {stack[-2].hex()}", site="finalizer")
        else:
            ctx.probe("key-path-spent")
        if faulty:
            _altered_spend(ctx, cer, tx, i)


def _ref_tree(tree: Any) -> Any:
    """The library's TaprootScriptTree as the reference's (version, script bytes) / pair form."""
    if len(tree) == 1:
        return (tree[0][0], taproot.serialize(tree[0][1]))
    return (_ref_tree(tree[0]), _ref_tree(tree[1]))


def _altered_spend(ctx: Ctx, cer: gw.Ceremony, tx: Tx, i: int) -> None:
    """The same alterations where they matter: the engine, on the spend itself."""
    ch = ctx.ch
    script_path = len(tx.vin[i].script_witness.stack) > 1
    for target in ["output-key"] + (["control-block", "leaf-script"] if script_path else ["signature"]):
        stack = list(tx.vin[i].script_witness.stack)
        bad, prevouts = deepcopy(tx), list(cer.prevouts)
        if target == "output-key":
            spk = prevouts[i].script_pub_key.script
            prevouts[i] = TxOut(prevouts[i].value, _flip(spk, 16 + ch.draw(256, "spend.bit")))
        else:
            n = {"control-block": -1, "leaf-script": -2, "signature": 0}[target]
            stack[n] = _flip(stack[n], ch.draw(8 * len(stack[n]), "spend.bit"))
            bad.vin[i].script_witness = Witness(stack)
        ctx.fault(f"spend-bitflip-{target}")
        try:
            verify_input(prevouts, bad, i, gw.STANDARD_FLAGS)
            verdict = "accepted"
        except LIB as e:
            verdict = f"rejected {type(e).__name__}"
        except Exception as e:  # noqa: BLE001
            verdict = f"non-library {type(e).__name__}: {e}"
        ctx.check(P12, "altered-spend-rejected", verdict.startswith("rejected"), lambda: f"{target} altered in one bit: the engine {verdict}", site=target)


# ---------------------------------------------------------------------------
# C09
# ---------------------------------------------------------------------------
Digests = dict[tuple[int, bytes, int | None], bytes]  # (input, tapleaf hash or b"", explicit hash type or None) -> digest


def _script_code(spec: gw.InputSpec, psbt_in: Any) -> bytes:
    """What an ECDSA signature of this input signs against: the auditor's reading of the wallet shape."""
    shape = spec.wallet.shape
    if shape in ("pkh", "multi"):
        return spec.script_pub_key
    if shape in ("wpkh", "sh-wpkh"):
        program = spec.script_pub_key if shape == "wpkh" else psbt_in.redeem_script
        return b"\x76\xa9\x14" + program[2:] + b"\x88\xac"
    return psbt_in.redeem_script if shape in ("sh-multi", "sh-pkh") else psbt_in.witness_script


def _digests_before(ctx: Ctx, cer: gw.Ceremony) -> Digests:
    """Direct digests of the transaction being built, and the same through PrecomputedTxData and the Psbt."""
    ch = ctx.ch
    request, tx = cer.psbt, cer.psbt.tx
    direct: Digests = {}
    with ctx.must_succeed(P09, "direct-digest-computes", "precompute"):
        precomputed = sig_hash.PrecomputedTxData(tx, cer.prevouts)
    for i, (spec, psbt_in) in enumerate(zip(cer.inputs, request.inputs, strict=True)):
        is_tr = spec.wallet.kind == "taproot"
        legal = [t for t in gw.SIGHASH_TYPES[1:] if not (is_tr and t & 3 == sig_hash.SINGLE and i >= len(tx.vout))]
        if is_tr:
            legal += [sig_hash.DEFAULT] * 2  # asked for by name: an explicit 0 is a type like the others, not "read the field"
        own = psbt_in.sig_hash_type if psbt_in.sig_hash_type is not None else (sig_hash.DEFAULT if is_tr else sig_hash.ALL)
        site = spec.wallet.kind
        for lh in _leaf_hashes(cer, spec):
            for ht, explicit in ((own, None), (legal[ch.draw(len(legal), "digest.type")],) * 2):
                with ctx.must_succeed(P09, "direct-digest-computes", site):
                    if is_tr:
                        ext = lh + b"\x00\xff\xff\xff\xff" if lh else b""
                        d0 = sig_hash.taproot(tx, i, cer.prevouts, ht, int(bool(lh)), b"", ext)
                        d1 = sig_hash.taproot(tx, i, cer.prevouts, ht, int(bool(lh)), b"", ext, precomputed)
                    elif spec.wallet.kind == "segwit0":
                        code = _script_code(spec, psbt_in)
                        d0 = sig_hash.segwit_v0(code, tx, i, ht, spec.value)
                        d1 = sig_hash.segwit_v0(code, tx, i, ht, spec.value, precomputed)
                    else:
                        d0 = d1 = sig_hash.legacy(_script_code(spec, psbt_in), tx, i, ht)
                direct[(i, lh, explicit)] = d0
                ctx.note("digest", i, lh[:4], ht, d0)
                if ch.draw(2, "digest.reference?"):
                    # sampled evidence: the direct digest is the one the defining text spells out
                    if is_tr:
                        want_ref = ref_sighash.bip341(tx, i, cer.prevouts, ht, int(bool(lh)), b"", ext)
                    elif spec.wallet.kind == "segwit0":
                        want_ref = ref_sighash.bip143(code, tx, i, ht, spec.value)
                    else:
                        want_ref = ref_sighash.legacy(_script_code(spec, psbt_in), tx, i, ht)
                    ctx.check(P09, "direct-equals-definition", d0 == want_ref, lambda: f"input {i} ({spec.wallet.kind}) type {ht}: direct {d0.hex()} != transcription of the defining text {want_ref.hex()}", site=spec.wallet.kind)
                    # hash types outside the seven defined ones: the legacy and BIP143 functions hash every 32-bit
                    # value (a signature may carry one), reading the output half off the low five bits; BIP341
                    # declares them an error
                    odd = ch.pick([0x04, 0x06, 0x07, 0x0A, 0x1E, 0x1F, 0x20, 0x42, 0x86, 0x9E, 0xC3, 0x102, 0x80, 0x00 if not is_tr else 0x84], "digest.oddtype")
                    if is_tr:
                        try:
                            got_odd: Any = sig_hash.taproot(tx, i, cer.prevouts, odd, int(bool(lh)), b"", ext)
                            verdict_odd = "answered " + got_odd.hex()[:16]
                        except LIB:
                            verdict_odd = "refused"
                        except Exception as e:  # noqa: BLE001
                            verdict_odd = f"non-library {type(e).__name__}"
                        ctx.check(P09, "undefined-taproot-type-refused", verdict_odd == "refused", lambda: f"input {i}: sig_hash.taproot with hash type {odd:#x} {verdict_odd}", site="taproot")
                    else:
                        with ctx.must_succeed(P09, "direct-digest-computes", "undefined-type"):
                            if spec.wallet.kind == "segwit0":
                                o0, o1 = sig_hash.segwit_v0(code, tx, i, odd, spec.value), sig_hash.segwit_v0(code, tx, i, odd, spec.value, precomputed)
                                want_ref = ref_sighash.bip143(code, tx, i, odd, spec.value)
                            else:
                                o0 = o1 = sig_hash.legacy(_script_code(spec, psbt_in), tx, i, odd)
                                want_ref = ref_sighash.legacy(_script_code(spec, psbt_in), tx, i, odd)
                        ctx.check(P09, "direct-equals-definition", o0 == want_ref, lambda: f"input {i} ({spec.wallet.kind}) undefined type {odd:#x}: direct {o0.hex()} != transcription {want_ref.hex()}", site="undefined-type")
                        ctx.check(P09, "precomputed-equals-direct", o1 == o0, lambda: f"input {i} undefined type {odd:#x}: with PrecomputedTxData {o1.hex()} != direct {o0.hex()}", site="undefined-type")
                    if spec.wallet.kind == "legacy":
                        # a script code with OP_CODESEPARATORs in it: in front, at the end, and as DATA inside a push
                        # (which stays). Nobody signs this; it is the digest function against the text
                        seps = _script_code(spec, psbt_in)
                        seps = b"\xab" * ch.draw(3, "codesep.front") + b"\x02\xab\xab" + seps + b"\xab" * (1 + ch.draw(2, "codesep.back")) + b"\x4c\x01\xab"
                        with ctx.must_succeed(P09, "direct-digest-computes", "legacy+codesep"):
                            c0 = sig_hash.legacy(seps, tx, i, ht)
                        want_ref = ref_sighash.legacy(seps, tx, i, ht)
                        ctx.check(P09, "direct-equals-definition", c0 == want_ref, lambda: f"input {i} type {ht}, script code with OP_CODESEPARATORs: direct {c0.hex()} != transcription {want_ref.hex()}", site="legacy+codesep")
                    if is_tr:
                        # an annex is committed to by every taproot digest of the input that carries one; nothing in a
                        # psbt holds one, so this is the direct and the precomputed computation against the text
                        annex = b"\x50" + ch.nbytes(ch.pick([0, 1, 8, 300], "annex.len"), "annex")
                        with ctx.must_succeed(P09, "direct-digest-computes", "taproot+annex"):
                            a0 = sig_hash.taproot(tx, i, cer.prevouts, ht, int(bool(lh)), annex, ext)
                            a1 = sig_hash.taproot(tx, i, cer.prevouts, ht, int(bool(lh)), annex, ext, precomputed)
                        want_ref = ref_sighash.bip341(tx, i, cer.prevouts, ht, int(bool(lh)), annex, ext)
                        ctx.check(P09, "direct-equals-definition", a0 == want_ref, lambda: f"input {i} type {ht} with a {len(annex)}-byte annex: direct {a0.hex()} != transcription {want_ref.hex()}", site="taproot+annex")
                        ctx.check(P09, "precomputed-equals-direct", a1 == a0, lambda: f"input {i} type {ht} with an annex: with PrecomputedTxData {a1.hex()} != direct {a0.hex()}", site="taproot+annex")
                kw = {} if explicit is None else {"hash_type": ht}
                with ctx.must_succeed(P09, "psbt-digest-computes", site):
                    d2 = taproot_sig_hash(request, i, leaf_hash=lh, **kw) if is_tr else ecdsa_sig_hash(request, i, **kw)
                ctx.check(P09, "precomputed-equals-direct", d1 == d0, lambda: f"input {i} type {ht}: with PrecomputedTxData {d1.hex()} != direct {d0.hex()}", site=site)
                ctx.check(P09, "psbt-equals-direct", d2 == d0, lambda: f"input {i} type {ht} leaf {lh.hex()[:8]}: psbt {d2.hex()} != direct {d0.hex()}", site=site)
    return direct


def _scribble(ctx: Ctx, view: PsbtView) -> None:
    """A caller writes into what the view handed out (`tx`, `prevouts`, an input map): all of them are documented as
    copies, so nothing the view answers afterwards may change. Frozen objects refuse the write; that is fine too."""
    ch = ctx.ch
    try:
        tx, prevouts = view.tx, view.prevouts
        psbt_in = view.input(ch.draw(view.input_count, "scribble.input"))
    except (*LIB, OSError):
        return  # a file fault: the digests below say what the view does under it
    ctx.fault("caller-writes-into-view-copies")
    edits: list[Any] = [
        lambda: setattr(tx, "lock_time", tx.lock_time ^ 1), lambda: setattr(tx, "version", tx.version + 1),
        lambda: [setattr(i, "sequence", i.sequence ^ 0x00400001) for i in tx.vin], lambda: [setattr(i, "script_sig", b"\x51") for i in tx.vin],
        lambda: tx.vin.reverse(), lambda: tx.vout.pop() if len(tx.vout) > 1 else None, lambda: [setattr(o, "value", 0) for o in tx.vout],
        lambda: setattr(tx.vin[0], "prev_out", OutPoint(b"\x99" * 32, 7)), lambda: prevouts.reverse(), lambda: [setattr(o, "value", 1) for o in prevouts],
        lambda: [setattr(o, "script_pub_key", b"\x51") for o in prevouts], lambda: setattr(psbt_in, "sig_hash_type", 0x83), lambda: setattr(psbt_in, "witness_utxo", None),
        lambda: setattr(psbt_in, "sequence", 0), lambda: psbt_in.unknown.update({b"\xfc": b"x"}),
    ]
    for n in ch.shuffled(range(len(edits)), "scribble.which")[: 2 + ch.draw(5, "scribble.n")]:
        try:
            edits[n]()
        except (AttributeError, TypeError, *LIB):  # frozen dataclass, validated setter
            ctx.probe("scribble-refused")


def _view_digests(ctx: Ctx, view: PsbtView, cer: gw.Ceremony, direct: Digests, strict: bool, who: str) -> None:
    """Every digest through a streamed view: equal to the direct one; under a file fault it may refuse instead."""
    if ctx.ch.draw(3, "view.scribble?") == 0:
        _scribble(ctx, view)
    for (i, lh, explicit), want in sorted(direct.items(), key=lambda kv: (kv[0][0], kv[0][1], kv[0][2] or 0)):
        kw = {} if explicit is None else {"hash_type": explicit}
        try:
            got = view.taproot_sig_hash(i, leaf_hash=lh, **kw) if cer.inputs[i].wallet.kind == "taproot" else view.ecdsa_sig_hash(i, **kw)
        except (*LIB, OSError) as e:
            ctx.check(P09, "view-equals-direct", not strict, f"{who} input {i}: the view over an intact file refused: {type(e).__name__}: {e}", site=who)
            ctx.probe("view-refused-under-file-fault")
            continue
        ctx.check(P09, "view-equals-direct" if strict else "view-agrees-or-refuses", got == want, lambda: f"{who} input {i} leaf {lh.hex()[:8]} type {explicit}: view {got.hex()} != direct {want.hex()}", site=who)
        ctx.probe("view-digest-agreed")


def _digests_after(ctx: Ctx, cer: gw.Ceremony, signed: Psbt, tx: Tx, direct: Digests, faulty: bool) -> None:
    """The same digests read off the finished work: the signed transaction, the combined psbt, a view over it."""
    precomputed = sig_hash.PrecomputedTxData(tx, cer.prevouts)
    for (i, lh, explicit), want in sorted(direct.items(), key=lambda kv: (kv[0][0], kv[0][1], kv[0][2] or 0)):
        spec, psbt_in = cer.inputs[i], cer.psbt.inputs[i]
        is_tr = spec.wallet.kind == "taproot"
        ht = explicit if explicit is not None else (psbt_in.sig_hash_type if psbt_in.sig_hash_type is not None else (sig_hash.DEFAULT if is_tr else sig_hash.ALL))
        stack = tx.vin[i].script_witness.stack
        spent_leaf = taproot.leaf_hash(gw.TAPSCRIPT, stack[-2]) if is_tr and len(stack) > 1 else b""
        kw = {} if explicit is None else {"hash_type": explicit}
        with ctx.must_succeed(P09, "psbt-digest-computes", "signed"):
            d3 = taproot_sig_hash(signed, i, leaf_hash=lh, **kw) if is_tr else ecdsa_sig_hash(signed, i, **kw)
        ctx.check(P09, "psbt-equals-direct", d3 == want, lambda: f"input {i} type {ht}: combined psbt {d3.hex()} != direct {want.hex()}", site="signed")
        if is_tr and lh != spent_leaf:
            continue  # from_tx reads the path off the witness, and this is not the path it took
        with ctx.must_succeed(P09, "direct-digest-computes", "from_tx"):
            d4 = sig_hash.from_tx(cer.prevouts, tx, i, ht)
            d5 = sig_hash.from_tx(cer.prevouts, tx, i, ht, precomputed)
        ctx.check(P09, "from-tx-equals-direct", d4 == want, lambda: f"input {i} ({spec.wallet.shape}) type {ht}: from_tx on the signed transaction {d4.hex()} != direct {want.hex()}", site=spec.wallet.kind)
        ctx.check(P09, "precomputed-equals-direct", d5 == want, lambda: f"input {i} type {ht}: from_tx with PrecomputedTxData {d5.hex()} != direct {want.hex()}", site="from_tx")
        if is_tr and stack and ctx.ch.chance(1, 3, "from_tx.first-octet?"):
            # what the path is read off is the witness: BIP341 takes the last element for an annex only where there are
            # two or more, and a signature (or a placeholder where one will go) begins with any octet, 0x50 included --
            # one signature in 256. The digest does not cover the witness, so the same digest is owed whatever the first
            # octet of the one element is; with two or more elements a 0x50-led last one IS the annex and is left alone
            lone = len(stack) == 1
            first = ctx.ch.pick([0x50, 0x4F, 0x51, 0x00, 0xFF], "from_tx.first-octet")
            other = deepcopy(tx)
            if lone:
                other.vin[i].script_witness = Witness([bytes([first]) + stack[0][1:]])
                with ctx.must_succeed(P09, "direct-digest-computes", "from_tx/lone-element"):
                    d6 = sig_hash.from_tx(cer.prevouts, other, i, ht)
                ctx.check(P09, "from-tx-equals-direct", d6 == want, lambda: f"input {i} type {ht}: from_tx over a key-path witness whose one element begins with {first:#x}: {d6.hex()} != direct {want.hex()}", site="from_tx/lone-element")
                ctx.probe(f"lone-witness-element-first-octet:{first:#x}")
    # a second reader of the finished work: a view over the combined psbt, as stored
    short = faulty and bool(ctx.ch.draw(2, "file.short?"))
    try:
        view = PsbtView(SimFile(signed.serialize(), ctx, name="coord/combined", short_reads=short))  # type: ignore[arg-type]
    except (*LIB, OSError) as e:
        ctx.check(P09, "view-equals-direct", short, f"the view over the intact combined file refused: {type(e).__name__}: {e}", site="coord")
        return
    _view_digests(ctx, view, cer, direct, not short, "coord")


# ---------------------------------------------------------------------------
# check definitions
# ---------------------------------------------------------------------------
def _plans(extra: dict[str, Any] | None = None, more: list[tuple[dict[str, Any], float, str]] | None = None) -> Callable[[str], list[Any]]:
    def plans(tier: str) -> list[Any]:
        from btcsim.core.runner import Plan  # noqa: PLC0415

        cfg = dict(extra or {})
        return [
            Plan("ceremony", {**cfg, "faults": False}, share=1.0, chunk=20, label="ceremony/fault-free"),
            Plan("ceremony", {**cfg, "faults": True}, share=2.0, chunk=20, label="ceremony/faulty"),
            *[Plan("ceremony", c, share=share, chunk=20, label=label) for c, share, label in more or []],
        ]

    return plans


_RULE = (
    "one evaluation = one seeded ceremony: drawn cosigners, wallet shapes, input mix, sighash types, fee rate, change, PSBT "
    "version, backend arm and RNG edge mode; the PSBT travels to each cosigner and back through the simulated courier "
    "(drop / duplicate / delay / corrupt, crash and restart of cosigners and coordinator in the faulty plan), is combined in "
    "arrival order, finalized, extracted and run under every script flag. distinct = distinct hash of the (actor, event, fault) "
    "sequence; non-trivial = at least one fault, tamper or bit alteration fired. "
)
_ASSUME = [
    "the taproot leaf to spend and its multi_a witness are chosen and built by the harness's InputSolver/SolutionSizer (the library leaves both to the caller); wsh(miniscript) uses the library's own solver and sizer",
    "JSON is not used as a courier codec (PsbtIn.from_dict mishandles taproot_hd_key_paths); SIGHASH_DEFAULT is spelled as an absent field",
]
CHECKS = {
    "C10": {
        "level": "exploration",
        "plans": _plans(),
        "rule": _RULE + "C10: closure, liveness within 2 rounds after faults stop, one tamper per run judged by the commitment table, message signatures.",
        "assumptions": [*_ASSUME, "a tamper is asserted to be rejected only when at least one input's signature or program commits to the edited field; uncommitted edits are counted, not judged"],
    },
    "C18": {
        "level": "exploration",
        "plans": _plans(more=[({"faults": False, "ecdsa": "plain", "first": ["sh-multi", "multi", "pkh", "wsh-multi", "sh-wsh-multi"]}, 1.5, "ceremony/ecdsa-72-byte")]),
        "rule": _RULE + "C18: accounting identities at funding time (with the exact-funds boundary probed on a third of the runs) and against the transaction the signers and finalizer really produced.",
        "assumptions": [*_ASSUME, "unit conversions and money-range refusals are pure arithmetic and not exercised here"],
    },
    "C12": {
        "level": "exploration",
        "plans": _plans({"first": list(gw.TAPROOT_SHAPES)}),
        "rule": _RULE + "C12: the first wallet is taproot; every leaf's control block from input_script_sig, the Updater and the finalizer is checked against the paid output key; in the faulty plan 8 single-bit alterations per taproot input go to check_output_pubkey and one to the engine.",
        "assumptions": [*_ASSUME, "trees have 1-6 leaves (depth <= 5); the BIP341 formula is compared with an independent transcription on a quarter of the taproot inputs"],
    },
    "C05": {
        "level": "fault_enumeration",
        "plans": lambda tier: [__import__("btcsim.core.runner", fromlist=["Plan"]).Plan("ceremony", {"faults": False}, share=1.0, chunk=20, label="ceremony/codecs")],
        "rule": "ceremony/codecs: every PSBT a fault-free simulated signing ceremony ships (request, each answer, each combined state) is held to the fixed-point, base64 and JSON round trips; distinct = distinct event trace.",
        "assumptions": ["these PSBTs are what the library's own Updater, Signers and Combiner write: realistic content, no hostile bytes (W4 has those)"],
    },
    "C09": {
        "level": "exploration",
        "plans": _plans(),
        "rule": _RULE + "C09: per input and per path (key path, planned leaf, one more leaf) the digest is computed directly, with PrecomputedTxData, through the Psbt (request and combined) and through PsbtViews over the cosigners' stored request and the combined file; the faulty plan adds short reads, EIO and truncation under the views.",
        "assumptions": [*_ASSUME, "only the cross-path clause is decided: one shared wrong digest passes", "annex-free spends only (no PSBT field carries an annex)"],
    },
}
