"""W4c `text` -- what a person, a QR code, a clipboard or a peer's JSON field
hands to the library as *text* (C19): addresses, extended keys, WIF,
derivation paths, key origins, output descriptors, miniscript, BIP21 URIs,
mnemonics and shares, hex / base64 transactions and PSBTs, amounts.

The byte-level worlds (`wire`, `hostile`) mutate encodings of objects; the
text decoders have failure modes of their own that no byte walk meets:
characters outside ASCII (a lone surrogate, a fullwidth or Arabic-Indic
digit, a superscript two that `str.isdigit` accepts and `int` refuses),
numbers of thousands of digits (CPython refuses to convert them with a bare
ValueError), signs / underscores / whitespace `int()` tolerates, nesting
thousands of levels deep, unbalanced brackets, doubled separators.

Actors: a sender that writes a well-formed text of each kind (built once per
process with the library itself, from fixed keys); a courier that damages it
(1-2 drawn edits out of the classes above); a receiver that hands the
result to every entry point that takes that kind of text.

Invariants (C19; `_call` of the `hostile` world)
- only-library-exceptions, no-hang (10 s of CPU per call), predicate-total
  for the boolean ones.
Probe only: the undamaged text is accepted.
"""

from __future__ import annotations

import re
import signal
from typing import Any, Callable

from btcsim.core.ctx import Ctx
from btcsim.core.runner import Plan
from btcsim.worlds.w4b_hostile import P19, _call, _on_vtalrm, memory_budget

PK1 = "0279be667ef9dcbbac55a06295ce870b07029bfcdb2dce28d959f2815b16f81798"
PK2 = "03f9308a019258c31049344f85f89d5229b531c845836f99b08601f113bce036f9"
X1, X2 = PK1[2:], PK2[2:]

# characters a decoder of ASCII text does not expect
HOSTILE_CHARS = [
    "é", "ß", "İ", "１", "٣", "²", "①", "\x00", "\ud800", "\udfff", " ", "\U0001f600", "\U0010ffff",
    "١٢", "Ａ", "K", "ſ", "\x7f", "\x1f", " ", "　", "​", "﻿", "%", "%zz", "%00", "%e9", "%ff%fe",
    " ", "\t", "\n", "\r\n", "'", '"', "\\", "#", "*", "<", ">", ";", "@", "+", "-", "_", "0x", "e", ".",
]
NUMBERS = [
    "9" * 5000, "1" * 4301, "0" * 5000 + "1", "²", "١٢", "１２", "-1", "+1", "1_0", " 1", "1 ", "1e3", "0x10", "",
    "4294967296", "4294967295", "2147483648", "2147483647", "99999999999999999999", "18446744073709551616", "00", "01", "1.0", "1.", ".5",
    "NaN", "Infinity", "-0", "1e-9", "1e400", "0b1", "0o7", "١", "²³",
]
NEST_PAIRS = [
    ("(", ")"), ("{", "}"), ("[", "]"), ("<", ">"), ("sh(", ")"), ("wsh(", ")"), ("tr(" + X1 + ",{", "}"), ("and_v(v:", ",1)"), ("t:", ""), ("v", ""),
    ("tv", ""), ("or_i(0,", ")"), ("andor(1,", ",0)"), ("thresh(1,", ")"), ("{pk(" + X2 + "),", "}"), ("/", ""), ("0/", ""), ("0h/", ""), ("m/", ""),
    ("a:", ""), ("n:", ""), ("j:", ""), ("l:", ""), ("u:", ""), ("s:", ""), ("c:", ""), ("d:", ""), ("%", ""), ("&x=", ""), ("&req-", ""), ("?", ""),
]
DEPTHS = [2, 40, 400, 1100, 5000, 100000]
# a damaged text stays under this many characters: long enough for recursion limits, digit limits and any
# algorithm worse than quadratic to show within the CPU budget, short enough for a quadratic one (base58) to finish
MAX_TEXT = 100_000

_CORPUS: dict[str, Any] | None = None


def corpus() -> dict[str, Any]:
    """Well-formed texts, by kind. Built once per process from fixed keys by the library itself: data, not state."""
    global _CORPUS  # noqa: PLW0603
    if _CORPUS is not None:
        return _CORPUS
    from btclib import b32, b58, silent_payments as sp  # noqa: PLC0415
    from btclib.bip32 import bip32  # noqa: PLC0415
    from btclib.descriptors import descriptors  # noqa: PLC0415
    from btclib.mnemonic import bip39, electrum, slip39  # noqa: PLC0415
    from btclib.psbt.psbt import Psbt  # noqa: PLC0415
    from btclib.tx.out_point import OutPoint  # noqa: PLC0415
    from btclib.tx.tx import Tx  # noqa: PLC0415
    from btclib.tx.tx_in import TxIn  # noqa: PLC0415
    from btclib.tx.tx_out import TxOut  # noqa: PLC0415

    xprv = bip32.rootxprv_from_seed(b"\x01" * 32)
    xpub = bip32.xpub_from_xprv(xprv)
    tprv = bip32.rootxprv_from_seed(b"\x02" * 32, "testnet") if _accepts_network(bip32.rootxprv_from_seed) else xprv
    wif = b58.wif_from_prv_key(1)
    a58, a32, atr = b58.p2pkh(PK1), b32.p2wpkh(PK1), b32.p2tr(bytes.fromhex(X1))
    ash = b58.p2sh(b"\x51")
    awsh = b32.p2wsh(b"\x51")
    spa = sp.address_from_keys(PK1, PK2)
    desc = [
        f"wpkh({xpub}/0/*)", f"pkh({PK1})", f"sh(wpkh({PK1}))", f"wsh(multi(2,{PK1},{PK2}))", f"sh(wsh(sortedmulti(1,{xpub}/1/*,{PK2})))",
        f"tr({X1},{{pk({X2}),multi_a(1,{X1},{X2})}})", f"wsh(and_v(v:pk({PK1}),older(10)))", f"wsh(or_d(pk({PK1}),and_v(v:pkh({PK2}),after(500000))))",
        f"addr({a32})", "raw(6a0548656c6c6f)", f"combo({PK1})", f"wpkh([deadbeef/84h/0h/0h]{xpub}/<0;1>/*)", f"pk({wif})", f"tr({xpub}/0/*)",
        f"wsh(thresh(2,pk({PK1}),s:pk({PK2}),sln:older(12)))", f"wsh(andor(pk({PK1}),sha256({'11' * 32}),and_v(v:hash160({'22' * 20}),pk({PK2}))))",
        f"wpkh([deadbeef/84'/0'/0']{xpub}/0/*)", f"tr({X1},{{{{pk({X2}),pk({X1})}},pk({X2})}})", f"sh(multi(1,{PK1},{PK2},{xpub}/2h/*))", f"pkh({xprv}/44h/0h/0h/0/*h)",
    ]
    desc += [descriptors.add_checksum(d) for d in desc[:8]]
    mini = [
        f"and_v(v:pk({PK1}),older(10))", f"or_d(pk({PK1}),and_v(v:pkh({PK2}),after(500000)))", f"thresh(2,pk({PK1}),s:pk({PK2}),sln:older(12))", f"pk({PK1})",
        "older(10)", "after(100)", f"multi(1,{PK1},{PK2})", f"andor(pk({PK1}),sha256({'11' * 32}),and_v(v:ripemd160({'22' * 20}),pk({PK2})))", "1", "0",
        f"t:or_c(pk({PK1}),v:hash256({'33' * 32}))", f"or_i(and_v(v:pkh({PK1}),older(4194305)),pk({PK2}))",
    ]
    mini_tap = [f"and_v(v:pk({X1}),multi_a(1,{X1},{X2}))", f"pk({X1})", f"or_d(pk({X1}),and_v(v:pk({X2}),older(144)))"]
    uris = [
        f"bitcoin:{a58}?amount=0.1&label=Luke-Jr&message=Donation%20for%20project", f"bitcoin:{a32}", f"BITCOIN:{a32.upper()}?amount=20.3",
        f"bitcoin:{a58}?req-somethingyoudontunderstand=50", "bitcoin:?lightning=lnbc1", f"bitcoin:{atr}?amount=1&pj=https://example.com/pj&pjos=0",
        f"bitcoin:{a58}?amount=21000000&label=%E2%9C%93", f"bitcoin:{spa}", f"bitcoin:{a58}?sp={spa}&amount=0.00000001",
    ]
    paths = ["m/44h/0'/0H/1/2", "m", "44'/0'", "m/0/2147483647h", "/0/1", "m/<0;1>/*", "m/0/*", "m/0/*h", "m/83696968h/0h/0h", "0", "m/84h/0h/0h/0/0"]
    origins = ["deadbeef/44h/0h/0h", "deadbeef", "00000000/0/1/2/3/4/5/6/7/8/9", "DEADBEEF/84'/1'/0'"]
    mn = bip39.mnemonic_from_entropy(b"\x00" * 16)
    mn24 = bip39.mnemonic_from_entropy(bytes(range(32)))
    mn_it = bip39.mnemonic_from_entropy(b"\x5a" * 20, "it")
    mn_ja = bip39.mnemonic_from_entropy(b"\xa5" * 16, "ja") if _has_lang("ja") else mn
    em = electrum.mnemonic_from_entropy("standard", 1 << 130)
    om = electrum.old_mnemonic_from_hex_seed("00" * 16)
    groups = slip39.mnemonics_from_master_secret(b"\x07" * 16, ((2, 3), (1, 1)), 1, entropy_source=_fixed_entropy()) if _accepts_entropy_source(slip39) else slip39.mnemonics_from_master_secret(b"\x07" * 16)
    shares = [m for g in groups for m in g]
    tx = Tx(2, 0, [TxIn(OutPoint(b"\x11" * 32, 1), b"", 0xFFFFFFFE)], [TxOut(1000, b"\x00\x14" + b"\x22" * 20)])
    psbt = Psbt.from_tx(tx)
    from btclib import bip322  # noqa: PLC0415
    from btclib.ecc import bms, ecies  # noqa: PLC0415

    signed_texts = [bms.sign(b"msg", wif, a58).b64encode(), bip322.sign(b"msg", wif, a32).b64encode()]
    xor = lambda key, data: bytes(a ^ key[k % len(key)] for k, a in enumerate(data))  # noqa: E731
    try:
        # a toy cipher of the documented shape: PKCS#7-padded to whole blocks, then xored with the key
        signed_texts.append(ecies.encrypt(b"sixteen byte msg", PK1, lambda key, iv, data: xor(key, data + bytes([16 - len(data) % 16]) * (16 - len(data) % 16)), eph_prv_key=2))
    except Exception:  # noqa: BLE001, S110
        pass  # the cipher callback's shape is the caller's business; without an armor the sites still get damaged base64
    _CORPUS = {
        "xprv": xprv, "xpub": xpub, "tprv": tprv, "wif": wif, "addr58": [a58, ash], "addr32": [a32, atr, awsh, a32.upper()], "sp": [spa],
        "descriptor": desc, "miniscript": mini, "miniscript-tap": mini_tap, "uri": uris, "path": paths, "origin": origins,
        "bip39": [mn, mn24, mn_it, mn_ja], "electrum": [em], "old-electrum": [om], "slip39": shares,
        "hex": [tx.serialize(include_witness=True).hex(), psbt.serialize().hex()], "b64": [psbt.b64encode(), *signed_texts],
        "pubkey": [PK1, PK2, "04" + X1 + "483ada7726a3c4655da4fbfc0e1108a8fd17b448a68554199c47d08ffb10d4b8", X1],
        "prvkey": ["00" * 31 + "01", wif, xprv], "amount": ["0.1", "21000000", "0.00000001", "1", "1e-8", "0.10000000", "1.5", "0.00001"],
        "entropy": ["01" * 64, "0" * 128, "0x" + "ab" * 16, "1" * 256], "network": ["mainnet", "testnet", "regtest", "signet", "testnet4"],
        "hexseed": ["00" * 16, "ab" * 32], "lang": ["en", "it", "es", "fr", "ja", "ko", "cs", "pt", "zh-s", "zh-t"],
    }
    return _CORPUS


def _accepts_network(fn: Any) -> bool:
    import inspect  # noqa: PLC0415

    return "network" in inspect.signature(fn).parameters


def _accepts_entropy_source(mod: Any) -> bool:
    import inspect  # noqa: PLC0415

    return "entropy_source" in inspect.signature(mod.mnemonics_from_master_secret).parameters


def _fixed_entropy() -> Callable[[int], bytes]:
    state = {"n": 0}

    def source(n: int) -> bytes:
        state["n"] += 1
        return bytes((state["n"] * 37 + k) & 0xFF for k in range(n))

    return source


def _has_lang(lang: str) -> bool:
    from btclib.mnemonic.mnemonic import BIP39_LANGUAGE_FILES  # noqa: PLC0415

    return lang in BIP39_LANGUAGE_FILES


# kind -> [(site, call(text), predicate?)]
def entry_points() -> dict[str, list[tuple[str, Callable[[Any], Any], bool]]]:
    from btclib import amount, b32, b58, base58, bech32, bip21, bip44, bip85, bip322, core_import, fee, network, silent_payments as sp, slip132, to_prv_key, to_pub_key, tx_or_psbt  # noqa: PLC0415
    from btclib.bip32 import bip32, der_path, key_origin  # noqa: PLC0415
    from btclib.descriptors import descriptors, miniscript  # noqa: PLC0415
    from btclib.ecc import bms, ecies  # noqa: PLC0415
    from btclib.mnemonic import bip39, dispatch, electrum, entropy, slip39  # noqa: PLC0415
    from btclib.psbt.psbt import Psbt  # noqa: PLC0415
    from btclib.script.script_pub_key import ScriptPubKey  # noqa: PLC0415
    from btclib.tx.tx import Tx  # noqa: PLC0415
    from btclib.utils import bytes_from_octets  # noqa: PLC0415
    from btclib.wallet.descriptor_wallet import DescriptorWallet  # noqa: PLC0415

    c = corpus()
    xprv, xpub = c["xprv"], c["xpub"]
    address = [
        ("b58.h160_from_address", b58.h160_from_address, False), ("b32.witness_from_address", b32.witness_from_address, False),
        ("b32.is_segwit_prefixed", b32.is_segwit_prefixed, False), ("bech32.decode", bech32.decode, False), ("base58.decode", base58.decode, False),
        ("ScriptPubKey.from_address", ScriptPubKey.from_address, False), ("ScriptPubKey.from_address->address", lambda t: (lambda k: (k.address, k.type))(ScriptPubKey.from_address(t)), False), ("descriptors.from_address", descriptors.from_address, False),
        ("silent_payments.keys_from_address", sp.keys_from_address, False), ("bip21.Bip21.parse/bare", lambda t: bip21.Bip21.parse("bitcoin:" + t) if isinstance(t, str) else None, False),
        ("bms.verify/address", lambda t: bms.verify(b"msg", t, b"\x1f" + b"\x01" * 64), True), ("bip322.verify/address", lambda t: bip322.verify(b"msg", t, "AA=="), True),
    ]
    xkey = [
        ("BIP32KeyData.b58decode", bip32.BIP32KeyData.b58decode, False), ("BIP32KeyData.b58decode->b58encode", lambda t: bip32.BIP32KeyData.b58decode(t).b58encode(), False), ("bip32.derive/key", lambda t: bip32.derive(t, "m/0"), False),
        ("bip32.xpub_from_xprv", bip32.xpub_from_xprv, False), ("slip132.address_from_xkey", slip132.address_from_xkey, False),
        ("to_pub_key.pub_keyinfo_from_key", to_pub_key.pub_keyinfo_from_key, False), ("to_prv_key.prv_keyinfo_from_prv_key", to_prv_key.prv_keyinfo_from_prv_key, False),
        ("bip44.address_from_der_path/key", lambda t: bip44.address_from_der_path(t, "m/84h/0h/0h/0/0"), False),
        ("bip85.entropy_from_der_path/key", lambda t: bip85.entropy_from_der_path(t, "m/83696968h/0h/0h"), False),
    ]
    desc = [
        ("descriptors.parse", descriptors.parse, False), ("descriptors.parse/testnet", lambda t: descriptors.parse(t, "testnet"), False),
        ("descriptors.checksum", descriptors.checksum, False), ("descriptors.add_checksum", descriptors.add_checksum, False),
        ("descriptors.strip_checksum", descriptors.strip_checksum, False), ("descriptors.multipath_descriptors", descriptors.multipath_descriptors, False),
        ("core_import.import_request", lambda t: core_import.import_request(t, "now"), False), ("DescriptorWallet.from_descriptor", DescriptorWallet.from_descriptor, False),
        ("descriptors.parse->str->script", lambda t: (lambda d: (str(d), descriptors.add_checksum(str(d)), d.script_pub_key(0)))(descriptors.parse(t)), False),
    ]
    paths = [
        ("der_path.indexes_from_der_path", der_path.indexes_from_der_path, False), ("der_path.indexes_from_der_path/bip380", lambda t: der_path.indexes_from_der_path(t, bip380_enforced=True), False),
        ("der_path.bytes_from_der_path", der_path.bytes_from_der_path, False), ("der_path.hardenings_from_der_path", der_path.hardenings_from_der_path, False),
        ("der_path.int_from_index_str", lambda t: der_path.int_from_index_str(t.rsplit("/", 1)[-1] if isinstance(t, str) else t), False),
        ("bip32.derive/path", lambda t: bip32.derive(xprv, t), False), ("bip32.derive/path-pub", lambda t: bip32.derive(xpub, t), False),
        ("bip44.address_from_der_path/path", lambda t: bip44.address_from_der_path(xprv, t), False), ("bip85.entropy_from_der_path/path", lambda t: bip85.entropy_from_der_path(xprv, t), False),
    ]
    mnemonic = [
        ("bip39.entropy_from_mnemonic", bip39.entropy_from_mnemonic, False), ("bip39.seed_from_mnemonic", lambda t: bip39.seed_from_mnemonic(t, "pw"), False),
        ("bip39.seed_from_mnemonic/passphrase", lambda t: bip39.seed_from_mnemonic(c["bip39"][0], t, False), False),
        ("bip39.lang_from_mnemonic", bip39.lang_from_mnemonic, False), ("bip39.mxprv_from_mnemonic", bip39.mxprv_from_mnemonic, False),
        ("dispatch.all_seed_types_from_mnemonic", dispatch.all_seed_types_from_mnemonic, False), ("dispatch.seed_type_from_mnemonic", dispatch.seed_type_from_mnemonic, False),
        ("electrum.version_from_mnemonic", electrum.version_from_mnemonic, False), ("electrum.entropy_from_mnemonic", electrum.entropy_from_mnemonic, False),
        ("electrum.mxprv_from_mnemonic", lambda t: electrum.mxprv_from_mnemonic(t, "p"), False), ("electrum.lang_from_mnemonic", electrum.lang_from_mnemonic, False),
        ("electrum.hex_seed_from_old_mnemonic", electrum.hex_seed_from_old_mnemonic, False), ("electrum.old_master_pub_key_from_mnemonic", electrum.old_master_pub_key_from_mnemonic, False),
        ("slip39.share_from_mnemonic", slip39.share_from_mnemonic, False), ("slip39.master_secret_from_mnemonics", lambda t: slip39.master_secret_from_mnemonics([t]), False),
        ("slip39.master_secret_from_mnemonics/with-good", lambda t: slip39.master_secret_from_mnemonics([c["slip39"][0], t]), False),
    ]
    blob = [
        ("tx_or_psbt_from_any", tx_or_psbt.tx_or_psbt_from_any, False), ("tx_or_psbt_from_any/cv-off", lambda t: tx_or_psbt.tx_or_psbt_from_any(t, check_validity=False), False),
        ("Psbt.b64decode", Psbt.b64decode, False), ("Tx.parse/hex", Tx.parse, False), ("Psbt.parse/hex", Psbt.parse, False),
        ("bip322.Sig.b64decode", bip322.Sig.b64decode, False), ("bms.Sig.b64decode", bms.Sig.b64decode, False), ("ecies.Envelope.b64decode", ecies.Envelope.b64decode, False),
        ("bytes_from_octets", bytes_from_octets, False), ("bms.verify/sig", lambda t: bms.verify(b"m", c["addr58"][0], t), True),
        ("bip322.verify/sig", lambda t: bip322.verify(b"m", c["addr32"][0], t), True),
    ]
    keys = [
        ("to_pub_key.point_from_key", to_pub_key.point_from_key, False), ("to_pub_key.pub_keyinfo_from_key", to_pub_key.pub_keyinfo_from_key, False),
        ("to_prv_key.int_from_prv_key", to_prv_key.int_from_prv_key, False), ("b58.p2pkh", b58.p2pkh, False), ("b32.p2wpkh", b32.p2wpkh, False),
        ("b58.wif_from_prv_key", b58.wif_from_prv_key, False),
    ]
    return {
        "addr58": address, "addr32": address, "sp": address, "xprv": xkey, "xpub": xkey, "tprv": xkey, "wif": keys, "descriptor": desc,
        "miniscript": [("miniscript.parse", miniscript.parse, False), ("miniscript.parse/in-wsh", lambda t: descriptors.parse("wsh(" + t + ")") if isinstance(t, str) else None, False)],
        "miniscript-tap": [("miniscript.parse/tapscript", lambda t: miniscript.parse(t, "tapscript"), False), ("miniscript.parse/in-tr", lambda t: descriptors.parse("tr(" + X1 + "," + t + ")") if isinstance(t, str) else None, False)],
        "uri": [
            ("bip21.Bip21.parse", bip21.Bip21.parse, False), ("bip21.Bip21.parse/cv-off", lambda t: bip21.Bip21.parse(t, check_validity=False), False),
            # an accepted object handed to its consumer: the text it writes back
            ("bip21.Bip21.parse->serialize", lambda t: bip21.Bip21.parse(t).serialize(), False),
            ("bip21.Bip21.parse->serialize/cv-off", lambda t: bip21.Bip21.parse(t, check_validity=False).serialize(check_validity=False), False),
        ],
        "path": paths, "origin": [("BIP32KeyOrigin.from_description", key_origin.BIP32KeyOrigin.from_description, False), ("descriptors.parse/origin", lambda t: descriptors.parse("wpkh([" + t + "]" + xpub + "/0/*)") if isinstance(t, str) else None, False)],
        "bip39": mnemonic, "electrum": mnemonic, "old-electrum": mnemonic, "slip39": mnemonic, "hex": blob, "b64": blob, "pubkey": keys, "prvkey": keys,
        "amount": [
            ("amount.valid_btc_amount", amount.valid_btc_amount, False), ("amount.sats_from_btc", amount.sats_from_btc, False), ("amount.valid_sats_amount", amount.valid_sats_amount, False),
            ("FeeRate.from_sats_per_vbyte", fee.FeeRate.from_sats_per_vbyte, False), ("FeeRate.from_btc_per_kvbyte", fee.FeeRate.from_btc_per_kvbyte, False),
            ("bip21.Bip21.parse/amount", lambda t: bip21.Bip21.parse("bitcoin:" + c["addr58"][0] + "?amount=" + t) if isinstance(t, str) else None, False),
        ],
        "entropy": [
            ("entropy.bin_str_entropy_from_str", entropy.bin_str_entropy_from_str, False), ("entropy.bin_str_entropy_from_entropy", entropy.bin_str_entropy_from_entropy, False),
            ("entropy.bin_str_entropy_from_int", entropy.bin_str_entropy_from_int, False), ("entropy.bytes_entropy_from_str", entropy.bytes_entropy_from_str, False),
            ("bip39.mnemonic_from_entropy", bip39.mnemonic_from_entropy, False),
        ],
        "network": [
            ("network.network_from_name", network.network_from_name, False), ("b58.p2pkh/network", lambda t: b58.p2pkh(PK1, t), False), ("descriptors.parse/network", lambda t: descriptors.parse("pkh(" + PK1 + ")", t), False),
            ("bip39.mnemonic_from_entropy/lang", lambda t: bip39.mnemonic_from_entropy(b"\x00" * 16, t), False), ("bip39.entropy_from_mnemonic/lang", lambda t: bip39.entropy_from_mnemonic(c["bip39"][0], t), False),
        ],
        "hexseed": [("electrum.old_mnemonic_from_hex_seed", electrum.old_mnemonic_from_hex_seed, False)],
        "lang": [
            ("bip39.mnemonic_from_entropy/lang", lambda t: bip39.mnemonic_from_entropy(b"\x00" * 16, t), False), ("bip39.entropy_from_mnemonic/lang", lambda t: bip39.entropy_from_mnemonic(c["bip39"][0], t), False),
            ("electrum.mnemonic_from_entropy/lang", lambda t: electrum.mnemonic_from_entropy("standard", 1 << 130, t), False), ("electrum.entropy_from_mnemonic/lang", lambda t: electrum.entropy_from_mnemonic(c["electrum"][0], t), False),
            ("dispatch.seed_type_from_mnemonic/lang", lambda t: dispatch.seed_type_from_mnemonic(c["bip39"][0], t), False), ("bip85.mnemonic_from_root_key/lang", lambda t: bip85.mnemonic_from_root_key(xprv, 12, t), False),
        ],
    }


_BYTES_OK: dict[Any, bool] = {}


def _takes_bytes(fn: Callable[[Any], Any]) -> bool:
    """The first parameter is declared to take octets as well as text (String, Octets, BinaryData, a key type)."""
    if fn not in _BYTES_OK:
        import inspect  # noqa: PLC0415

        ok = False
        if getattr(fn, "__name__", "") != "<lambda>":
            try:
                first = next(iter(inspect.signature(fn).parameters.values()))
                ok = any(k in str(first.annotation) for k in ("String", "Octets", "BinaryData", "Key", "bytes"))
            except (TypeError, ValueError, StopIteration):
                ok = False
        _BYTES_OK[fn] = ok
    return _BYTES_OK[fn]


def _at(ch: Any, text: str, label: str) -> int:
    return ch.draw(len(text) + 1, label)


def damage(ch: Any, text: str) -> tuple[Any, str]:
    """One drawn edit of the classes in the module docstring. Returns (damaged text -- or bytes --, what was done)."""
    how = ch.weighted([("char", 5), ("number", 5), ("nest", 4), ("truncate", 2), ("delete", 2), ("double", 2), ("long", 1), ("edge", 1), ("bytes", 1), ("case", 1), ("separator", 2), ("sign", 2)], "dmg.how")
    if how == "char":
        c = ch.pick(HOSTILE_CHARS, "dmg.char")
        i = _at(ch, text, "dmg.at")
        return (text[:i] + c + text[i + ch.draw(2, "dmg.replace"):]), f"char:{c!r}"
    if how == "number":
        runs = list(re.finditer(r"[0-9]+", text))
        new = ch.pick(NUMBERS, "dmg.number")
        if not runs:
            i = _at(ch, text, "dmg.at")
            return text[:i] + new + text[i:], "number-inserted"
        # short runs first: they are the thresholds, indexes, delays and amounts; long ones are hex
        runs.sort(key=lambda m: (m.end() - m.start() > 10, m.start()))
        m = runs[ch.draw(min(len(runs), 6), "dmg.run")]
        return text[: m.start()] + new + text[m.end():], f"number:{new[:12]!r}"
    if how == "sign":
        # what int() / Decimal() read beside digits, in front of a number or of the whole text -- keeping the length
        # (a count of bits or words that still adds up) or not
        mark = ch.pick(["-", "+", " ", "_", "0b", "0x", "0o", "\t", "--", "+-", "−", "＋"], "dmg.sign")
        runs = list(re.finditer(r"[0-9]+", text))
        at = runs[ch.draw(len(runs), "dmg.run")].start() if runs and ch.draw(2, "dmg.sign.where") else 0
        keep = bool(ch.draw(2, "dmg.sign.keep-length"))
        return text[:at] + mark + text[at + (len(mark) if keep else 0):], f"sign:{mark!r}"
    if how == "nest":
        left, right = ch.pick(NEST_PAIRS, "dmg.pair")
        depth = min(ch.pick(DEPTHS, "dmg.depth"), MAX_TEXT // (len(left) + len(right)))
        where = ch.draw(3, "dmg.where")
        if where == 0:
            return left * depth + text + right * depth, f"nest:{left!r}x{depth}"
        i = _at(ch, text, "dmg.at")
        if where == 1:
            return text[:i] + left * depth + right * depth + text[i:], f"nest-inside:{left!r}x{depth}"
        return text[:i] + left * depth + text[i:], f"unbalanced:{left!r}x{depth}"
    if how == "truncate":
        return text[: ch.draw(len(text) + 1, "dmg.cut")], "truncate"
    if how == "delete":
        if not text:
            return text, "delete"
        i = ch.draw(len(text), "dmg.at")
        return text[:i] + text[i + 1:], f"delete:{text[i]!r}"
    if how == "double":
        i, j = sorted((_at(ch, text, "dmg.at"), _at(ch, text, "dmg.to")))
        times = min(ch.pick([1, 1, 3, 1000], "dmg.times"), MAX_TEXT // max(j - i, 1))
        return text[:j] + text[i:j] * (1 + times) + text[j:], "double"
    if how == "long":
        n = ch.pick([10_000, MAX_TEXT], "dmg.long")
        kind = ch.draw(3, "dmg.longk")
        return (text * (n // max(len(text), 1) + 1) if kind == 0 else text + ch.pick(["a", "0", " ", "q", "/", ","], "dmg.fill") * n if kind == 1 else ch.pick(["a", "0", "1"], "dmg.fill") * n), f"long:{n}"
    if how == "edge":
        return ch.pick(["", " ", "\x00", "\n", "\ud800", "\U0010ffff", "﻿" + text, text + "\n", " " + text + " ", text + "\x00", "\t".join(text.split(" "))], "dmg.edge"), "edge"
    if how == "bytes":
        k = ch.draw(4, "dmg.bytesk")
        if k == 0:
            return text.encode("utf-8", "surrogatepass"), "as-bytes"
        if k == 1:
            return b"\xff\xfe" + text.encode("utf-8", "surrogatepass"), "bytes-not-utf8"
        if k == 2:
            return bytearray(text.encode("utf-8", "surrogatepass")), "as-bytearray"
        return text.encode("utf-16", "surrogatepass"), "utf16"
    if how == "case":
        return ch.pick([text.upper(), text.lower(), text.swapcase(), text.title()], "dmg.case"), "case"
    seps = [m.start() for m in re.finditer(r"[,/()\[\]{}#:;&=?'<>* ]", text)]
    if not seps:
        return text + ",", "separator"
    i = seps[ch.draw(len(seps), "dmg.sep")]
    new = ch.pick(["", text[i] * 2, ",", "/", "(", ")", "[", "]", "{", "}", "#", ":", ";", "&", "=", "?", "'", "h", "H", "*", "<", ">", " ", "//", ",,", "()", "{}", "<;>", "<0;0>", "<0;1;2>", "<1;0>"], "dmg.sepnew")
    return text[:i] + new + text[i + 1:], f"separator:{text[i]!r}->{new!r}"


def run(ctx: Ctx) -> None:
    with memory_budget():
        _run(ctx)


def _run(ctx: Ctx) -> None:
    ch = ctx.ch
    old = signal.signal(signal.SIGVTALRM, _on_vtalrm)
    try:
        c = corpus()
        table = entry_points()
        spent = 0
        for _ in range(1 + ch.draw(6, "n.texts")):
            if spent > 2 * MAX_TEXT:
                break  # a run's work stays bounded whatever the draws: two long texts are a run
            kind = ch.pick(sorted(table), "kind")
            source = c[kind]
            text = source if isinstance(source, str) else source[ch.draw(len(source), "exemplar")]
            faulty = bool(ctx.cfg.get("faults", True))
            given: Any = text
            what = "intact"
            if faulty:
                given, what = damage(ch, text)
                if isinstance(given, str) and len(given) <= 20_000 and ch.draw(3, "dmg.twice") == 0:
                    given, what2 = damage(ch, given)
                    what += "+" + what2
                ctx.fault("text-" + what.split(":")[0].split("+")[0])
            ctx.log("text", kind, what, len(given))
            spent += len(given)
            ctx.state(f"{kind}:{what.split(':')[0]}")
            for site, fn, predicate in table[kind]:
                if not isinstance(given, str) and not _takes_bytes(fn):
                    continue  # bytes go where the signature declares String / Octets / a key, not where it declares str
                out = _call(ctx, f"{site}/{'intact' if not faulty else 'damaged'}", lambda fn=fn, given=given: fn(given), predicate=predicate)
                if not faulty:
                    ctx.probe(f"intact-{'accepted' if out is not None else 'refused'}:{site}")
    finally:
        signal.setitimer(signal.ITIMER_VIRTUAL, 0)
        signal.signal(signal.SIGVTALRM, old)


CHECKS = {
    "C19": {
        "level": "fault_enumeration",
        "plans": lambda tier: [
            Plan("text", {"faults": True}, share=4.0, chunk=40, label="text/damaged"),
            Plan("text", {"faults": False}, share=0.1, chunk=40, label="text/intact"),
        ],
        "rule": (
            "text: one evaluation = 1-6 well-formed texts (addresses, extended keys, WIF, paths, key origins, descriptors, miniscript, BIP21 URIs, "
            "mnemonics and shares of three schemes, hex / base64 transactions and PSBTs, amounts, entropy strings, network and language names) each "
            "damaged by 1-2 drawn edits (characters outside ASCII incl. lone surrogates and non-ASCII digits, numbers of thousands of digits and "
            "int()-tolerated spellings, nesting 2..100000 deep, unbalanced brackets, truncation, deletion, doubling, lengths up to 100 000 characters, bytes that are "
            "not UTF-8, case, separators) and handed to every entry point that takes that kind of text."
        ),
        "assumptions": ["per-call CPU budget of 10 s (ITIMER_VIRTUAL)", "texts are damaged copies of well-formed ones: text nobody would mistake for the kind is only met through the long / edge classes"],
    },
}
