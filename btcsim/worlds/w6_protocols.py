"""W6 `protocols` -- interactive schemes between honest parties (C16).

Parts (``cfg['part']``; ``cfg['faults']`` switches the fault kinds on;
``cfg['only']`` pins the two-party scheme, ``cfg['bip375']=false`` the BIP352 sender):

- ``musig2``  *Actors*: 1-6 signers (duplicate keys allowed), an aggregator,
  the courier. *Workload*: keys in given / shuffled / ``key_sort`` order,
  0-3 plain / x-only tweaks, a message of any length, optionally an adaptor
  point or a ``deterministic_sign`` last signer. Round-1 pubnonces
  (``nonce_gen`` through the RNG seam) and round-2 partial signatures travel
  to the aggregator in arbitrary order.
- ``bip373``  the same two rounds with a PSBT as the message
  (``btclib.psbt.musig2``): four ways the aggregate key reaches the output
  (output key, internal key, BIP328-derived internal key, key in a leaf),
  1-2 inputs, serialized PSBTs on the wire, ``combine`` merging each round.
- *Faults of both*: delay/reorder, duplicate, drop (retransmission timer),
  signer crash between the rounds (its secnonce is volatile and gone; it
  answers ``lost`` and the session restarts with fresh nonces), RNG edges.
- ``twoparty``  ECDH on every catalogued curve (ANSI-X9.63 in
  ``diffie_hellman``, then HKDF), ElligatorSwift create/encode -> decode, xdh,
  ECIES (caller cipher stubbed), DLEQ, Pedersen, Borromean. *Faults*: an
  envelope corrupted in transit or opened with another key; one element of a
  DLEQ statement altered.
- ``silentpayments``  a BIP352 sender (``output_keys``, or the BIP375 roles over
  a PSBT with per-input shares merged by ``combine`` or one global share) with
  mixed eligible / ineligible inputs, recipients with labels and repeats,
  decoy outputs; each recipient scans as a full node and as a light client.
  *Perturbation*: the backend switch flipped between sender and scanners.

Invariants (all C16):
 nonce-agg-order-independent, partial-sig-verifies, aggregate-verifies-ssa,
 aggregate-verifies-bip340-reference, adaptor-completes, adaptor-extracts,
 spent-nonce-refused, nonce-signs-at-most-once, session-completes (liveness:
 within ROUNDS retransmission periods after the faults stop), honest-step-succeeds,
 spend-accepted-by-engine; ecdh-sides-agree, hkdf-sides-agree,
 ellswift-decodes-to-key, xdh-sides-agree, ecies-decrypts-to-message,
 ecies-other-key-refused, ecies-corrupted-refused, dleq-verifies,
 dleq-altered-statement-rejected, pedersen-opens, borromean-verifies;
 sp-one-key-per-address, sp-found-count, sp-found-among-created, sp-no-decoy, sp-exactly-one-recipient,
 sp-key-opens-output, sp-light-equals-full.
"""

from __future__ import annotations

import hashlib
from collections import Counter
from typing import Any

from btclib.exceptions import BTClibException

from btcsim.core.ctx import Ctx, RunAborted
from btcsim.core.des import Courier, Sim
from btcsim.gen import keys as gk
from btcsim.ref import bip340 as ref340
from btcsim.seams import state as st
from btcsim.seams.disk import corrupt_bytes
from btcsim.seams.rng import SimRng

P = "C16"
RT = 80  # retransmission period of the coordinator (simulated time)
ROUNDS = 12  # liveness bound: periods after the faults stop
N = gk.N


class _Rng(SimRng):
    """The RNG seam with a per-run draw budget: a rejection loop inside the
    library (ElligatorSwift encoding) cannot spin on an exhausted replay."""

    calls = 0

    def randbelow(self, n: int) -> int:
        self.calls += 1
        if self.calls > 4000:
            raise RunAborted("rng draw budget")
        return super().randbelow(n)


def run(ctx: Ctx) -> None:
    part = ctx.cfg["part"]
    _Rng(ctx, mode=ctx.ch.pick(["uniform", "edge"], "rng.mode")).install()
    serving = st.set_backend(bool(ctx.ch.draw(4, "backend0")))
    ctx.log("start", part, f"bindings={serving}", f"faults={bool(ctx.cfg.get('faults'))}")
    if part in ("musig2", "bip373"):
        scheme = _Raw(ctx) if part == "musig2" else _Bip373(ctx)
        _Session(ctx, scheme, bool(ctx.cfg.get("faults"))).run()
    elif part == "twoparty":
        _two_party(ctx)
    else:
        _silent_payments(ctx)


def _flip(ctx: Ctx, label: str) -> None:
    """Another party, another process: its backend switch is its own."""
    want = bool(ctx.ch.draw(4, label))
    if st.bindings_installed() and want != st.backend():
        st.set_backend(want)
        ctx.fault("backend-flip", f"serving={want}")


# ---------------------------------------------------------------------------
# the two-round n-party session over the courier
# ---------------------------------------------------------------------------
class _Signer:
    def __init__(self, i: int) -> None:
        self.i = i
        self.name = f"s{i}"
        self.up = True
        self.max_sid = -1  # durable: a session counter is no secret
        self.sec: dict[int, Any] = {}  # volatile
        self.sent1: dict[int, Any] = {}  # volatile
        self.sent2: dict[int, Any] = {}  # volatile


class _Session:
    """Coordinator ``agg`` and signers ``s0..``; the scheme supplies the crypto.

    Messages are ``(kind, sid, signer index, body)``: start -> nonce,
    sign -> psig, det -> detr (a deterministic last signer answers both
    rounds at once), lost (a restarted signer has no secnonce for ``sid``).
    """

    def __init__(self, ctx: Ctx, scheme: Any, faults: bool) -> None:
        ch = ctx.ch
        self.ctx, self.scheme, self.n = ctx, scheme, scheme.n
        self.sim = Sim(ctx, max_events=1500)
        self.quiesce = 100 + ch.draw(300, "quiesce") if faults else 0
        self.net = Courier(
            self.sim, self._deliver,
            drop=ch.pick([0, 60, 150], "net.drop") if faults else 0,
            dup=ch.pick([0, 100, 300], "net.dup") if faults else 0,
            jitter=ch.pick([30, 0, 5, 70], "net.jitter"),
            quiesce_at=self.quiesce,
        )
        self.crashes_left = ch.draw(3, "crashes") if faults else 0
        self.signers = [_Signer(i) for i in range(self.n)]
        self.det: int | None = scheme.det
        self.sid = -1
        self.got1: list[tuple[int, Any]] = []
        self.got2: list[tuple[int, Any]] = []
        self.req2: Any = None
        self.asked_det = False
        self.det_req: Any = None
        self.done = False
        self.serial = 0  # secnonces generated so far
        self.signed_by: Counter[int] = Counter()  # secnonce serial -> successful signatures

    # -- coordinator ----------------------------------------------------------
    def run(self) -> None:
        ctx = self.ctx
        self._new_session()
        self.sim.after(RT, "timer", self._timer)
        deadline = self.quiesce + ROUNDS * RT
        self.sim.run(until=deadline)
        if self.sim.capped:
            raise RunAborted("event cap")
        ctx.check(
            P, "session-completes", self.done,
            lambda: f"not complete at t={deadline} (faults stopped at {self.quiesce}): session {self.sid}, "
            f"{len(self.got1)}/{self.n} nonces, {len(self.got2)}/{self.n} partial signatures",
            site=self.scheme.kind,
        )
        self.sim.run()  # late duplicates still reach the signers
        ctx.check(
            P, "nonce-signs-at-most-once", all(c <= 1 for c in self.signed_by.values()),
            "one secnonce produced two partial signatures", site=self.scheme.kind,
        )
        ctx.state(f"{self.scheme.kind}:sessions={min(self.sid + 1, 4)}:n={self.n}")
        ctx.sample["sessions"] = self.sid + 1

    def _send(self, i: int, kind: str, body: Any = None) -> None:
        self.net.send("agg", f"s{i}", (kind, self.sid, i, body), kind)

    def _new_session(self) -> None:
        self.sid += 1
        self.got1, self.got2, self.req2, self.asked_det, self.det_req = [], [], None, False, None
        self.ctx.log("session", self.sid, actor="agg")
        if self.sid:
            self.ctx.fault("session-restart", self.sid)
        for i in range(self.n):
            if i != self.det:
                self._send(i, "start")
        self._advance()

    def _advance(self) -> None:
        """Whatever the state now allows: ask the deterministic signer, open round 2, finish."""
        have1 = {i for i, _ in self.got1}
        if self.req2 is None and self.det is not None and not self.asked_det and len(have1) == self.n - 1:
            self.asked_det = True
            with self.ctx.must_succeed(P, "honest-step-succeeds", "nonce_agg-others"):
                others = self.scheme.agg_other([p for _, p in self.got1])
            self.det_req = others
            self._send(self.det, "det", others)
        if self.req2 is None and len(have1) == self.n:
            self.req2 = self.scheme.collect1(self.got1)
            self.ctx.state(f"{self.scheme.kind}:round2:n={self.n}")
            have2 = {i for i, _ in self.got2}
            for i in range(self.n):
                if i not in have2:
                    self._send(i, "sign", self.req2)
        if self.req2 is not None and len(self.got2) == self.n and not self.done:
            self.scheme.finish(self.got1, self.got2, self.req2)
            self.done = True
            self.ctx.log("complete", self.sid, actor="agg")

    def _timer(self) -> None:
        if self.done:
            return
        have1 = {i for i, _ in self.got1}
        have2 = {i for i, _ in self.got2}
        for i in range(self.n):
            if self.req2 is None and i not in have1:
                if i != self.det:
                    self._send(i, "start")
                elif self.asked_det:
                    self._send(i, "det", self.det_req)
            elif self.req2 is not None and i not in have2:
                self._send(i, "sign", self.req2)
        self.sim.after(RT, "timer", self._timer)

    def _deliver(self, src: str, dst: str, msg: tuple[str, int, int, Any]) -> None:
        if dst == "agg":
            self._on_reply(*msg)
            return
        s = self.signers[msg[2]]
        if not s.up:
            self.ctx.fault("down-drop", msg[0], actor=s.name)
            return
        self._on_request(s, msg[0], msg[1], msg[3])

    def _on_reply(self, kind: str, sid: int, i: int, body: Any) -> None:
        if sid != self.sid or self.done:
            return  # an answer of an abandoned session, or after the end
        if kind == "lost":
            self._new_session()
            return
        if kind in ("nonce", "detr") and self.req2 is None and all(j != i for j, _ in self.got1):
            self.got1.append((i, body[0] if kind == "detr" else body))
            if kind == "detr":
                self.got2.append((i, body[1]))
        elif kind == "psig" and self.req2 is not None and all(j != i for j, _ in self.got2):
            self.got2.append((i, body))
            self.scheme.check2(i, self.got1, self.got2, self.req2)
        self._advance()

    # -- signers ----------------------------------------------------------------
    def _reply(self, s: _Signer, kind: str, sid: int, body: Any = None) -> None:
        self.net.send(s.name, "agg", (kind, sid, s.i, body), kind)

    def _on_request(self, s: _Signer, kind: str, sid: int, body: Any) -> None:
        ctx, sch = self.ctx, self.scheme
        if sid < s.max_sid:
            return  # stale
        if kind == "det":  # stateless: derived from the key and the session, nothing to lose
            with ctx.must_succeed(P, "honest-step-succeeds", "deterministic_sign"):
                out = sch.det_sign(s.i, body)
            ctx.probe("deterministic-sign")
            self._reply(s, "detr", sid, out)
        elif kind == "start":
            if sid > s.max_sid:
                s.max_sid = sid
                s.sec, s.sent1, s.sent2 = {}, {}, {}  # older secnonces are never used again
                self.serial += 1
                with ctx.must_succeed(P, "honest-step-succeeds", "nonce_gen"):
                    sec, s.sent1[sid] = sch.round1(s.i)
                s.sec[sid] = (self.serial, sec)
                self._reply(s, "nonce", sid, s.sent1[sid])
                self._maybe_crash(s)
            elif sid in s.sent1:
                self._reply(s, "nonce", sid, s.sent1[sid])
            else:
                self._reply(s, "lost", sid)
        elif kind == "sign":
            if sid not in s.sec:
                self._reply(s, "lost", sid)
            elif sid in s.sent2:
                # the request again (duplicate or retransmission): it reaches sign with the spent secnonce
                try:
                    sch.round2(s.i, s.sec[sid][1], body)
                except BTClibException as e:
                    ctx.log("spent-nonce-refused", type(e).__name__, actor=s.name)
                    ctx.probe("spent-nonce-refused")
                    ctx.check(P, "spent-nonce-refused", True)
                else:
                    self.signed_by[s.sec[sid][0]] += 1
                    ctx.check(P, "spent-nonce-refused", False, f"signer {s.i} signed twice with one secnonce", site=sch.kind)
                self._reply(s, "psig", sid, s.sent2[sid])
            else:
                with ctx.must_succeed(P, "honest-step-succeeds", "sign"):
                    s.sent2[sid] = sch.round2(s.i, s.sec[sid][1], body)
                self.signed_by[s.sec[sid][0]] += 1
                self._reply(s, "psig", sid, s.sent2[sid])

    def _maybe_crash(self, s: _Signer) -> None:
        """Between the rounds: the nonce is out, the signature is not."""
        ch = self.ctx.ch
        if not (self.crashes_left and self.net.faults_active() and ch.chance(1, 3, "crash?")):
            return
        self.crashes_left -= 1

        def crash() -> None:
            if not (s.up and self.net.faults_active()):
                return
            s.up = False
            s.sec, s.sent1, s.sent2 = {}, {}, {}
            self.ctx.fault("signer-crash", s.i, actor=s.name)

        def restart() -> None:
            if not s.up:
                s.up = True
                self.ctx.log("restart", actor=s.name)

        at = ch.draw(RT, "crash.at")
        self.sim.after(at, "crash", crash)
        self.sim.after(at + 1 + ch.draw(RT, "crash.down"), "restart", restart)


# ---------------------------------------------------------------------------
# scheme 1: btclib.ecc.musig2
# ---------------------------------------------------------------------------
def _tweak(ctx: Ctx) -> bytes:
    k = ctx.ch.draw(8, "tweak.kind")
    t = ctx.ch.draw(3, "tweak.small") if k == 0 else N - 1 - ctx.ch.draw(3, "tweak.big") if k == 1 else ctx.ch.draw(N, "tweak")
    return t.to_bytes(32, "big")


class _Raw:
    kind = "musig2"

    def __init__(self, ctx: Ctx) -> None:
        from btclib.ecc import musig2  # noqa: PLC0415

        ch = ctx.ch
        self.ctx, self.m = ctx, musig2
        self.n = n = 1 + ch.draw(6, "signers")
        self.prv: list[int] = []
        for i in range(n):
            if i and ch.chance(1, 5, "dupkey?"):
                self.prv.append(ch.pick(self.prv, "dupof"))
                ctx.probe("duplicate-key")
            else:
                self.prv.append(gk.scalar(ch, "prv"))
        self.pk = [musig2.individual_pub_key(q) for q in self.prv]
        order = ch.pick(["given", "shuffled", "sorted"], "order")
        self.keys = list(self.pk) if order == "given" else ch.shuffled(self.pk, "order.perm") if order == "shuffled" else musig2.key_sort(self.pk)
        self.tweaks = [_tweak(ctx) for _ in range(ch.draw(4, "ntweaks"))]
        self.xonly = [bool(ch.draw(2, "xonly")) for _ in self.tweaks]
        mlen = ch.weighted([(32, 3), (0, 1), (1 + ch.draw(100, "msglen"), 2)], "msg.kind")
        self.msg = ch.nbytes(mlen, "msg")
        self.t = gk.scalar(ch, "adaptor") if ch.chance(1, 3, "adaptor?") else None
        self.T = gk.compressed(self.t) if self.t else None
        self.det = ch.draw(n, "det.who") if n > 1 and self.t is None and ch.chance(1, 3, "det?") else None
        self.det_rand = ch.nbytes(32, "det.rand") if ch.draw(2, "det.rand?") else None
        with ctx.must_succeed(P, "honest-step-succeeds", "key_agg_and_tweak"):
            self.Q = musig2.key_agg_and_tweak(self.keys, self.tweaks, self.xonly).x_only_pub_key
        self.agg_session: Any = None
        ctx.log("musig2", f"n={n}", order, f"tweaks={''.join('x' if x else 'p' for x in self.xonly)}", f"msg={mlen}", f"adaptor={self.t is not None}", f"det={self.det}")
        ctx.sample["musig2"] = {"n": n, "order": order, "tweaks": len(self.tweaks), "msglen": mlen}
        if self.t:
            ctx.probe("adaptor-session")

    def _session(self, agg_nonce: bytes) -> Any:
        """Every party assembles the session context for itself."""
        if self.T is not None and self.ctx.ch.chance(1, 4, "session.plain-twin-first?"):
            # a party's software that first looks at the session as BIP327 defines it -- the same nonce, keys, tweaks and
            # message, no adaptor -- e.g. to show the user the key it signs for: public data, and another session
            twin = self.m.SessionContext(agg_nonce, self.keys, self.tweaks, self.xonly, self.msg)
            self.m.session_values(twin)
            self.ctx.fault("plain-twin-session-derived-first")
        return self.m.SessionContext(agg_nonce, self.keys, self.tweaks, self.xonly, self.msg, self.T)

    def round1(self, i: int) -> tuple[bytearray, bytes]:
        ch = self.ctx.ch
        opt = ch.draw(16, "noncegen.opts")
        return self.m.nonce_gen(
            self.prv[i] if opt & 1 else None, self.pk[i], self.Q if opt & 2 else None,
            self.msg if opt & 4 else None, ch.nbytes(ch.draw(6, "extra.len"), "extra") if opt & 8 else None,
        )

    def agg_other(self, pubnonces: list[bytes]) -> bytes:
        return self.m.nonce_agg(pubnonces)

    def det_sign(self, i: int, agg_other: bytes) -> tuple[bytes, bytes]:
        return self.m.deterministic_sign(self.prv[i], agg_other, self.keys, self.tweaks, self.xonly, self.msg, self.det_rand)

    def collect1(self, got1: list[tuple[int, bytes]]) -> bytes:
        ctx = self.ctx
        with ctx.must_succeed(P, "honest-step-succeeds", "nonce_agg"):
            agg = self.m.nonce_agg([p for _, p in got1])
            by_index = self.m.nonce_agg([p for _, p in sorted(got1)])
            other = self.m.nonce_agg([p for _, p in ctx.ch.shuffled(got1, "nonce.perm")])
        ctx.check(
            P, "nonce-agg-order-independent", agg == by_index == other,
            lambda: f"arrival {[i for i, _ in got1]}: {agg.hex()} != index order {by_index.hex()} / {other.hex()}",
        )
        ctx.log("aggnonce", agg[:8], [i for i, _ in got1], actor="agg")
        self.agg_session = self._session(agg)
        return agg

    def round2(self, i: int, sec: bytearray, agg_nonce: bytes) -> bytes:
        return self.m.sign(sec, self.prv[i], self._session(agg_nonce))

    def check2(self, i: int, got1: list[tuple[int, bytes]], got2: list[tuple[int, bytes]], agg_nonce: bytes) -> None:
        psig = dict(got2)[i]
        with self.ctx.must_succeed(P, "honest-step-succeeds", "partial_sig_verify_"):
            ok = self.m.partial_sig_verify_(psig, dict(got1)[i], self.pk[i], self.agg_session)
        self.ctx.check(
            P, "partial-sig-verifies", ok,
            lambda: f"signer {i} of {self.n} (det={self.det}, bindings={st.backend()}, msg={len(self.msg)}): psig {psig.hex()}",
            site="deterministic_sign" if i == self.det else "sign",
        )

    def finish(self, got1: list[tuple[int, bytes]], got2: list[tuple[int, bytes]], agg_nonce: bytes) -> None:
        ctx, m = self.ctx, self.m
        from btclib.ecc import ssa  # noqa: PLC0415

        if self.det is not None:
            self.check2(self.det, got1, got2, agg_nonce)
        psigs = [p for _, p in got2]
        sess = self.agg_session
        v = m.session_values(sess)
        ctx.probe("final-nonce-odd-y" if v.R[1] % 2 else "final-nonce-even-y")
        ctx.probe("aggregate-key-odd-y" if v.Q[1] % 2 else "aggregate-key-even-y")
        if v.gacc != 1:
            ctx.probe("gacc-negated")
        if self.t is None:
            with ctx.must_succeed(P, "honest-step-succeeds", "partial_sig_agg"):
                sig = m.partial_sig_agg(psigs, sess)
        else:
            with ctx.must_succeed(P, "honest-step-succeeds", "adaptor"):
                pre = m.partial_sig_agg_adaptor(psigs, sess)
                sig = m.adapt(pre, self.t, self._session(agg_nonce))
                revealed = m.extract_adaptor(sig, pre, self._session(agg_nonce))
            ctx.check(P, "adaptor-extracts", revealed == self.t.to_bytes(32, "big"), lambda: f"extract_adaptor gave {revealed.hex()}, the secret is {self.t:064x}")
        _assert_bip340(ctx, self.msg, self.Q, sig, "adaptor" if self.t else "musig2", ssa)


def _assert_bip340(ctx: Ctx, msg: bytes, x_only: bytes, sig: Any, site: str, ssa: Any) -> None:
    with ctx.must_succeed(P, "honest-step-succeeds", "ssa.verify_"):
        ok = ssa.verify_(msg, x_only, sig)
        raw = sig.serialize()
    ctx.log("aggregate", raw[:8], ok)
    inv = "adaptor-completes" if site == "adaptor" else "aggregate-verifies-ssa"
    ctx.check(P, inv, ok, lambda: f"ssa.verify_ False for key {x_only.hex()} msg {msg.hex()} sig {raw.hex()}", site=site)
    ctx.check(
        P, "aggregate-verifies-bip340-reference", lambda: ref340.verify(msg, x_only, raw),
        lambda: f"reference BIP340 verifier rejects key {x_only.hex()} msg {msg.hex()} sig {raw.hex()}", site=site,
    )


# ---------------------------------------------------------------------------
# scheme 2: BIP373 over a PSBT
# ---------------------------------------------------------------------------
class _Bip373:
    kind = "bip373"
    det = None

    def __init__(self, ctx: Ctx) -> None:
        from btclib.ecc import musig2  # noqa: PLC0415
        from btclib.psbt import Psbt  # noqa: PLC0415
        from btclib.psbt import musig2 as pm  # noqa: PLC0415
        from btclib.tx.out_point import OutPoint  # noqa: PLC0415
        from btclib.tx.tx import Tx  # noqa: PLC0415
        from btclib.tx.tx_in import TxIn  # noqa: PLC0415
        from btclib.tx.tx_out import TxOut  # noqa: PLC0415

        ch = ctx.ch
        self.ctx, self.pm, self.Psbt = ctx, pm, Psbt
        self.n = n = 1 + ch.draw(3, "signers")
        self.prv: list[int] = []
        while len(self.prv) < n:  # distinct: the PSBT files nonces by participant key
            q = gk.scalar(ch, "prv")
            if q not in self.prv and N - q not in self.prv:
                self.prv.append(q)
        self.pk = [musig2.individual_pub_key(q) for q in self.prv]
        self.n_in = n_in = 1 + ch.chance(1, 3, "inputs")
        tx = Tx(
            2, ch.pick([0, 500000], "locktime"),
            [TxIn(OutPoint(ch.nbytes(32, "txid"), ch.draw(3, "vout")), b"", 0xFFFFFFFD) for _ in range(n_in)],
            [TxOut(5000 + ch.draw(1000, "amount"), b"\x00\x14" + ch.nbytes(20, "dest")) for _ in range(n_in)],
        )
        psbt = Psbt.from_tx(tx)
        self.agg: list[bytes] = []
        self.leaf: list[bytes] = []
        modes = []
        for v in range(n_in):
            # the participant list may name a key more than once (each distinct signer still signs once:
            # the psbt files nonces and partial signatures by participant key, the session counts slots)
            dupes = [self.pk[ch.draw(n, "dupkey.of")] for _ in range(ch.draw(3, "dupkey.n"))] if ch.draw(3, "dupkey?") == 2 else []
            if dupes:
                ctx.probe("bip373-duplicate-participant")
            keys = ch.shuffled(self.pk + dupes, "order.perm")
            sort = bool(ch.draw(2, "sort"))
            mode = ch.pick(["output", "internal", "derived", "script"], "mode")
            modes.append(mode)
            with ctx.must_succeed(P, "honest-step-succeeds", "add_participant_pub_keys"):
                agg = pm.add_participant_pub_keys(psbt.inputs[v], keys, sort=sort)
            spk, leaf_hash = self._updater(psbt.inputs[v], agg, mode)
            psbt.inputs[v].witness_utxo = TxOut(20000, spk)
            sht = ch.pick([None, 1, 0, 2, 3, 0x81, 0x83], "sighash")
            if sht is not None:
                psbt.inputs[v].sig_hash_type = sht
            self.agg.append(agg)
            self.leaf.append(leaf_hash)
        if ch.draw(2, "v2"):
            psbt = psbt.to_v2()
        self.base = psbt.serialize()
        ctx.log("bip373", f"n={n}", modes, f"v{psbt.version}")
        ctx.sample["bip373"] = {"n": n, "modes": modes}
        for mode in modes:
            ctx.state(f"bip373:{mode}")

    def _updater(self, pin: Any, agg: bytes, mode: str) -> tuple[bytes, bytes]:
        """The wallet's side: how the aggregate key reaches the output being spent."""
        from btclib.bip32 import BIP328_CHAIN_CODE, BIP32KeyData, BIP32KeyOrigin, bip32  # noqa: PLC0415
        from btclib.hashes import hash160  # noqa: PLC0415
        from btclib.script import taproot  # noqa: PLC0415

        ch = self.ctx.ch
        other_leaf = [(0xC0, [gk.xonly(gk.scalar(ch, "leafkey")), "OP_CHECKSIG"])]
        tree = ch.draw(2, "tree")
        leaf_hash = b""
        if mode == "output":
            okey = agg[1:]
        elif mode == "internal":
            root = taproot.tree_helper(other_leaf)[1] if tree else b""
            okey = taproot.output_pubkey_from_merkle_root(agg[1:], root)[0]
            pin.taproot_internal_key, pin.taproot_merkle_root = agg[1:], root
        elif mode == "derived":
            xpub = BIP32KeyData(bytes.fromhex("0488B21E"), 0, bytes(4), 0, BIP328_CHAIN_CODE, agg).b58encode()
            path = "m/" + "/".join(str(ch.pick([0, 1, 7, 2**31 - 1], "step")) for _ in range(1 + ch.draw(3, "depth")))
            ik = BIP32KeyData.b58decode(bip32.derive(xpub, path)).key[1:]
            root = taproot.tree_helper(other_leaf)[1] if tree else b""
            okey = taproot.output_pubkey_from_merkle_root(ik, root)[0]
            pin.taproot_internal_key, pin.taproot_merkle_root = ik, root
            pin.taproot_hd_key_paths = {ik: ([], BIP32KeyOrigin(hash160(agg)[:4], path))}
        else:
            mine = [(0xC0, [agg[1:], "OP_CHECKSIG"])]
            which = ch.draw(2, "leafpos")
            script_tree: Any = mine if not tree else [other_leaf, mine] if which else [mine, other_leaf]
            ik = gk.xonly(gk.scalar(ch, "internal"))
            okey = taproot.output_pubkey(b"\x02" + ik, script_tree)[0]
            script, control = taproot.input_script_sig(b"\x02" + ik, script_tree, which if tree else 0)
            script_b = taproot.serialize(script)
            leaf_hash = taproot.leaf_hash(0xC0, script_b)
            pin.taproot_internal_key = ik
            pin.taproot_merkle_root = taproot.tree_helper(script_tree)[1]
            pin.taproot_leaf_scripts = {control: (script_b, 0xC0)}
        return b"\x51\x20" + okey, leaf_hash

    def round1(self, i: int) -> tuple[list[bytearray], bytes]:
        copy = self.Psbt.parse(self.base)
        secs = [self.pm.nonce_gen(copy, v, self.prv[i], self.agg[v], leaf_hash=self.leaf[v]) for v in range(self.n_in)]
        return secs, copy.serialize()

    def _combine(self, blobs: list[bytes]) -> Any:
        from btclib.psbt import combine  # noqa: PLC0415

        return combine([self.Psbt.parse(b) for b in blobs])

    def collect1(self, got1: list[tuple[int, bytes]]) -> bytes:
        ctx = self.ctx
        with ctx.must_succeed(P, "honest-step-succeeds", "combine-round1"):
            merged = self._combine([b for _, b in got1])
            by_index = self._combine([b for _, b in sorted(got1)])
            a = [self.pm.session_context(merged, v, self.agg[v], leaf_hash=self.leaf[v]).context.agg_nonce for v in range(self.n_in)]
            b = [self.pm.session_context(by_index, v, self.agg[v], leaf_hash=self.leaf[v]).context.agg_nonce for v in range(self.n_in)]
        ctx.check(P, "nonce-agg-order-independent", a == b, lambda: f"arrival {[i for i, _ in got1]}: {a} != index order {b}", site="bip373")
        ctx.log("aggnonce", a[0][:8], [i for i, _ in got1], actor="agg")
        return merged.serialize()

    def round2(self, i: int, secs: list[bytearray], blob: bytes) -> bytes:
        copy = self.Psbt.parse(blob)
        for v in range(self.n_in):
            self.pm.partial_sign(copy, v, secs[v], self.prv[i], self.agg[v], leaf_hash=self.leaf[v])
        return copy.serialize()

    def check2(self, i: int, got1: Any, got2: list[tuple[int, bytes]], blob: bytes) -> None:
        with self.ctx.must_succeed(P, "honest-step-succeeds", "partial_sig_verify"):
            copy = self.Psbt.parse(dict(got2)[i])
            oks = [self.pm.partial_sig_verify(copy, v, self.pk[i], self.agg[v], leaf_hash=self.leaf[v]) for v in range(self.n_in)]
        self.ctx.check(P, "partial-sig-verifies", all(oks), lambda: f"signer {i}: {oks} (bindings={st.backend()})", site="bip373")

    def finish(self, got1: Any, got2: list[tuple[int, bytes]], blob: bytes) -> None:
        from btclib.ecc import ssa  # noqa: PLC0415
        from btclib.psbt import extract_tx, finalize  # noqa: PLC0415
        from btclib.psbt.psbt import prevouts, taproot_sig_hash  # noqa: PLC0415
        from btclib.script.engine import verify_transaction  # noqa: PLC0415

        ctx = self.ctx
        with ctx.must_succeed(P, "honest-step-succeeds", "combine-round2"):
            signed = self._combine([b for _, b in got2])
        for v in range(self.n_in):
            with ctx.must_succeed(P, "honest-step-succeeds", "partial_sigs_agg"):
                msg = taproot_sig_hash(signed, v, leaf_hash=self.leaf[v])
                key = self.pm.session_context(signed, v, self.agg[v], leaf_hash=self.leaf[v]).key_agg_ctx.x_only_pub_key
                sig = self.pm.partial_sigs_agg(signed, v, self.agg[v], leaf_hash=self.leaf[v])
            _assert_bip340(ctx, msg, key, sig, "bip373", ssa)
        with ctx.must_succeed(P, "spend-accepted-by-engine", "bip373"):
            tx = extract_tx(finalize(signed))
            verify_transaction(prevouts(signed), tx)
        ctx.log("spend-accepted", tx.id[:8])


# ---------------------------------------------------------------------------
# two-party schemes
# ---------------------------------------------------------------------------
def _pad_xor(key: bytes, iv: bytes, data: bytes) -> bytes:
    stream = b"".join(hashlib.sha256(key + iv + j.to_bytes(4, "big")).digest() for j in range(len(data) // 32 + 1))
    return bytes(a ^ b for a, b in zip(data, stream))


def _toy_encrypt(key: bytes, iv: bytes, msg: bytes) -> bytes:
    """The caller-supplied cipher of ECIES, stubbed: PKCS#7 padding and a hash keystream."""
    pad = 16 - len(msg) % 16
    return _pad_xor(key, iv, msg + bytes([pad]) * pad)


def _toy_decrypt(key: bytes, iv: bytes, data: bytes) -> bytes:
    out = _pad_xor(key, iv, data)
    return out[: -out[-1]]


def _two_party(ctx: Ctx) -> None:
    ops = {"dh": _dh, "ellswift": _ellswift, "ecies": _ecies, "dleq": _dleq, "pedersen": _pedersen, "borromean": _borromean}
    only = ctx.cfg.get("only")
    for _ in range(2 + ctx.ch.draw(5, "nops")):
        name = only or ctx.ch.pick(list(ops), "op")
        ops[name](ctx, bool(ctx.cfg.get("faults")))
        ctx.state(f"twoparty:{name}:{st.backend()}")


def _dh(ctx: Ctx, faults: bool) -> None:
    from btclib import kdf  # noqa: PLC0415
    from btclib.curves import CURVES, mult  # noqa: PLC0415
    from btclib.ecc.dh import diffie_hellman  # noqa: PLC0415

    ch = ctx.ch
    name = "secp256k1" if ch.draw(4, "curve.default") == 0 else ch.pick(sorted(CURVES), "curve")
    ec = CURVES[name]
    hf = ch.pick([hashlib.sha256, hashlib.sha1, hashlib.sha512, hashlib.sha3_256], "hf")
    a, b = gk.scalar(ch, "a", ec.n), gk.scalar(ch, "b", ec.n)
    size = ch.pick([32, 1, 16, 33, 64, 100], "size")
    info = ch.nbytes(ch.draw(8, "info.len"), "info") if ch.draw(2, "info?") else None
    with ctx.must_succeed(P, "honest-step-succeeds", "diffie_hellman"):
        QA = mult(a, ec.G, ec)
        _flip(ctx, "backend.b")
        QB = mult(b, ec.G, ec)
        kb = diffie_hellman(b, QA, size, info, ec, hf)
        okm_b = kdf.hkdf_expand(kdf.hkdf_extract(kb, info, hf), size, hf, b"session")
        _flip(ctx, "backend.a")
        ka = diffie_hellman(a, QB, size, info, ec, hf)
        okm_a = kdf.hkdf(ka, size, hf, info, b"session")
    ctx.log("dh", name, hf().name, size, ka[:8])
    ctx.check(P, "ecdh-sides-agree", ka == kb and len(ka) == size, lambda: f"{name}/{hf().name}: {ka.hex()} != {kb.hex()} (a={a}, b={b})", site=name)
    ctx.check(P, "hkdf-sides-agree", okm_a == okm_b and len(okm_a) == size, lambda: f"{hf().name}: {okm_a.hex()} != {okm_b.hex()}", site=hf().name)


def _ellswift(ctx: Ctx, faults: bool) -> None:
    from btclib.curves import CURVES, mult  # noqa: PLC0415
    from btclib.ecc import ellswift  # noqa: PLC0415

    ch = ctx.ch
    name = ch.pick(["secp256k1", "secp192k1", "secp160k1", "secp224k1"], "curve")
    ec = CURVES[name]
    a, b = gk.scalar(ch, "a", ec.n), gk.scalar(ch, "b", ec.n)
    with ctx.must_succeed(P, "honest-step-succeeds", "ellswift"):
        _flip(ctx, "backend.a")
        ell_a = ellswift.create_var(a, ec)
        back_a = ellswift.decode_var(ell_a, ec)
        _flip(ctx, "backend.b")
        QB = mult(b, ec.G, ec)
        ell_b = ellswift.encode_var(QB, ec) if ch.draw(2, "b.encodes") else ellswift.create_var(b, ec)
        back_b = ellswift.decode_var(ell_b, ec)
        secret_b = ellswift.xdh(ell_a, ell_b, b, 1, ec)
        _flip(ctx, "backend.a2")
        secret_a = ellswift.xdh(ell_a, ell_b, a, 0, ec)
        QA = mult(a, ec.G, ec)
    ctx.log("ellswift", name, ell_a[:8], ell_b[:8], secret_a[:8])
    ctx.check(P, "ellswift-decodes-to-key", back_a == QA and back_b == QB, lambda: f"{name}: decode(create({a})) = {back_a}, key {QA}; decode(b) = {back_b}, key {QB}", site=name)
    ctx.check(P, "xdh-sides-agree", secret_a == secret_b, lambda: f"{name}: initiator {secret_a.hex()} != responder {secret_b.hex()}", site=name)


def _ecies(ctx: Ctx, faults: bool) -> None:
    import base64  # noqa: PLC0415

    from btclib.curves import mult  # noqa: PLC0415
    from btclib.ecc import ecies  # noqa: PLC0415

    ch = ctx.ch
    q = gk.scalar(ch, "recipient")
    msg = ch.nbytes(ch.pick([5, 0, 15, 16, 17, 32, 70], "msglen"), "msg")
    magic = ch.pick([ecies.MAGIC, b"BIE2"], "magic")
    # the recipient's key as the sender was handed it: every spelling PubKey declares
    Q = mult(q)
    sec33 = bytes([2 + Q[1] % 2]) + Q[0].to_bytes(32, "big")
    sec65 = b"\x04" + Q[0].to_bytes(32, "big") + Q[1].to_bytes(32, "big")
    spelling = ch.pick(["point", "sec33", "sec65", "hex33", "hex65"], "ecies.pub-spelling")
    pub: Any = {"point": Q, "sec33": sec33, "sec65": sec65, "hex33": sec33.hex(), "hex65": sec65.hex()}[spelling]
    ctx.state(f"ecies:{spelling}")
    with ctx.must_succeed(P, "honest-step-succeeds", "ecies.encrypt"):
        armor = ecies.encrypt(msg, pub, _toy_encrypt, magic=magic)
    _flip(ctx, "backend.rcpt")
    with ctx.must_succeed(P, "honest-step-succeeds", "ecies.decrypt"):
        back = ecies.decrypt(armor, q, _toy_decrypt, magic=magic)
    ctx.log("ecies", len(msg), armor[:12])
    ctx.check(P, "ecies-decrypts-to-message", back == msg, lambda: f"decrypt gave {back.hex()}, sent {msg.hex()}")
    if not faults:
        return
    if ch.draw(2, "ecies.fault"):
        other = gk.scalar(ch, "other")
        if other in (q, N - q):
            return
        ctx.fault("other-key")
        inv, call = "ecies-other-key-refused", lambda: ecies.decrypt(armor, other, _toy_decrypt, magic=magic)
    else:
        raw = base64.b64decode(armor)
        bad, how = corrupt_bytes(ch, raw)
        if bad == raw:
            return
        ctx.fault("corrupt-envelope", how)
        inv, call = "ecies-corrupted-refused", lambda: ecies.decrypt(base64.b64encode(bad).decode(), q, _toy_decrypt, magic=magic)
    try:
        got = call()
    except BTClibException as e:
        ctx.log("refused", type(e).__name__)
        ctx.check(P, inv, True)
    except Exception as e:  # noqa: BLE001
        ctx.check(P, inv, False, f"refused with {type(e).__name__}: {e}, not a library exception")
    else:
        ctx.check(P, inv, False, f"decrypt answered {bytes(got).hex()} (sent {msg.hex()})")


def _dleq(ctx: Ctx, faults: bool) -> None:
    from btclib.curves import mult, secp256k1  # noqa: PLC0415
    from btclib.ecc import dleq  # noqa: PLC0415

    ch = ctx.ch
    a = gk.scalar(ch, "a")
    B = mult(gk.scalar(ch, "b"))
    G = mult(gk.scalar(ch, "g")) if ch.draw(2, "G?") else secp256k1.G
    msg = ch.nbytes(32, "msg") if ch.draw(2, "msg?") else None
    with ctx.must_succeed(P, "honest-step-succeeds", "dleq.generate_proof"):
        proof = dleq.generate_proof(a, B, None, G, msg)
        A, C = mult(a, G), mult(a, B)
    _flip(ctx, "backend.verifier")
    with ctx.must_succeed(P, "honest-step-succeeds", "dleq.verify_proof"):
        ok = dleq.verify_proof(A, B, C, proof, G, msg)
    ctx.log("dleq", proof[:8], ok)
    ctx.check(P, "dleq-verifies", ok, lambda: f"a={a} B={B} G={G} msg={msg!r} proof={proof.hex()}")
    if not faults:
        return
    what = ch.pick(["A", "B", "C", "G", "msg"], "alter")
    st_ = {"A": A, "B": B, "C": C, "G": G, "msg": msg}
    if what == "msg":
        st_["msg"] = None if msg is not None and ch.draw(2, "msg.drop") else bytes(x ^ 1 for x in (msg or bytes(32)))[:31] + ch.nbytes(1, "msg.last")
        if st_["msg"] == msg:
            return
    else:
        k = ch.pick(["negate", "plusG", "other"], "alter.how")
        pt = st_[what]
        st_[what] = secp256k1.negate(pt) if k == "negate" else secp256k1.add_var(pt, secp256k1.G) if k == "plusG" else mult(gk.scalar(ch, "alt"))
        if st_[what] == pt or st_[what][1] == 0:
            return
    ctx.fault("altered-statement", what)
    with ctx.must_succeed(P, "honest-step-succeeds", "dleq.verify_proof"):
        ok2 = dleq.verify_proof(st_["A"], st_["B"], st_["C"], proof, st_["G"], st_["msg"])
    ctx.check(P, "dleq-altered-statement-rejected", not ok2, f"the proof verifies with {what} altered", site=what)


def _pedersen(ctx: Ctx, faults: bool) -> None:
    from btclib.curves import CURVES  # noqa: PLC0415
    from btclib.ecc import pedersen  # noqa: PLC0415

    ch = ctx.ch
    name = ch.pick(["secp256k1", "secp256r1", "secp192k1", "bpp160r1"], "curve")
    ec = CURVES[name]
    hf = ch.pick([hashlib.sha256, hashlib.sha512], "hf")
    r, v = gk.scalar(ch, "r", ec.n), ch.pick([0, 1, ec.n - 1, ch.draw(ec.n, "v")], "v.kind")
    with ctx.must_succeed(P, "honest-step-succeeds", "pedersen"):
        C = pedersen.commit(r, v, ec, hf)
        _flip(ctx, "backend.verifier")
        ok = pedersen.verify(r, v, C, ec, hf)
    ctx.log("pedersen", name, C[0] % 2**64, ok)
    ctx.check(P, "pedersen-opens", ok, lambda: f"{name}: commit({r}, {v}) = {C} does not open", site=name)


def _borromean(ctx: Ctx, faults: bool) -> None:
    from btclib.curves import CURVES, mult  # noqa: PLC0415
    from btclib.ecc import borromean  # noqa: PLC0415

    ch = ctx.ch
    name = ch.pick(["secp256k1", "secp160r1", "secp192k1"], "curve")
    ec = CURVES[name]
    rings, idx, keys, ks = [], [], [], []
    for _ in range(1 + ch.draw(3, "rings")):
        size = 1 + ch.draw(4, "ring.size")
        prv = [gk.scalar(ch, "member", ec.n) for _ in range(size)]
        j = ch.draw(size, "ring.me")
        rings.append([mult(q, ec.G, ec) for q in prv])
        idx.append(j)
        keys.append(prv[j])
        ks.append(gk.scalar(ch, "k", ec.n))
    msg = ch.nbytes(ch.draw(40, "msglen"), "msg")
    with ctx.must_succeed(P, "honest-step-succeeds", "borromean.sign"):
        sig = borromean.sign(msg, ks, idx, keys, rings, ec)
    _flip(ctx, "backend.verifier")
    with ctx.must_succeed(P, "honest-step-succeeds", "borromean.verify"):
        wire = name == "secp256k1" and ch.draw(2, "wire")
        ok = borromean.verify(msg, sig.serialize() if wire else sig, rings, ec)
    ctx.log("borromean", name, [len(r) for r in rings], idx, sig.e0[:6], ok)
    ctx.check(P, "borromean-verifies", ok, lambda: f"{name} rings {[len(r) for r in rings]} signer positions {idx}: s={sig.s}", site=name)


# ---------------------------------------------------------------------------
# silent payments
# ---------------------------------------------------------------------------
class _Input:
    """One input of the sender's transaction, as both sides see it."""

    def __init__(self, ctx: Ctx, kind: str, outpoint: Any) -> None:
        from btclib.hashes import hash160  # noqa: PLC0415
        from btclib.script.witness import Witness  # noqa: PLC0415

        ch = ctx.ch
        self.kind, self.outpoint = kind, outpoint
        self.prv = gk.scalar(ch, "input.prv")
        sec = gk.compressed(self.prv)
        sig = b"\x30" + ch.nbytes(8, "sig")
        self.script_sig, self.witness, self.redeem = b"", Witness(), b""
        self.eligible = kind in ("p2tr", "p2wpkh", "p2pkh", "p2sh-p2wpkh")
        if kind == "p2tr":
            self.spk = b"\x51\x20" + sec[1:]
            self.witness = Witness([ch.nbytes(64, "schnorr")])
        elif kind == "p2wpkh":
            self.spk = b"\x00\x14" + hash160(sec)
            self.witness = Witness([sig, sec])
        elif kind == "p2pkh":
            self.spk = b"\x76\xa9\x14" + hash160(sec) + b"\x88\xac"
            self.script_sig = bytes([len(sig)]) + sig + b"\x21" + sec
        elif kind == "p2sh-p2wpkh":
            self.redeem = b"\x00\x14" + hash160(sec)
            self.spk = b"\xa9\x14" + hash160(self.redeem) + b"\x87"
            self.script_sig = b"\x16" + self.redeem
            self.witness = Witness([sig, sec])
        else:  # p2wsh: several keys or branches, BIP352 does not count it
            script = b"\x21" + sec + b"\xac"
            self.spk = b"\x00\x20" + hashlib.sha256(script).digest()
            self.witness = Witness([sig, script])

    def even_key(self) -> int:
        """The key whose public key is the one the recipient sums (BIP340's even-y one for taproot)."""
        return N - self.prv if self.kind == "p2tr" and gk.pub_point(self.prv)[1] % 2 else self.prv


class _Recipient:
    def __init__(self, ctx: Ctx, b_scan: int) -> None:
        ch = ctx.ch
        self.b_scan, self.b_spend = b_scan, gk.scalar(ch, "b_spend")
        self.labels = sorted({ch.pick([1, 0, 2, 2**32 - 1, ch.draw(2**32, "label")], "label.kind") for _ in range(ch.draw(3, "nlabels"))})
        self.paid = 0
        self.found: list[bytes] = []


def _silent_payments(ctx: Ctx) -> None:
    from btclib import silent_payments as sp  # noqa: PLC0415
    from btclib.curves import mult  # noqa: PLC0415
    from btclib.tx.out_point import OutPoint  # noqa: PLC0415

    ch = ctx.ch
    mode = ch.pick(["bip352", "bip375-inputs", "bip375-global"], "sender.mode") if ctx.cfg.get("bip375", True) else "bip352"
    # -- the sender's inputs ---------------------------------------------------
    txids = [ch.nbytes(32, "txid") for _ in range(2)]
    kinds = ["p2tr", "p2wpkh", "p2sh-p2wpkh", "p2wsh"] + (["p2pkh"] if mode == "bip352" else [])
    inputs: list[_Input] = []
    seen: set[bytes] = set()
    for i in range(1 + ch.draw(5, "inputs")):
        op = OutPoint(ch.pick(txids, "txid.which"), ch.pick([0, 1, 255, 256, 2**32 - 1, ch.draw(2**32, "vout")], "vout.kind"))
        if op.serialize() in seen:
            continue
        seen.add(op.serialize())
        inputs.append(_Input(ctx, ch.pick(kinds[:3] if i == 0 else kinds, "input.kind"), op))
    while sum(x.even_key() for x in inputs if x.eligible) % N == 0:  # BIP352's "fail": nothing to pay with
        ctx.probe("sp-zero-sum-avoided")
        inputs[0] = _Input(ctx, inputs[0].kind, inputs[0].outpoint)
    eligible = [x for x in inputs if x.eligible]
    outpoints = [x.outpoint for x in inputs]
    # -- recipients, addresses --------------------------------------------------
    scans: list[int] = []
    while len(scans) < 1 + ch.draw(4, "recipients"):
        q = gk.scalar(ch, "b_scan")
        if q not in scans and N - q not in scans:
            scans.append(q)
    recipients = [_Recipient(ctx, q) for q in scans]
    network = ch.pick(["mainnet", "testnet"], "network")
    addresses: list[str] = []
    pays: list[tuple[_Recipient, int | None]] = []
    with ctx.must_succeed(P, "honest-step-succeeds", "sp.address"):
        for _ in range(1 + ch.draw(6, "addresses")):
            r = ch.pick(recipients, "pay.whom")
            m = ch.pick([None, *r.labels], "pay.label")
            if pays and ch.chance(1, 4, "pay.repeat"):
                r, m = ch.pick(pays, "pay.again")
                ctx.probe("sp-repeated-address")
            B_spend = mult(r.b_spend)
            addresses.append(sp.address_from_keys(mult(r.b_scan), B_spend, network) if m is None else sp.labeled_address_from_keys(r.b_scan, B_spend, m, network))
            pays.append((r, m))
            r.paid += 1
            ctx.log("pay-plain" if m is None else "pay-labelled", m, actor=f"r{recipients.index(r)}")
            if m is not None:
                ctx.probe("sp-labelled-address")
    decoys = [gk.xonly(gk.scalar(ch, "decoy")) for _ in range(ch.draw(4, "decoys"))]
    for x in inputs:
        ctx.log("input-" + x.kind, x.outpoint.tx_id[:4], x.outpoint.vout, actor="sender")
    ctx.log("sp-" + mode, f"recipients={len(recipients)}", f"addresses={len(addresses)}", f"decoys={len(decoys)}", actor="sender")
    ctx.sample["sp"] = {"mode": mode, "inputs": [x.kind for x in inputs], "addresses": len(addresses)}
    # -- the sender --------------------------------------------------------------
    if mode == "bip352":
        with ctx.must_succeed(P, "honest-step-succeeds", "sp.output_keys"):
            created = sp.output_keys([(x.prv, x.spk) for x in eligible], outpoints, addresses)
    else:
        created = _bip375_sender(ctx, mode, inputs, addresses, decoys)
    ctx.log("created", [k[:4].hex() for k in created], actor="sender")
    ctx.check(P, "sp-one-key-per-address", len(set(created)) == len(addresses), lambda: f"{len(set(created))} distinct output keys for {len(addresses)} addresses")
    outputs = ch.shuffled(created + decoys, "outputs.order")
    # -- the scanners --------------------------------------------------------------
    for ri, r in enumerate(recipients):
        _flip(ctx, "backend.scanner")
        with ctx.must_succeed(P, "honest-step-succeeds", "sp.scan"):
            pubs = [(sp.pub_key_from_input(x.spk, x.script_sig, x.witness), x.spk) for x in inputs]
            pubs = [(Q, spk) for Q, spk in pubs if Q is not None]
            labels = sp.label_lookup(r.b_scan, sorted({0, *r.labels})) if r.labels or ch.draw(2, "change-label") else None
            if labels is not None and len(labels) > 1 and ch.draw(3, "labels.grown") == 2:
                # a wallet's label cache is built once and grows when the wallet hands out a new label: the map is a dict
                # (`dict[bytes, bytes]`, "once per wallet"), and a dict that grew is the dict the scan is owed answers from
                ms = ch.shuffled(sorted({0, *r.labels}), "labels.order")
                cut = 1 + ch.draw(len(ms) - 1, "labels.cut")
                labels = sp.label_lookup(r.b_scan, ms[:cut])
                how = ch.pick(["update", "setitem", "ior"], "labels.how")
                later = sp.label_lookup(r.b_scan, ms[cut:])
                if how == "update":
                    labels.update(later)
                elif how == "setitem":
                    for k in sorted(later):
                        labels[k] = later[k]
                else:
                    labels |= later
                ctx.fault("label-map-grown-in-place", how)
            full = sp.scan_transaction_outputs(r.b_scan, mult(r.b_spend), outpoints, pubs, outputs, labels)
            a_sum: Any = sp.pub_key_sum([Q for Q, _ in pubs])
            # what a server hands a light client is one public key, in whatever spelling of it: a PubKey is a point,
            # its compressed or uncompressed SEC octets, or their hex
            spelling = ch.pick(["point", "sec33", "sec65", "hex33", "hex65"], "sp.a-sum.spelling")
            if spelling != "point":
                octets = (bytes([2 + a_sum[1] % 2]) + a_sum[0].to_bytes(32, "big")) if spelling.endswith("33") else b"\x04" + a_sum[0].to_bytes(32, "big") + a_sum[1].to_bytes(32, "big")
                a_sum = octets.hex() if spelling.startswith("hex") else octets
            tweak = sp.tweak_data(outpoints, a_sum)
            ctx.probe(f"a-sum-spelling:{spelling}")
            light = sp.scan_outputs(r.b_scan, mult(r.b_spend), tweak, outputs, labels)
        site = f"bindings={st.backend()}"
        r.found = [o.pub_key for o in full]
        ctx.log("scan", [k[:4].hex() for k in r.found], actor=f"r{ri}")
        ctx.check(
            P, "sp-light-equals-full", sorted((o.pub_key, o.prv_key_tweak) for o in full) == sorted((o.pub_key, o.prv_key_tweak) for o in light),
            lambda: f"recipient {ri}: full scan {full} != light-client scan {light}", site=site,
        )
        ctx.check(
            P, "sp-found-count", len(set(r.found)) == len(r.found) == r.paid,
            lambda: f"recipient {ri} was paid {r.paid} outputs ({[(recipients.index(q), m) for q, m in pays]}), its scan found {len(r.found)}; inputs {[x.kind for x in inputs]}", site=site,
        )
        ctx.check(P, "sp-found-among-created", all(k in created for k in r.found), f"recipient {ri} found a key the sender did not create", site=site)
        ctx.check(P, "sp-no-decoy", not any(k in decoys for k in r.found), f"recipient {ri} claims a decoy", site=site)
        for o in full:
            with ctx.must_succeed(P, "honest-step-succeeds", "sp.prv_key_from_tweak"):
                d = sp.prv_key_from_tweak(r.b_spend, o.prv_key_tweak)
            ctx.check(P, "sp-key-opens-output", mult(d)[0].to_bytes(32, "big") == o.pub_key, lambda: f"recipient {ri}: key for {o.pub_key.hex()} opens {mult(d)[0]:064x}", site=site)
        ctx.state(f"sp:{mode}:paid={min(r.paid, 3)}:labels={min(len(r.labels), 2)}")
    owners = Counter(k for r in recipients for k in r.found)
    ctx.check(P, "sp-exactly-one-recipient", all(owners[k] == 1 for k in created), lambda: f"owners per created key: {[owners[k] for k in created]}")


def _bip375_sender(ctx: Ctx, mode: str, inputs: list[_Input], addresses: list[str], decoys: list[bytes]) -> list[bytes]:
    """BIP375: the shares travel in PSBT copies merged by ``combine``; the scripts are derived from them."""
    from btclib import silent_payments as sp  # noqa: PLC0415
    from btclib.bip32 import BIP32KeyOrigin  # noqa: PLC0415
    from btclib.curves import bytes_from_point  # noqa: PLC0415
    from btclib.psbt import Psbt, combine  # noqa: PLC0415
    from btclib.psbt import silent_payments as psp  # noqa: PLC0415
    from btclib.tx.tx import Tx  # noqa: PLC0415
    from btclib.tx.tx_in import TxIn  # noqa: PLC0415
    from btclib.tx.tx_out import TxOut  # noqa: PLC0415

    ch = ctx.ch
    n_out = len(addresses) + len(decoys)
    is_sp = ch.shuffled([True] * len(addresses) + [False] * len(decoys), "outputs.layout")
    tx = Tx(2, 0, [TxIn(x.outpoint, b"", 0xFFFFFFFD) for x in inputs], [TxOut(1000, b"\x51\x20" + bytes(32)) for _ in range(n_out)])
    with ctx.must_succeed(P, "honest-step-succeeds", "bip375.construct"):
        psbt = Psbt.from_tx(tx).to_v2()
        for x, pin in zip(inputs, psbt.inputs):
            pin.witness_utxo = TxOut(50000, x.spk)
            if x.kind in ("p2wpkh", "p2sh-p2wpkh"):
                pin.hd_key_paths = {gk.compressed(x.prv): BIP32KeyOrigin(bytes(4), "m/0")}
                pin.redeem_script = x.redeem
        todo, spare = list(addresses), list(decoys)
        for flag, pout in zip(is_sp, psbt.outputs):
            if flag:
                B_scan, B_m, _ = sp.keys_from_address(todo.pop(0))
                pout.script_pub_key, pout.sp_v0_info = b"", bytes_from_point(B_scan) + bytes_from_point(B_m)
            else:
                pout.script_pub_key = b"\x51\x20" + spare.pop(0)
        base = psbt.serialize()
    eligible = [(v, x) for v, x in enumerate(inputs) if x.eligible]
    with ctx.must_succeed(P, "honest-step-succeeds", "bip375.shares"):
        if mode == "bip375-global":
            psbt = Psbt.parse(base)
            psp.set_global_share(psbt, [x.even_key() for _, x in eligible])
        else:
            copies = []
            for v, x in eligible:  # one signer per input, each on its own copy
                copy = Psbt.parse(base)
                psp.set_input_share(copy, v, x.even_key())
                copies.append(copy.serialize())
            psbt = combine([Psbt.parse(b) for b in ch.shuffled(copies, "shares.order")])
        psp.assert_shares_as_valid(psbt)
        psp.set_output_scripts(psbt)
        psbt = Psbt.parse(psbt.serialize())
        psp.assert_as_valid(psbt)
    return [pout.script_pub_key[2:] for flag, pout in zip(is_sp, psbt.outputs) if flag]


# ---------------------------------------------------------------------------
# check definition
# ---------------------------------------------------------------------------
def _plans(tier: str) -> list[Any]:
    from btcsim.core.runner import Plan  # noqa: PLC0415

    return [
        Plan("protocols", {"part": "musig2", "faults": False}, share=1.5, chunk=20, label="protocols/musig2"),
        Plan("protocols", {"part": "musig2", "faults": True}, share=2.5, chunk=20, label="protocols/musig2+faults"),
        Plan("protocols", {"part": "bip373", "faults": False}, share=1.0, chunk=10, label="protocols/bip373"),
        Plan("protocols", {"part": "bip373", "faults": True}, share=1.5, chunk=10, label="protocols/bip373+faults"),
        Plan("protocols", {"part": "twoparty", "faults": False}, share=1.0, chunk=20, label="protocols/twoparty"),
        Plan("protocols", {"part": "twoparty", "faults": True}, share=1.0, chunk=20, label="protocols/twoparty+faults"),
        Plan("protocols", {"part": "silentpayments"}, share=2.0, chunk=10, label="protocols/silentpayments"),
    ]


CHECKS = {
    "C16": {
        "level": "exploration",
        "plans": _plans,
        "rule": (
            "one evaluation = one seeded run of one protocol among honest parties: a MuSig2 session (raw or BIP373 over a "
            "PSBT) with drawn signer set, key order, tweaks, message, adaptor / deterministic last signer, delivered by a "
            "courier with drawn delays (arrival order), duplicates, drops and a signer crash between the rounds; or 2-6 "
            "two-party exchanges (ECDH, ElligatorSwift, ECIES, DLEQ, Pedersen, Borromean) with every internal draw owned by "
            "the RNG seam (uniform or edge) and, in the faulty plan, one corrupted envelope / other key / altered statement; "
            "or one silent-payment transaction (BIP352 or BIP375 sender, mixed inputs, labelled and repeated addresses, "
            "decoys) scanned by every recipient as full node and light client with the backend flipped between parties. "
            "distinct = distinct hash of the (actor, event, fault) sequence; non-trivial = at least one fault fired."
        ),
        "assumptions": [
            "the block cipher ECIES takes from its caller is a stub (PKCS#7 + hash keystream), not AES",
            "a signer keeps a durable session counter; its secnonces are volatile and lost in a crash",
            "recipients of one transaction have distinct scan keys; decoy outputs are valid x-only keys",
            "liveness bound: the session completes within 12 retransmission periods after the faults stop",
        ],
    },
}
