"""World registry: name -> run(ctx)."""

from __future__ import annotations

import importlib
from typing import Any, Callable

_WORLDS = {
    "state": "btcsim.worlds.w8_state",
    "arith": "btcsim.worlds.w1_arith",
    "schnorr": "btcsim.worlds.w2_schnorr",
    "backend": "btcsim.worlds.w3_backend",
    "wire": "btcsim.worlds.w4_wire",
    "hostile": "btcsim.worlds.w4b_hostile",
    "text": "btcsim.worlds.w4c_text",
    "ceremony": "btcsim.worlds.w5_ceremony",
    "roles": "btcsim.worlds.w5b_roles",
    "taptree": "btcsim.worlds.w5c_taptree",
    "units": "btcsim.worlds.w5d_units",
    "protocols": "btcsim.worlds.w6_protocols",
    "custody": "btcsim.worlds.w7_custody",
    "chain": "btcsim.worlds.w9_chain",
}


def get_world(name: str) -> Callable[[Any], None]:
    mod = importlib.import_module(_WORLDS[name])
    return mod.run  # type: ignore[no-any-return]
