"""W3 `backend` -- twin execution under a moving switch (C04).

Actors: one caller making dual-path btclib calls; the process-wide backend
switch (``curves.set_libsecp256k1_serving``); in the thread tier a second
simulated thread that moves the switch while the caller is inside a call.

Workload: a catalogue of operations that dispatch on ``_libsecp256k1_serves``
(multiplications; ECDSA / BIP340 sign, verify, recover, batch; BMS; BIP32
derivation; taproot tweaks and control blocks; ECDH; ElligatorSwift; MuSig2
partial verification; BIP352 sending and scanning; engine ``verify_input`` on
p2pkh / p2wpkh / p2tr-key-path spends built here). Each operation is drawn with
valid arguments or with exactly one hostile argument (``btcsim.gen.hostile``),
and its site is ``<api>/<input class>``.

Schedules (``cfg['part']``):
- ``twin``   : (a) the call on one arm, then on the other;
- ``history``: (b) a history of calls with the switch flipped and caches cleared
               at drawn points; Signer / SessionContext / PreparedPoint objects
               built on one arm and used on the other;
- ``threads``: (c) the call in one simulated thread while another flips the
               switch at a pre-emption point inside it (each flip is held back
               until a drawn step of the run, 1-3 interleavings per run).
``cfg['family']`` (optional, e.g. ``"silent"``) keeps one generator of the catalogue.

Faults / perturbations: backend-flip, backend-flip-concurrent, cache-clear,
cross-arm-object, object-rebuilt; RNG seam in uniform or edge mode (blinding and
batch coefficients draw through it; BIP340 aux is pinned to the same value on
both arms).

Invariants (all C04): ``arms-agree`` (same value byte for byte / verdict / exact
exception class on the two arms), ``history-agrees`` (a call after flips and
cache clears, or through an object built on the other arm, answers as the twin
baseline), ``flip-during-call-agrees`` (a call during which the switch moved
answers as the baseline).

Divergences of the pinned tree that are recorded rather than repaired are listed
in /verif/known_findings.json by (invariant, site): the check still evaluates
them, the runner announces them as KNOWN-FINDING, and the operation is left out
of histories and thread runs (it has no baseline). Sites in ``PROBE_ONLY`` are inputs
the documented caller never passes: executed, counted, never asserted.
"""

from __future__ import annotations

import base64
import dataclasses
import hashlib
import secrets
from typing import Any, Callable

from btcsim.core.ctx import Ctx, RunAborted
from btcsim.gen import hostile as H
from btcsim.seams import state as st
from btcsim.seams.rng import SimRng

P = "C04"
N = H.N

# inputs outside the documented caller contract: the arms are probed, not judged
PROBE_ONLY = {"silent_payments.scan_transaction_outputs/odd-y-taproot-input-key"}


# ---------------------------------------------------------------------------
# operations and observations
# ---------------------------------------------------------------------------
@dataclasses.dataclass
class Op:
    api: str
    cls: str
    fn: Callable[..., Any]  # fn() -- or fn(obj) when make is given
    make: Callable[[], Any] | None = None  # builds the object fn is called on
    note: str = ""

    @property
    def site(self) -> str:
        return f"{self.api}/{self.cls}"


@dataclasses.dataclass
class Obs:
    tag: str  # "ok:<digest>" | "exc:<exact exception class>"
    text: str
    value: Any = None


class _Raised:
    """An object whose construction raised: using it re-raises the same."""

    def __init__(self, exc: Exception) -> None:
        self.exc = exc


def canon(x: Any) -> str:
    if isinstance(x, (bytes, bytearray)):
        return bytes(x).hex()
    if isinstance(x, (tuple, list)):
        return "(" + ",".join(canon(y) for y in x) + ")"
    if dataclasses.is_dataclass(x):
        return type(x).__name__ + canon([getattr(x, f.name) for f in dataclasses.fields(x) if f.compare])
    return repr(x)


def build(op: Op) -> Any:
    assert op.make is not None
    try:
        return op.make()
    except Exception as e:  # noqa: BLE001
        return _Raised(e)


def observe(op: Op, obj: Any = None) -> Obs:
    """The observable of one call: value digest, or the exact exception class."""
    try:
        if op.make is None:
            v = op.fn()
        else:
            obj = build(op) if obj is None else obj
            if isinstance(obj, _Raised):
                raise obj.exc
            v = op.fn(obj)
    except Exception as e:  # noqa: BLE001
        return Obs("exc:" + type(e).__name__, str(e)[:120])
    c = canon(v)
    return Obs("ok:" + hashlib.sha256(c.encode()).hexdigest()[:16], c[:200], v)


def twin(ctx: Ctx, op: Op) -> Obs | None:
    """Schedule (a). Returns the agreed observation, None if the site is not judged."""
    ch = ctx.ch
    first = not ch.draw(2, "twin.python-first")
    if ch.chance(1, 16, "twin.cold"):
        st.clear_all_caches()
        ctx.fault("cache-clear")
    obs: dict[bool, Obs] = {}
    for arm in (first, not first):
        st.set_backend(arm)
        obs[arm] = observe(op)
    ctx.log("twin", op.site, op.note, obs[True].tag, obs[False].tag)
    ctx.state(f"{op.site}:{obs[True].tag[:3]}")
    ctx.probe(("answered:" if obs[True].tag.startswith("ok") else "refused:") + op.api)
    if obs[True].value is True or (obs[True].tag.startswith("ok") and op.api.startswith("engine.")):
        ctx.probe("accepted:" + op.api)
    same = obs[True].tag == obs[False].tag
    if op.site in PROBE_ONLY:
        ctx.probe(f"probe-only:{op.site}")
        if not same:
            ctx.probe(f"probe-only-diverged:{op.site}")
        return None
    held = ctx.check(
        P, "arms-agree", same,
        lambda: f"{op.site} {op.note}: bindings -> {obs[True].tag} [{obs[True].text}], python -> {obs[False].tag} [{obs[False].text}]",
        site=op.site,
    )
    # a divergence listed in known_findings.json is counted by the runner and has no baseline to go on with
    return obs[True] if held else None


def need(ctx: Ctx, op: Op) -> Any:
    """A valid set-up step, itself twin-checked; its value is needed to go on."""
    o = twin(ctx, op)
    if o is None or not o.tag.startswith("ok"):
        raise RunAborted(f"set-up step {op.site} gave no value")
    return o.value


class _pinned_aux:
    """``secrets.token_bytes`` answers one pinned value: the BIP340 aux the library
    draws is then the same on both arms (blinding draws use randbelow and stay free)."""

    def __init__(self, aux: bytes) -> None:
        self.aux = aux

    def __enter__(self) -> None:
        self.old = secrets.token_bytes
        secrets.token_bytes = lambda k=32: self.aux[:k]  # type: ignore[assignment]

    def __exit__(self, *exc: object) -> None:
        secrets.token_bytes = self.old  # type: ignore[assignment]


def _cls(*classes: str) -> str:
    return next((c for c in classes if c != "valid"), "valid")


# ---------------------------------------------------------------------------
# the catalogue: each generator draws one operation
# ---------------------------------------------------------------------------
def g_mult(ctx: Ctx) -> Op:
    from btclib.curves import PreparedPoint, double_mult_var, mult, multi_mult_var  # noqa: PLC0415

    ch = ctx.ch
    kind = ch.pick(["mult", "mult-G", "prepared", "double", "multi", "sibling"], "mult.kind")
    if kind == "sibling":
        # secp256k1's field, equation and order under another generator: every parameter the bindings hard-code but
        # one. Which arm serves such a curve is the dispatch's business; what k*G' is, is not
        from btclib.curves import Curve, secp256k1  # noqa: PLC0415

        which = ch.pick(["-G", "2G", "kG"], "sibling.G")
        G2 = (secp256k1.G[0], secp256k1.p - secp256k1.G[1]) if which == "-G" else mult(2 if which == "2G" else 2 + ch.draw(1 << 64, "sibling.k"))
        sc, m = H.scalar(ch, "sibling.m", False)
        use = ch.pick(["generator", "point"], "sibling.use")

        def call() -> Any:
            ec = Curve(secp256k1.p, 0, 7, G2, secp256k1.n, 1, weakness_check=False, order_check=False)
            if use == "generator":
                return mult(m, None, ec)
            return mult(m, ec.G, ec)

        return Op("mult", sc, call, note=f"sibling-curve:{which}:{use}")
    if kind in ("mult", "mult-G", "prepared"):
        d = H.hostile_dim(ch, "mult", 1 if kind == "mult-G" else 2)
        sc, m = H.scalar(ch, "mult.m", d == 0)
        pc, Q = H.point(ch, "mult.Q", d == 1)
        if kind == "mult-G":
            return Op("mult", sc, lambda: mult(m), note="generator")
        if kind == "prepared":
            return Op("PreparedPoint.mult", _cls(sc, pc), lambda p: p.mult(m), make=lambda: PreparedPoint(Q))
        return Op("mult", _cls(sc, pc), lambda: mult(m, Q))
    if kind == "double":
        d = H.hostile_dim(ch, "dmult", 4)
        uc, u = H.scalar(ch, "dmult.u", d == 0)
        hc, Hp = H.point(ch, "dmult.H", d == 1)
        vc, v = H.scalar(ch, "dmult.v", d == 2)
        qc, Q = H.point(ch, "dmult.Q", d == 3)
        if d == -1 and ch.chance(1, 4, "dmult.cancel"):
            return Op("double_mult_var", "cancelling-sum", lambda: double_mult_var(u, Q, N - u, Q))
        return Op("double_mult_var", _cls(uc, hc, vc, qc), lambda: double_mult_var(u, Hp, v, Q))
    n = ch.pick([2, 3, 5, 1, 0, 9], "mmult.n")
    d = H.hostile_dim(ch, "mmult", 3) if n > 1 else -1
    j = ch.draw(max(n, 1), "mmult.j")
    scs = [H.scalar(ch, "mmult.s", d == 0 and i == j) for i in range(n)]
    pts = [H.point(ch, "mmult.p", d == 1 and i == j) for i in range(n)]
    cls = _cls(*(c for c, _ in scs), *(c for c, _ in pts))
    sv, pv = [v for _, v in scs], [v for _, v in pts]
    if d == 2:
        cls, pv = "length-mismatch", pv[:-1]
    elif n < 2:
        cls = f"{n}-terms"
    return Op("multi_mult_var", cls, lambda: multi_mult_var(sv, pv), note=f"n={n}")


def _sign_opts(ch: Any, label: str) -> dict[str, Any]:
    o: dict[str, Any] = {}
    if ch.chance(1, 4, label + ".nogrind"):
        o["grind"] = False
    if ch.chance(1, 4, label + ".noverify"):
        o["verify"] = False
    return o


def g_dsa_sign(ctx: Ctx) -> Op:
    from btclib.ecc import dsa  # noqa: PLC0415

    ch = ctx.ch
    kind = ch.pick(["sign_", "sign", "Signer.sign_", "Signer.sign", "sign_recoverable_"], "dsa.kind")
    d = H.hostile_dim(ch, "dsa.sign", 2, 1, 3)
    qc, q = H.scalar(ch, "dsa.q", d == 0)
    if kind in ("sign", "Signer.sign"):
        mc, m = "valid", H.message(ch, "dsa.msg")
    else:
        mc, m = H.msg_hash(ch, "dsa.h", d == 1)
    cls = _cls(qc, mc)
    opts = _sign_opts(ch, "dsa.opt")
    if kind.startswith("Signer"):
        meth = kind.split(".")[1]
        return Op(f"dsa.{kind}", cls, lambda s: getattr(s, meth)(m, **opts), make=lambda: dsa.Signer(q), note=str(opts))
    if kind == "sign_recoverable_":
        lower = not ch.chance(1, 4, "dsa.highs")
        return Op("dsa.sign_recoverable_", cls, lambda: dsa.sign_recoverable_(m, q, None, lower), note=f"lower_s={lower}")
    extra = ch.weighted([("plain", 5), ("nonce", 1), ("high-s-allowed", 1), ("commit", 1), ("pub_key", 2), ("hostile-pub_key", 2)], "dsa.extra")
    if extra == "nonce":
        opts["nonce"] = H.uniform_scalar(ch, "dsa.nonce")
    elif extra == "high-s-allowed":
        opts["lower_s"] = False
    elif extra == "commit":
        opts["commit_hash" if kind == "sign_" else "commit"] = ch.nbytes(32, "dsa.commit")
    elif extra == "pub_key" and cls == "valid":
        another = ch.draw(4, "dsa.pk.another") == 0
        _, opts["pub_key"] = H.pub_key(ch, "dsa.pk", q % (N - 1) + 1 if another else q, False)
        cls = "pub_key-of-another-key" if another else cls
    elif extra == "hostile-pub_key" and cls == "valid":
        cls, opts["pub_key"] = H.pub_key(ch, "dsa.pk", q, True)
    return Op(f"dsa.{kind}", cls, lambda: getattr(dsa, kind)(m, q, **opts), note=f"{extra} {sorted(opts)}")


def g_dsa_verify(ctx: Ctx) -> Op:
    from btclib.curves import PreparedPoint, mult  # noqa: PLC0415
    from btclib.ecc import dsa  # noqa: PLC0415

    ch = ctx.ch
    kind = ch.pick(["verify_", "assert_as_valid_", "recover_pub_keys_", "recover_pub_key_", "verify_/prepared"], "dsav.kind")
    q = H.uniform_scalar(ch, "dsav.q")
    h = ch.nbytes(32, "dsav.h")
    sig = need(ctx, Op("dsa.sign_", "valid", lambda: dsa.sign_(h, q)))
    d = H.hostile_dim(ch, "dsav", 3, 2, 3)
    kc, key = H.pub_key(ch, "dsav.key", q, d == 0)
    sc, sig_octets = H.der_sig(ch, "dsav.sig", sig.r, sig.s, d == 1)
    mc, m = H.msg_hash(ch, "dsav.m", d == 2)
    if d != 2:
        m = h if ch.draw(8, "dsav.other-msg") else m
    sig_arg: Any = sig_octets
    if sc == "valid" and ch.draw(2, "dsav.sigobj"):
        sig_arg = sig
    elif sc in ("sig-high-s", "sig-r-zero", "sig-s-zero", "sig-r-eq-n", "sig-s-eq-n", "sig-r-gt-n") and ch.draw(2, "dsav.sigobj"):
        r2, s2 = {"sig-high-s": (sig.r, N - sig.s), "sig-r-zero": (0, sig.s), "sig-s-zero": (sig.r, 0), "sig-r-eq-n": (N, sig.s),
                  "sig-s-eq-n": (sig.r, N), "sig-r-gt-n": (sig.r + N, sig.s)}[sc]
        sig_arg = dsa.Sig(r2, s2, check_validity=False)
    if kind in ("recover_pub_keys_", "recover_pub_key_") and d == -1 and ch.chance(1, 4, "dsav.inf-key"):
        # a signature nobody made but anybody may hand in: s*K == c*G, so the key it recovers to is infinity
        k = H.uniform_scalar(ch, "dsav.inf.k")
        K = mult(k)
        c = int.from_bytes(h, "big") % N
        sig_inf = dsa.Sig(K[0] % N, c * pow(k, -1, N) % N, check_validity=False)
        if kind == "recover_pub_keys_":
            return Op("dsa.recover_pub_keys_", "recovered-key-infinity", lambda: dsa.recover_pub_keys_(h, sig_inf))
        kid = (K[1] & 1) ^ ch.draw(2, "dsav.inf.otherkid")
        return Op("dsa.recover_pub_key_", "recovered-key-infinity" if kid == K[1] & 1 else "valid", lambda: dsa.recover_pub_key_(kid, h, sig_inf), note=f"key_id={kid}")
    if kind in ("recover_pub_keys_", "recover_pub_key_") and d == -1 and ch.chance(1, 3, "dsav.small-r"):
        # a signature nobody made: r small enough that r + n is a field element too, so the j = 1 candidates
        # (x = r + n) exist. The window is r < p - n ~ 1.27 * 2^128; drawn at both ends of it and across 2^128
        top = H.P - N
        while True:
            r_small = ch.pick([1 + ch.draw(1 << 16, "dsav.r.tiny"), (1 << 128) - 1 - ch.draw(1 << 20, "dsav.r.below"), (1 << 128) + ch.draw(top - (1 << 128), "dsav.r.above"), top - 1 - ch.draw(1 << 20, "dsav.r.top")], "dsav.r.class")
            if any(pow(x**3 + 7, (H.P - 1) // 2, H.P) == 1 for x in (r_small, r_small + N)):
                break
        sig_small = dsa.Sig(r_small, sig.s, check_validity=False)
        cls_small = "r-below-2^128" if r_small < (1 << 128) else "r-in-j1-window-above-2^128"
        if kind == "recover_pub_keys_":
            return Op("dsa.recover_pub_keys_", cls_small, lambda: dsa.recover_pub_keys_(h, sig_small))
        kid = ch.draw(4, "dsav.kid")
        return Op("dsa.recover_pub_key_", cls_small, lambda: dsa.recover_pub_key_(kid, h, sig_small), note=f"key_id={kid}")
    if kind == "recover_pub_keys_":
        return Op("dsa.recover_pub_keys_", _cls(sc, mc), lambda: dsa.recover_pub_keys_(m, sig_arg))
    if kind == "recover_pub_key_":
        kid = ch.pick([0, 1, 2, 3, 4, -1], "dsav.kid")
        return Op("dsa.recover_pub_key_", _cls(sc, mc, "valid" if 0 <= kid <= 3 else "key-id-out-of-range"), lambda: dsa.recover_pub_key_(kid, m, sig_arg), note=f"key_id={kid}")
    if kind == "verify_/prepared":
        return Op("dsa.verify_.prepared", _cls(sc, mc), lambda p: dsa.verify_(m, p, sig_arg), make=lambda: PreparedPoint(mult(q)))
    return Op(f"dsa.{kind}", _cls(kc, sc, mc), lambda: getattr(dsa, kind)(m, key, sig_arg))


def g_ssa_sign(ctx: Ctx) -> Op:
    from btclib.ecc import ssa  # noqa: PLC0415

    ch = ctx.ch
    kind = ch.pick(["sign_", "Signer.sign_", "sign", "Signer.sign"], "ssa.kind")
    d = H.hostile_dim(ch, "ssa.sign", 2, 1, 3)
    qc, q = H.scalar(ch, "ssa.q", d == 0)
    m = H.message(ch, "ssa.msg")
    aux_kind = ch.pick(["given", "drawn-by-library", "zero"], "ssa.aux.kind") if d != 1 else ch.pick(["aux-31-bytes", "aux-33-bytes", "aux-empty"], "ssa.aux.bad")
    aux32 = ch.nbytes(32, "ssa.aux")
    aux = {"given": aux32, "drawn-by-library": None, "zero": bytes(32), "aux-31-bytes": aux32[1:], "aux-33-bytes": aux32 + b"\x00", "aux-empty": b""}[aux_kind]
    cls = _cls(qc, "valid" if d != 1 else aux_kind)
    opts: dict[str, Any] = {"verify": False} if ch.chance(1, 4, "ssa.noverify") else {}
    if kind in ("sign_", "sign") and ch.chance(1, 6, "ssa.commit"):
        opts["commit_hash" if kind == "sign_" else "commit"] = ch.nbytes(32, "ssa.commit.h")

    def pinned(call: Callable[[], Any]) -> Any:
        with _pinned_aux(aux32):
            return call()

    if kind.startswith("Signer"):
        meth = kind.split(".")[1]
        return Op(f"ssa.{kind}", cls, lambda s: pinned(lambda: getattr(s, meth)(m, aux, **opts)), make=lambda: ssa.Signer(q), note=f"aux={aux_kind} len={len(m)}")
    return Op(f"ssa.{kind}", cls, lambda: pinned(lambda: getattr(ssa, kind)(m, q, aux, **opts)), note=f"aux={aux_kind} len={len(m)} {sorted(opts)}")


def _ssa_signed(ctx: Ctx, label: str) -> tuple[int, bytes, bytes]:
    from btclib.ecc import ssa  # noqa: PLC0415

    q = H.uniform_scalar(ctx.ch, label + ".q")
    m = H.message(ctx.ch, label + ".m")
    aux = ctx.ch.nbytes(32, label + ".aux")
    return q, m, need(ctx, Op("ssa.sign_", "valid", lambda: ssa.sign_(m, q, aux).serialize()))


def g_ssa_verify(ctx: Ctx) -> Op:
    from btclib.curves import PreparedPoint, mult  # noqa: PLC0415
    from btclib.ecc import ssa  # noqa: PLC0415

    ch = ctx.ch
    kind = ch.pick(["verify_", "assert_as_valid_", "verify_/prepared"], "ssav.kind")
    q, m, sig = _ssa_signed(ctx, "ssav")
    d = H.hostile_dim(ch, "ssav", 3, 2, 3)
    kc, key = H.xonly_key(ch, "ssav.key", q, d == 0)
    sc, sig_arg = H.ssa_sig(ch, "ssav.sig", sig, d == 1)
    mc = "valid"
    if d == 2:
        mc, m = "another-message", m + b"\x01"
    if sc == "valid" and ch.draw(2, "ssav.sigobj"):
        sig_arg = ssa.Sig.parse(sig)
    if d == -1 and kind != "verify_/prepared" and ch.chance(1, 5, "ssav.inf-nonce"):
        # what the key holder can build and anybody can hand in: s = e*q, so that s*G - e*Q is infinity
        import hashlib  # noqa: PLC0415

        Q = mult(q)
        q_even = q if Q[1] % 2 == 0 else N - q
        r = mult(H.uniform_scalar(ch, "ssav.inf.r"))[0]
        tag = hashlib.sha256(b"BIP0340/challenge").digest()
        e = int.from_bytes(hashlib.sha256(tag + tag + H.b32(r) + H.b32(Q[0]) + m).digest(), "big") % N
        sig_inf = ssa.Sig(r, e * q_even % N, check_validity=False)
        return Op(f"ssa.{kind}", "nonce-point-infinity", lambda: getattr(ssa, kind)(m, H.b32(Q[0]), sig_inf))
    if kind == "verify_/prepared":
        Q = mult(q)
        even = Q if Q[1] % 2 == 0 else (Q[0], H.P - Q[1])
        return Op("ssa.verify_.prepared", _cls(sc, mc), lambda p: ssa.verify_(m, p, sig_arg), make=lambda: PreparedPoint(even))
    return Op(f"ssa.{kind}", _cls(kc, sc, mc), lambda: getattr(ssa, kind)(m, key, sig_arg))


def g_ssa_batch(ctx: Ctx) -> Op:
    from btclib.ecc import ssa  # noqa: PLC0415

    ch = ctx.ch
    n = ch.pick([2, 3, 1, 5, 0, 9], "batch.n")
    members = [_ssa_signed(ctx, "batch") for _ in range(n)]
    d = H.hostile_dim(ch, "batch", 3) if n else -1
    j = ch.draw(max(n, 1), "batch.j")
    ms = [m for _, m, _ in members]
    ks: list[Any] = []
    ss: list[Any] = []
    cls = "valid"
    for i, (q, _, sig) in enumerate(members):
        kc, k = H.xonly_key(ch, "batch.key", q, d == 0 and i == j, forms=("bytes", "int"))
        sc, s = H.ssa_sig(ch, "batch.sig", sig, d == 1 and i == j)
        cls = _cls(cls, kc, sc)
        ks.append(k)
        # the batch takes Sig objects: a member that does not parse stays octets
        try:
            ss.append(ssa.Sig.parse(s, check_validity=False))
        except Exception:  # noqa: BLE001
            ss.append(s)
    if d == 2:
        cls, ms = "length-mismatch", ms[:-1]
    if n and d == -1 and ch.chance(1, 4, "batch.dup"):
        ms, ks, ss = ms + ms[:1], ks + ks[:1], ss + ss[:1]
    kind = ch.pick(["batch_verify_", "assert_batch_as_valid_"], "batch.kind")
    return Op(f"ssa.{kind}", cls, lambda: getattr(ssa, kind)(ms, ks, ss), note=f"n={n}")


def g_bms(ctx: Ctx) -> Op:
    from btclib import b32, b58  # noqa: PLC0415
    from btclib.ecc import bms  # noqa: PLC0415

    ch = ctx.ch
    q = H.uniform_scalar(ch, "bms.q")
    compressed = not ch.draw(3, "bms.uncompressed")
    wif = b58.wif_from_prv_key(q, "mainnet", compressed)
    pk = H.sec(H.mult(q), compressed)
    addr_kind = ch.pick(["p2pkh", "p2wpkh", "p2wpkh-p2sh"] if compressed else ["p2pkh"], "bms.addr")
    addr = {"p2pkh": b58.p2pkh, "p2wpkh": b32.p2wpkh, "p2wpkh-p2sh": b58.p2wpkh_p2sh}[addr_kind](pk)
    msg = ch.nbytes(ch.pick([5, 0, 100], "bms.len"), "bms.msg")
    kind = ch.pick(["verify", "sign", "assert_as_valid"], "bms.kind")
    if kind == "sign":
        which = ch.pick(["own-address", "no-address", "foreign-address"], "bms.sign.addr")
        a = {"own-address": addr, "no-address": None, "foreign-address": b58.p2pkh(H.sec(H.mult(q % (N - 1) + 1)))}[which]
        return Op("bms.sign", "valid" if which != "foreign-address" else which, lambda: bms.sign(msg, wif, a), note=f"{addr_kind} {which}")
    raw = need(ctx, Op("bms.sign", "valid", lambda: bms.sign(msg, wif, addr).serialize()))
    cls = "valid"
    if ch.chance(2, 3, "bms.hostile?"):
        cls = ch.pick(["rf-other", "rf-below-27", "rf-above-42", "sig-r-zero", "sig-s-zero", "sig-r-eq-n", "sig-s-eq-n", "sig-r-off-curve",
                       "sig-high-s", "sig-truncated", "sig-over-long", "sig-bit-flip", "another-message", "foreign-address"], "bms.cls")
        i = 1 + ch.draw(64, "bms.pos")
        raw = {
            "rf-other": bytes([27 + ch.draw(16, "bms.rf")]) + raw[1:], "rf-below-27": bytes([ch.draw(27, "bms.rf")]) + raw[1:],
            "rf-above-42": bytes([43 + ch.draw(213, "bms.rf")]) + raw[1:], "sig-r-zero": raw[:1] + bytes(32) + raw[33:],
            "sig-s-zero": raw[:33] + bytes(32), "sig-r-eq-n": raw[:1] + H.b32(N) + raw[33:], "sig-s-eq-n": raw[:33] + H.b32(N),
            "sig-r-off-curve": raw[:1] + H.b32(H.off_curve_x(ch, "bms.x")) + raw[33:],
            "sig-high-s": raw[:33] + H.b32(N - int.from_bytes(raw[33:], "big")), "sig-truncated": raw[:-1], "sig-over-long": raw + b"\x00",
            "sig-bit-flip": raw[:i] + bytes([raw[i] ^ (1 << ch.draw(8, "bms.bit"))]) + raw[i + 1:],
        }.get(cls, raw)
        if cls == "another-message":
            msg += b"!"
        elif cls == "foreign-address":
            addr = b58.p2pkh(H.sec(H.mult(q % (N - 1) + 1)))
    sig64 = base64.b64encode(raw).decode()
    return Op(f"bms.{kind}", cls, lambda: getattr(bms, kind)(msg, addr, sig64), note=addr_kind)


def g_bip32(ctx: Ctx) -> Op:
    from btclib.bip32 import BIP32KeyData, bip32  # noqa: PLC0415

    ch = ctx.ch
    path = ch.pick(["m/0", "m/0h", "m/44h/0h/0h/0/5", "m", "m/1/2/3/4/5/6/7/8", "m/2147483647/0"], "b32.path")
    if ch.draw(4, "b32.randpath") == 0:
        path = "m/" + "/".join(str(ch.draw(2**31, "b32.idx")) for _ in range(1 + ch.draw(3, "b32.depth")))
    kind = ch.pick(["derive-prv", "derive-pub", "xpub_from_xprv", "hostile"], "b32.kind")
    seed = ch.nbytes(32, "b32.seed")
    root = bip32.rootxprv_from_seed(seed)
    if kind == "derive-prv":
        return Op("bip32.derive", "valid", lambda: bip32.derive(root, path), note=f"private parent {path}")
    if kind == "xpub_from_xprv":
        return Op("bip32.xpub_from_xprv", "valid", lambda: bip32.xpub_from_xprv(root))
    if kind == "derive-pub":
        xpub = need(ctx, Op("bip32.xpub_from_xprv", "valid", lambda: bip32.xpub_from_xprv(root)))
        cls = "hardened-from-public" if "h" in path else "valid"
        return Op("bip32.derive", cls, lambda: bip32.derive(xpub, path), note=f"public parent {path}")
    q = H.uniform_scalar(ch, "b32.q")
    if ch.draw(2, "b32.hostile.prv"):
        cls = ch.pick(["xprv-key-zero", "xprv-key-n", "xprv-key-ff", "xprv-key-n-1"], "b32.prvcls")
        key = b"\x00" + {"xprv-key-zero": bytes(32), "xprv-key-n": H.b32(N), "xprv-key-ff": b"\xff" * 32, "xprv-key-n-1": H.b32(N - 1)}[cls]
        version = bytes.fromhex("0488ade4")
    else:
        cls, key = H.pub_key(ch, "b32.key", q, True, only=("off-curve-key", "x-ge-p-key", "bad-prefix-key"))
        cls, version = "xpub-" + cls, bytes.fromhex("0488b21e")
    api = ch.pick(["bip32.derive", "bip32.derive_", "bip32.xpub_from_xprv"], "b32.api")
    fn = {"bip32.derive": lambda kd: bip32.derive(kd, path), "bip32.derive_": lambda kd: bip32.derive_(kd, path), "bip32.xpub_from_xprv": bip32.xpub_from_xprv}[api]
    return Op(api, cls, lambda: fn(BIP32KeyData(version, 1, b"\x01\x02\x03\x04", 5, seed, key, check_validity=False)), note=path)


_TREES: list[Any] = [None, [(0xC0, ["OP_1"])], [[(0xC0, ["OP_2"])], [(0xC0, ["OP_3"])]]]


def g_taproot(ctx: Ctx) -> Op:
    from btclib.script import taproot  # noqa: PLC0415

    ch = ctx.ch
    kind = ch.pick(["output_pubkey", "output_prvkey", "check_output_pubkey"], "tr.kind")
    q = H.uniform_scalar(ch, "tr.q")
    ti = ch.draw(3, "tr.tree")
    tree = _TREES[ti]
    if kind == "output_prvkey":
        qc, k = H.scalar(ch, "tr.prv", ch.chance(1, 2, "tr.hostile?"))
        return Op("taproot.output_prvkey", qc, lambda: taproot.output_prvkey(k, tree), note=f"tree{ti}")
    if kind == "output_pubkey":
        kc, key = H.pub_key(ch, "tr.key", q, ch.chance(1, 2, "tr.hostile?"))
        if kc == "valid" and ch.draw(4, "tr.other-form") == 0:
            key = q if ti == 0 or ch.draw(2, "tr.nokey") else None  # a private key names its public one; no key is BIP341's NUMS point
        return Op("taproot.output_pubkey", kc, lambda: taproot.output_pubkey(key, tree), note=f"tree{ti}")
    tree = _TREES[2]
    X = H.b32(H.mult(q)[0])
    out, parity = need(ctx, Op("taproot.output_pubkey", "valid", lambda: taproot.output_pubkey(b"\x02" + X, tree)))
    (leaf_version, script), path = taproot.tree_helper(tree)[0][0]
    script_bytes = taproot.serialize(script)
    control = bytes([leaf_version | parity]) + X + path
    cls = "valid"
    if ch.chance(2, 3, "tr.cb.hostile?"):
        cls = ch.pick(["internal-key-off-curve", "internal-key-ge-p", "internal-key-zero", "wrong-parity", "control-truncated", "control-too-long",
                       "control-no-path", "path-bit-flip", "output-off-curve", "output-ge-p", "output-33-bytes", "output-31-bytes", "another-output",
                       "another-script"], "tr.cb.cls")
        ox = H.b32(H.off_curve_x(ch, "tr.cb.x"))
        control = {
            "internal-key-off-curve": control[:1] + ox + control[33:], "internal-key-ge-p": control[:1] + H.b32(H.P + ch.draw(977, "tr.cb.p")) + control[33:],
            "internal-key-zero": control[:1] + bytes(32) + control[33:], "wrong-parity": bytes([control[0] ^ 1]) + control[1:],
            "control-truncated": control[:-1], "control-too-long": control + bytes(32 * 128), "control-no-path": control[:33],
            "path-bit-flip": control[:40] + bytes([control[40] ^ 1]) + control[41:],
        }.get(cls, control)
        out = {"output-off-curve": ox, "output-ge-p": H.b32(H.P), "output-33-bytes": b"\x00" + out, "output-31-bytes": out[1:],
               "another-output": H.b32(H.mult(q % (N - 1) + 1)[0])}.get(cls, out)
        if cls == "another-script":
            script_bytes += b"\x51"
    return Op("taproot.check_output_pubkey", cls, lambda: taproot.check_output_pubkey(out, script_bytes, control))


def g_dh(ctx: Ctx) -> Op:
    from btclib.ecc import dh  # noqa: PLC0415

    ch = ctx.ch
    d = H.hostile_dim(ch, "dh", 2)
    sc, s = H.scalar(ch, "dh.d", d == 0)
    pc, Q = H.point(ch, "dh.Q", d == 1)
    size = ch.pick([32, 20, 0, 100], "dh.size")
    info = ch.pick([None, b"", b"info"], "dh.info")
    return Op("dh.diffie_hellman", _cls(sc, pc), lambda: dh.diffie_hellman(s, Q, size, info), note=f"size={size}")


def g_ellswift(ctx: Ctx) -> Op:
    from btclib.ecc import ellswift  # noqa: PLC0415

    ch = ctx.ch
    kind = ch.pick(["decode_var", "xdh", "create_var", "encode_var"], "ell.kind")
    q = H.uniform_scalar(ch, "ell.q")
    if kind == "create_var":
        # the encoding itself is random by contract (arms draw differently): the observable is the key it decodes to
        sc, s = H.scalar(ch, "ell.prv", ch.chance(1, 2, "ell.hostile?"))
        return Op("ellswift.create_var", sc, lambda: ellswift.decode_var(ellswift.create_var(s)), note="observed through decode_var")
    if kind == "encode_var":
        kc, key = H.pub_key(ch, "ell.key", q, ch.chance(1, 2, "ell.hostile?"))
        return Op("ellswift.encode_var", kc, lambda: ellswift.decode_var(ellswift.encode_var(key))[0], note="observed through decode_var")
    ell = ch.nbytes(64, "ell.bytes")
    cls = "valid"
    if ch.chance(1, 2, "ell.hostile?"):
        cls = ch.pick(["ell-zero", "ell-ff", "ell-u-zero", "ell-t-zero", "ell-u-ge-p", "ell-t-ge-p", "ell-short", "ell-long"], "ell.cls")
        ell = {"ell-zero": bytes(64), "ell-ff": b"\xff" * 64, "ell-u-zero": bytes(32) + ell[32:], "ell-t-zero": ell[:32] + bytes(32),
               "ell-u-ge-p": H.b32(H.P + ch.draw(977, "ell.p")) + ell[32:], "ell-t-ge-p": ell[:32] + H.b32(H.P + ch.draw(977, "ell.p")),
               "ell-short": ell[:63], "ell-long": ell + b"\x00"}[cls]
    if kind == "decode_var":
        return Op("ellswift.decode_var", cls, lambda: ellswift.decode_var(ell))
    other = ch.nbytes(64, "ell.other")
    d = H.hostile_dim(ch, "xdh", 2, 1, 3) if cls == "valid" else -1
    sc, s = H.scalar(ch, "xdh.prv", d == 0)
    party = ch.pick([2, -1], "xdh.badparty") if d == 1 else ch.draw(2, "xdh.party")
    pair = (ell, other) if ch.draw(2, "xdh.order") else (other, ell)
    return Op("ellswift.xdh", _cls(cls, sc, "valid" if d != 1 else "party-out-of-range"), lambda: ellswift.xdh(pair[0], pair[1], s, party), note=f"party={party}")


def g_musig(ctx: Ctx) -> Op:
    from btclib.ecc import musig2  # noqa: PLC0415

    ch = ctx.ch
    n = 1 + ch.draw(3, "musig.n")
    prv = [H.uniform_scalar(ch, "musig.prv") for _ in range(n)]
    pks = [musig2.individual_pub_key(p) for p in prv]
    msg = H.message(ch, "musig.msg")
    tweaks = [H.b32(H.uniform_scalar(ch, "musig.tweak")) for _ in range(ch.draw(3, "musig.ntweaks"))]
    xonly = [bool(ch.draw(2, "musig.xonly")) for _ in tweaks]
    nonces = [musig2.nonce_gen_(ch.nbytes(32, "musig.rand"), p, pk, None, msg) for p, pk in zip(prv, pks)]
    pubn = [pn for _, pn in nonces]
    agg = musig2.nonce_agg(pubn)
    i = ch.draw(n, "musig.i")
    # a partial signature is the Python arithmetic on both arms (only verification is delegated)
    signing = musig2.SessionContext(agg, pks, tweaks, xonly, msg)
    psigs = [musig2.sign(sn, p, signing) for (sn, _), p in zip(nonces, prv)]
    psig, pn, pk = psigs[i], pubn[i], pks[i]
    cls = "valid"
    agg_arg, pks_arg = agg, pks
    if ch.chance(2, 3, "musig.hostile?"):
        cls = ch.pick(["psig-zero", "psig-n", "psig-ff", "psig-bit-flip", "psig-short", "psig-long", "psig-of-another-signer", "pubnonce-off-curve",
                       "pubnonce-infinity", "pubnonce-swapped-halves", "pubnonce-short", "pubnonce-negated", "pubnonce-x-ge-p", "foreign-signer-key",
                       "signer-key-off-curve", "signer-key-negated", "signer-key-uncompressed", "signer-key-hybrid", "signer-key-xonly",
                       "session-aggnonce-off-curve", "session-aggnonce-infinity", "session-key-off-curve", "session-duplicate-key"], "musig.cls")
        ox = b"\x02" + H.b32(H.off_curve_x(ch, "musig.x"))
        Q = H.mult(prv[i])
        psig = {"psig-zero": bytes(32), "psig-n": H.b32(N), "psig-ff": b"\xff" * 32, "psig-bit-flip": psig[:7] + bytes([psig[7] ^ 16]) + psig[8:],
                "psig-short": psig[1:], "psig-long": psig + b"\x00", "psig-of-another-signer": psigs[(i + 1) % n]}.get(cls, psig)
        pn = {"pubnonce-off-curve": ox + pn[33:], "pubnonce-infinity": (pn[:33] + bytes(33), bytes(33) + pn[33:], bytes(66))[ch.draw(3, "musig.inf-half")], "pubnonce-swapped-halves": pn[33:] + pn[:33], "pubnonce-short": pn[:65],
              "pubnonce-negated": bytes([pn[0] ^ 1]) + pn[1:], "pubnonce-x-ge-p": b"\x02" + H.b32(H.P) + pn[33:]}.get(cls, pn)
        pk = {"foreign-signer-key": musig2.individual_pub_key(prv[i] % (N - 1) + 1), "signer-key-off-curve": ox, "signer-key-negated": bytes([pk[0] ^ 1]) + pk[1:],
              "signer-key-uncompressed": H.sec(Q, False), "signer-key-hybrid": bytes([6 + (Q[1] & 1)]) + H.sec(Q, False)[1:], "signer-key-xonly": pk[1:]}.get(cls, pk)
        agg_arg = {"session-aggnonce-off-curve": ox + agg[33:], "session-aggnonce-infinity": bytes(66)}.get(cls, agg)
        pks_arg = {"session-key-off-curve": [*pks[:-1], ox], "session-duplicate-key": [*pks, pks[0]]}.get(cls, pks)
    return Op("musig2.partial_sig_verify_", cls, lambda s: musig2.partial_sig_verify_(psig, pn, pk, s),
              make=lambda: musig2.SessionContext(agg_arg, pks_arg, tweaks, xonly, msg), note=f"n={n} msg={len(msg)} tweaks={len(tweaks)}")


def g_sums(ctx: Ctx) -> Op:
    """The `_sum_var`-backed helpers: BIP352's input key sum, MuSig2's nonce aggregation."""
    from btclib import silent_payments as sp  # noqa: PLC0415
    from btclib.curves import secp256k1  # noqa: PLC0415
    from btclib.ecc import musig2  # noqa: PLC0415

    ch = ctx.ch
    n = 1 + ch.draw(4, "sum.n")
    qs = [H.uniform_scalar(ch, "sum.q") for _ in range(n)]
    j = ch.draw(n, "sum.j")
    cls = ch.pick(["valid", "valid", "sum-to-infinity", "partial-sum-at-infinity", "hostile-term", "no-terms"], "sum.cls")
    if ch.draw(2, "sum.kind"):
        keys: list[Any] = [H.pub_key(ch, "sum.key", q, False)[1] for q in qs]
        if cls == "hostile-term":
            cls, keys[j] = H.pub_key(ch, "sum.bad", qs[j], True)
        keys = {"sum-to-infinity": keys + [secp256k1.negate(H.mult(q)) for q in qs], "no-terms": [],
                "partial-sum-at-infinity": [keys[0], secp256k1.negate(H.mult(qs[0])), *keys[1:], H.G]}.get(cls, keys)
        return Op("silent_payments.pub_key_sum", cls, lambda: sp.pub_key_sum(keys), note=f"n={len(keys)}")
    pubn = [musig2.nonce_gen_(ch.nbytes(32, "sum.rand"), q, musig2.individual_pub_key(q))[1] for q in qs]
    neg = [bytes([pn[0] ^ 1]) + pn[1:33] + bytes([pn[33] ^ 1]) + pn[34:] for pn in pubn]
    if cls == "hostile-term":
        cls = "pubnonce-off-curve"
        pubn[j] = pubn[j][:33] + b"\x02" + H.b32(H.off_curve_x(ch, "sum.x"))
    pubn = {"sum-to-infinity": pubn + neg, "no-terms": [], "partial-sum-at-infinity": [pubn[0], neg[0], *pubn[1:], pubn[0]]}.get(cls, pubn)
    return Op("musig2.nonce_agg", cls, lambda: musig2.nonce_agg(pubn), note=f"n={len(pubn)}")


def _spk(kind: str, Q: tuple[int, int]) -> bytes:
    from btclib.hashes import hash160  # noqa: PLC0415

    if kind == "p2tr":
        return b"\x51\x20" + H.b32(Q[0])
    if kind == "p2wpkh":
        return b"\x00\x14" + hash160(H.sec(Q))
    if kind == "p2pkh":
        return b"\x76\xa9\x14" + hash160(H.sec(Q)) + b"\x88\xac"
    return b"\xa9\x14" + hash160(b"\x00\x14" + hash160(H.sec(Q))) + b"\x87"


def g_silent(ctx: Ctx) -> Op:
    from btclib import silent_payments as sp  # noqa: PLC0415
    from btclib.curves import secp256k1  # noqa: PLC0415
    from btclib.tx.out_point import OutPoint  # noqa: PLC0415

    ch = ctx.ch
    kind = ch.pick(["scan_transaction_outputs", "output_keys", "scan_outputs"], "sp.kind")
    ins = []
    for _ in range(1 + ch.draw(3, "sp.nin")):
        q = H.uniform_scalar(ch, "sp.in.q")
        ins.append((q, H.mult(q), ch.pick(["p2wpkh", "p2tr", "p2pkh", "p2sh-p2wpkh"], "sp.in.kind")))
    outpoints = [OutPoint(ch.nbytes(32, "sp.txid"), ch.draw(4, "sp.vout")) for _ in ins]
    wallets = [(H.uniform_scalar(ch, "sp.scan"), H.uniform_scalar(ch, "sp.spend")) for _ in range(1 + ch.draw(2, "sp.nwallets"))]
    addresses = []
    for _ in range(1 + ch.draw(4, "sp.naddr")):
        w = wallets[ch.draw(len(wallets), "sp.addr.w")] if addresses else wallets[0]
        m = ch.pick([None, None, 0, 1, 2], "sp.addr.label")
        addresses.append(sp.address_from_keys(H.mult(w[0]), H.mult(w[1])) if m is None else sp.labeled_address_from_keys(w[0], H.mult(w[1]), m))
    prv_keys: list[tuple[Any, bytes]] = [(q, _spk(k, Q)) for q, Q, k in ins]
    if kind == "output_keys":
        cls = "valid"
        if ch.chance(1, 2, "sp.ok.hostile?"):
            cls = ch.pick(["no-outpoints", "no-inputs", "no-addresses", "prv-key-zero", "prv-key-n", "prv-keys-sum-to-zero"], "sp.ok.cls")
            if cls == "no-outpoints":
                outpoints = []
            elif cls == "no-inputs":
                prv_keys = []
            elif cls == "no-addresses":
                addresses = []
            elif cls in ("prv-key-zero", "prv-key-n"):
                prv_keys[0] = (0 if cls == "prv-key-zero" else N, prv_keys[0][1])
            else:
                prv_keys = [(q, _spk("p2wpkh", Q)) for q, Q, _ in ins]
                prv_keys.append((N - sum(q for q, _, _ in ins) % N or 1, _spk("p2wpkh", secp256k1.G)))
        return Op("silent_payments.output_keys", cls, lambda: sp.output_keys(prv_keys, outpoints, addresses), note=f"in={len(ins)} addr={len(addresses)}")

    outs = need(ctx, Op("silent_payments.output_keys", "valid", lambda: sp.output_keys(prv_keys, outpoints, addresses)))
    b_scan, B_spend = wallets[0][0], H.mult(wallets[0][1])
    labels = need(ctx, Op("silent_payments.label_lookup", "valid", lambda: sp.label_lookup(b_scan, [0, 1, 2]))) if ch.draw(3, "sp.labels") else None
    even = [((Q if k != "p2tr" or Q[1] % 2 == 0 else secp256k1.negate(Q)), s) for (_, Q, k), (_, s) in zip(ins, prv_keys)]
    pub_keys: list[tuple[Any, bytes]] = list(even)
    outputs = ch.shuffled(outs, "sp.shuffle")
    cls = "valid"
    if ch.chance(1, 2, "sp.scan.hostile?"):
        common = ["off-curve-taproot-output", "foreign-output", "duplicate-output", "no-outputs", "output-31-bytes", "output-33-bytes",
                  "two-outputs-at-one-counter", "two-outputs-at-one-counter"]
        only_tx = ["odd-y-taproot-input-key", "input-keys-sum-to-infinity", "no-outpoints", "no-inputs", "input-key-off-curve", "input-key-hybrid",
                   "input-key-sec-octets", "scan-key-zero", "scan-key-n", "spend-key-infinity", "spend-key-off-curve"]
        cls = ch.pick(common + (only_tx if kind == "scan_transaction_outputs" else []), "sp.scan.cls")
        if kind == "scan_transaction_outputs" and ch.chance(1, 4, "sp.scan.taproot-parity"):
            cls = "odd-y-taproot-input-key"
        Q0 = even[0][0]
        not_an_x = ch.pick([H.off_curve_x(ch, "sp.x"), H.P + ch.draw(977, "sp.p"), 2**256 - 1, 0, 5], "sp.not-an-x")  # unspendable: no such point
        extra = {"off-curve-taproot-output": H.b32(not_an_x),
                 "foreign-output": H.b32(H.mult(H.uniform_scalar(ch, "sp.foreign"))[0]), "duplicate-output": outs[0],
                 "output-31-bytes": bytes(31), "output-33-bytes": bytes(33)}.get(cls)
        if extra is not None:
            outputs.insert(ch.draw(len(outputs) + 1, "sp.pos"), extra)
        if cls == "no-outputs":
            outputs = []
        elif cls == "two-outputs-at-one-counter":
            # a dishonest sender: the scanning wallet's plain address and one of its labelled addresses are both
            # paid at counter k = 0 (an honest sender gives every output of a scan key its own k); which of the
            # two a scan reports first is decided by the order of the outputs, on either arm
            w0 = wallets[0]
            m = ch.draw(3, "sp.same-k.label")
            plain = need(ctx, Op("silent_payments.output_keys", "valid", lambda: sp.output_keys(prv_keys, outpoints, [sp.address_from_keys(H.mult(w0[0]), H.mult(w0[1]))])))
            labelled = need(ctx, Op("silent_payments.output_keys", "valid", lambda: sp.output_keys(prv_keys, outpoints, [sp.labeled_address_from_keys(w0[0], H.mult(w0[1]), m)])))
            outputs = ch.shuffled([labelled[0], plain[0]] + (outputs[:1] if ch.draw(2, "sp.same-k.decoy") else []), "sp.same-k.order")
            if labels is None:
                labels = need(ctx, Op("silent_payments.label_lookup", "valid", lambda: sp.label_lookup(b_scan, [0, 1, 2])))
        elif cls == "odd-y-taproot-input-key":
            pub_keys = [((Q if Q[1] % 2 else secp256k1.negate(Q)) if k == "p2tr" else Q, s) for (_, Q, k), (_, s) in zip(ins, prv_keys)]
            if all(k != "p2tr" for _, _, k in ins):
                cls = "valid"
        elif cls == "input-keys-sum-to-infinity":
            pub_keys = [(Q, _spk("p2wpkh", Q)) for Q, _ in even] + [(secp256k1.negate(Q), _spk("p2wpkh", Q)) for Q, _ in even]
        elif cls == "no-outpoints":
            outpoints = []
        elif cls == "no-inputs":
            pub_keys = []
        elif cls == "input-key-off-curve":
            pub_keys[0] = ((Q0[0], Q0[1] % (H.P - 1) + 1), pub_keys[0][1])
        elif cls == "input-key-hybrid":
            pub_keys[0] = (bytes([6 + (Q0[1] & 1)]) + H.sec(Q0, False)[1:], pub_keys[0][1])
        elif cls == "input-key-sec-octets":
            pub_keys = [(H.sec(Q, bool(ch.draw(2, "sp.sec.c"))), s) for Q, s in pub_keys]
        elif cls in ("scan-key-zero", "scan-key-n"):
            b_scan = 0 if cls == "scan-key-zero" else N
        elif cls == "spend-key-infinity":
            B_spend = H.INF
        elif cls == "spend-key-off-curve":
            B_spend = (B_spend[0], B_spend[1] % (H.P - 1) + 1)
    if kind == "scan_transaction_outputs":
        return Op("silent_payments.scan_transaction_outputs", "valid" if cls == "input-key-sec-octets" else cls,
                  lambda: sp.scan_transaction_outputs(b_scan, B_spend, outpoints, pub_keys, outputs, labels), note=f"in={len(ins)} out={len(outputs)} labels={labels is not None} {cls}")
    tweak = need(ctx, Op("silent_payments.tweak_data", "valid", lambda: sp.tweak_data(outpoints, sp.pub_key_sum([Q for Q, _ in even]))))
    return Op("silent_payments.scan_outputs", cls, lambda: sp.scan_outputs(b_scan, B_spend, tweak, outputs, labels), note=f"out={len(outputs)} labels={labels is not None}")


def _push(b: bytes) -> bytes:
    return (bytes([len(b)]) if len(b) < 76 else b"\x4c" + bytes([len(b)])) + b


def _boundary_s(ctx: Ctx) -> Op:
    """An output that is OP_CHECKSIG alone, spent with <sig> <key> in the script_sig: the legacy digest does not
    depend on the key, so a signature with a CHOSEN s -- the two sides of the low-s boundary, 1, n - 1 -- is made
    valid by recovering the key it verifies under. What the engine does with a high s depends on LOW_S, and must
    not depend on the arm."""
    from btclib.curves import double_mult_var, mult  # noqa: PLC0415
    from btclib.script import sig_hash  # noqa: PLC0415
    from btclib.script.engine import verify_input, verify_transaction  # noqa: PLC0415
    from btclib.script.engine.flags import ALL_FLAGS, ScriptFlag  # noqa: PLC0415
    from btclib.tx.out_point import OutPoint  # noqa: PLC0415
    from btclib.tx.tx import Tx  # noqa: PLC0415
    from btclib.tx.tx_in import TxIn  # noqa: PLC0415
    from btclib.tx.tx_out import TxOut  # noqa: PLC0415

    ch = ctx.ch
    n = H.N
    tx = Tx(2, 0, [TxIn(OutPoint(ch.nbytes(32, "eng.txid"), ch.draw(3, "eng.vout")), b"", 0xFFFFFFFD)], [TxOut(500, b"\x00\x14" + ch.nbytes(20, "eng.dest"))])
    ht = ch.pick([1, 2, 3, 0x81], "eng.ht")
    h = int.from_bytes(sig_hash.legacy(b"\xac", tx, 0, ht), "big")
    cls, s_ = ch.pick([("s-largest-low", n // 2), ("s-smallest-high", n // 2 + 1), ("s-below-boundary", n // 2 - 1), ("s-one", 1), ("s-n-minus-one", n - 1), ("s-uniform", 0)], "eng.s")
    if not s_:
        s_ = H.uniform_scalar(ch, "eng.s.value")
    R = mult(H.uniform_scalar(ch, "eng.k"))
    r = R[0] % n
    r_inv = pow(r, -1, n)
    Q = double_mult_var(s_ * r_inv % n, R, -h * r_inv % n, mult(1))  # the key (r, s) verifies h under
    pk = H.sec(Q, bool(ch.draw(2, "eng.compressed")))

    def integer(v: int) -> bytes:
        b = v.to_bytes((v.bit_length() + 8) // 8, "big")
        return b"\x02" + bytes([len(b)]) + b

    body = integer(r) + integer(s_)
    tx.vin[0].script_sig = _push(b"\x30" + bytes([len(body)]) + body + bytes([ht])) + _push(pk)
    flag_name, flags = ch.pick([
        ("default", None), ("none", ScriptFlag(0)), ("no-low-s", ALL_FLAGS & ~ScriptFlag.LOW_S), ("low-s-only", ScriptFlag.LOW_S),
        ("consensus", ScriptFlag.P2SH | ScriptFlag.DERSIG | ScriptFlag.WITNESS | ScriptFlag.NULLDUMMY), ("strictenc", ScriptFlag.STRICTENC | ScriptFlag.DERSIG),
    ], "eng.flags")
    prevouts = [TxOut(1000, b"\xac")]
    if ch.draw(4, "eng.whole-tx") == 0:
        return Op("engine.verify_transaction.bare-checksig", cls, lambda: verify_transaction(prevouts, tx, flags), note=f"flags={flag_name} ht={ht}")
    return Op("engine.verify_input.bare-checksig", cls, lambda: verify_input(prevouts, tx, 0, flags), note=f"flags={flag_name} ht={ht}")


def g_engine(ctx: Ctx) -> Op:
    from btclib.ecc import dsa, ssa  # noqa: PLC0415
    from btclib.hashes import hash160  # noqa: PLC0415
    from btclib.script import sig_hash, taproot  # noqa: PLC0415
    from btclib.script.engine import verify_input, verify_transaction  # noqa: PLC0415
    from btclib.script.engine.flags import ALL_FLAGS, ScriptFlag  # noqa: PLC0415
    from btclib.script.witness import Witness  # noqa: PLC0415
    from btclib.tx.out_point import OutPoint  # noqa: PLC0415
    from btclib.tx.tx import Tx  # noqa: PLC0415
    from btclib.tx.tx_in import TxIn  # noqa: PLC0415
    from btclib.tx.tx_out import TxOut  # noqa: PLC0415

    ch = ctx.ch
    kind = ch.pick(["p2wpkh", "p2pkh", "p2tr", "bare-checksig"], "eng.kind")
    if kind == "bare-checksig":
        return _boundary_s(ctx)
    q = H.uniform_scalar(ch, "eng.q")
    Q = H.mult(q)
    amount = 1000 + ch.draw(10**8, "eng.amount")
    tx = Tx(2, 0, [TxIn(OutPoint(ch.nbytes(32, "eng.txid"), ch.draw(3, "eng.vout")), b"", 0xFFFFFFFD)], [TxOut(amount - 500, b"\x00\x14" + ch.nbytes(20, "eng.dest"))])
    flag_name, flags = ch.pick([
        ("default", None), ("none", ScriptFlag(0)), ("strictenc", ALL_FLAGS | ScriptFlag.STRICTENC), ("low_s", ALL_FLAGS | ScriptFlag.LOW_S),
        ("nullfail", ALL_FLAGS | ScriptFlag.NULLFAIL), ("witness-pubkeytype", ALL_FLAGS | ScriptFlag.WITNESS_PUBKEYTYPE), ("no-dersig", ALL_FLAGS & ~ScriptFlag.DERSIG),
    ], "eng.flags")
    hostile = ch.chance(2, 3, "eng.hostile?")
    cls = "valid"
    if kind == "p2tr":
        out, _ = need(ctx, Op("taproot.output_pubkey", "valid", lambda: taproot.output_pubkey(H.sec(Q), None)))
        d = need(ctx, Op("taproot.output_prvkey", "valid", lambda: taproot.output_prvkey(q, None)))
        spk = b"\x51\x20" + out
        ht = ch.pick([0, 1, 3, 0x81, 2], "eng.ht")
        tx.vin[0].script_witness = Witness([bytes(64)])
        h = sig_hash.from_tx([TxOut(amount, spk)], tx, 0, ht)
        aux = ch.nbytes(32, "eng.aux")
        sig = need(ctx, Op("ssa.sign_", "valid", lambda: ssa.sign_(h, d, aux).serialize()))
        wit = sig + (bytes([ht]) if ht else b"")
        if hostile:
            cls = ch.pick(["unspendable-output-off-curve", "unspendable-output-ge-p", "sig-explicit-default-hashtype", "sig-undefined-hashtype", "sig-66-bytes",
                           "another-amount", "damaged-signature"], "eng.tr.cls")
            if cls == "damaged-signature":
                cls, bad = H.ssa_sig(ch, "eng.tr.sig", sig, True)
                wit = bad + (bytes([ht]) if ht and len(bad) == 64 else b"")
            wit = {"sig-explicit-default-hashtype": sig + b"\x00", "sig-undefined-hashtype": sig + b"\x04", "sig-66-bytes": sig + b"\x01\x01"}.get(cls, wit)
            spk = {"unspendable-output-off-curve": b"\x51\x20" + H.b32(H.off_curve_x(ch, "eng.x")), "unspendable-output-ge-p": b"\x51\x20" + H.b32(H.P + ch.draw(977, "eng.p"))}.get(cls, spk)
            if cls == "another-amount":
                amount += 1
        tx.vin[0].script_witness = Witness([wit])
    else:
        key_cls = "valid"
        pk = H.sec(Q, not ch.draw(3, "eng.uncompressed"))
        if hostile and ch.draw(2, "eng.key-dim"):
            key_cls = ch.pick(["hybrid-key", "hybrid-key-wrong-parity", "uncompressed-key"], "eng.key.cls")
            pk = {"hybrid-key": bytes([6 + (Q[1] & 1)]), "hybrid-key-wrong-parity": bytes([7 - (Q[1] & 1)]), "uncompressed-key": b"\x04"}[key_cls] + H.sec(Q, False)[1:]
        spk = b"\x00\x14" + hash160(pk) if kind == "p2wpkh" else b"\x76\xa9\x14" + hash160(pk) + b"\x88\xac"
        ht = ch.pick([1, 2, 3, 0x81, 0x83], "eng.ht")
        h = sig_hash.from_tx([TxOut(amount, spk)], tx, 0, ht)
        sig = need(ctx, Op("dsa.sign_", "valid", lambda: dsa.sign_(h, q)))
        sig_cls, der = H.der_sig(ch, "eng.sig", sig.r, sig.s, hostile and key_cls == "valid")
        cls = _cls(key_cls, sig_cls)
        if hostile and cls == "valid":
            cls, amount = "another-amount", amount + 1
        sig_bytes = der + bytes([ht]) if der else b""
        if kind == "p2wpkh":
            tx.vin[0].script_witness = Witness([sig_bytes, pk])
        else:
            tx.vin[0].script_sig = _push(sig_bytes) + _push(pk)
    prevouts = [TxOut(amount, spk)]
    if ch.draw(4, "eng.whole-tx") == 0:
        return Op(f"engine.verify_transaction.{kind}", cls, lambda: verify_transaction(prevouts, tx, flags), note=f"flags={flag_name} ht={ht}")
    return Op(f"engine.verify_input.{kind}", cls, lambda: verify_input(prevouts, tx, 0, flags), note=f"flags={flag_name} ht={ht}")


CATALOGUE: list[tuple[Callable[[Ctx], Op], int]] = [
    (g_mult, 4), (g_dsa_sign, 3), (g_dsa_verify, 4), (g_ssa_sign, 3), (g_ssa_verify, 3), (g_ssa_batch, 2), (g_bms, 2), (g_bip32, 3),
    (g_taproot, 4), (g_dh, 2), (g_ellswift, 3), (g_musig, 3), (g_sums, 2), (g_silent, 4), (g_engine, 5),
]


def draw_op(ctx: Ctx) -> Op:
    only = ctx.cfg.get("family")  # e.g. family="silent": one generator only (focus plans, debugging)
    gen = ctx.ch.weighted([(g, w) for g, w in CATALOGUE if only is None or g.__name__ == "g_" + only], "op.family")
    op = gen(ctx)
    ctx.probe("class:" + ("valid" if op.cls == "valid" else "hostile"))
    return op


def judged_ops(ctx: Ctx, k: int) -> list[tuple[Op, Obs]]:
    """k operations with their twin baseline; sites that are not judged are left out."""
    out = []
    for _ in range(k):
        op = draw_op(ctx)
        base = twin(ctx, op)
        if base is not None:
            out.append((op, base))
    return out


# ---------------------------------------------------------------------------
# the three schedules
# ---------------------------------------------------------------------------
def run(ctx: Ctx) -> None:
    if not st.bindings_installed():
        raise RunAborted("btclib_secp256k1 is not installed: there is one arm only")
    part = ctx.cfg.get("part", "twin")
    rng = SimRng(ctx, mode=ctx.ch.pick(["uniform", "edge"], "rng.mode"))
    rng.install()
    ctx.log("start", part, rng.mode)
    {"twin": _twins, "history": _history, "threads": _threads}[part](ctx)


def _twins(ctx: Ctx) -> None:
    for _ in range(3 + ctx.ch.draw(6, "nops")):
        twin(ctx, draw_op(ctx))


def _flip(ctx: Ctx) -> None:
    now = not st.backend()
    st.set_backend(now)
    ctx.fault("backend-flip", f"serving={now}")


def _history(ctx: Ctx) -> None:
    ch = ctx.ch
    ops = judged_ops(ctx, 2 + ch.draw(5, "nops"))
    if not ops:
        return
    objs: dict[int, tuple[Any, bool]] = {}
    st.set_backend(bool(ch.draw(2, "history.arm0")))
    for _ in range(6 + ch.draw(20, "nsteps")):
        step = ch.weighted([("call", 6), ("flip", 3), ("cache-clear", 1), ("rebuild", 1)], "step")
        if step == "flip":
            _flip(ctx)
            continue
        if step == "cache-clear":
            st.clear_all_caches()
            ctx.fault("cache-clear")
            continue
        j = ch.draw(len(ops), "which")
        op, base = ops[j]
        if step == "rebuild":
            if op.make is not None and j in objs:
                objs[j] = (build(op), st.backend())
                ctx.fault("object-rebuilt", op.api)
            continue
        obj = None
        if op.make is not None:
            if j not in objs:
                objs[j] = (build(op), st.backend())
            obj, born = objs[j]
            if born != st.backend():
                ctx.fault("cross-arm-object", op.api)
        got = observe(op, obj)
        ctx.log("call", op.site, f"serving={st.backend()}", got.tag)
        ctx.state(f"{op.api}:{st.backend()}")
        ctx.check(
            P, "history-agrees", got.tag == base.tag,
            lambda: f"{op.site} {op.note} (serving={st.backend()}): {got.tag} [{got.text}] != twin baseline {base.tag} [{base.text}]", site=op.site,
        )


class _Gate:
    """What a simulated thread blocks on until the run has made ``at`` steps (or the caller
    is done): the scheduler reads ``owner`` to decide whether the thread is runnable."""

    def __init__(self, sched: Any, at: int, state: dict[str, bool]) -> None:
        self.sched, self.at, self.state = sched, at, state

    @property
    def owner(self) -> str | None:
        return None if self.sched.steps >= self.at or self.state["done"] else "gate"


def _threads(ctx: Ctx) -> None:
    from btcsim.core.threads import count_steps  # noqa: PLC0415

    ch = ctx.ch
    ops = judged_ops(ctx, 1 + ch.draw(3, "nops"))
    if not ops:
        return
    st.set_backend(bool(ch.draw(2, "threads.born")))
    objs = [build(op) if op.make is not None else None for op, _ in ops]
    dedupe = ch.weighted([("op", 3), ("frame", 1)], "dedupe")
    est: dict[bool, int] = {}
    for _ in range(1 + ch.draw(3, "rounds")):
        arm0 = bool(ch.draw(2, "threads.arm0"))
        st.set_backend(arm0)
        if arm0 not in est:
            est[arm0] = sum(count_steps(lambda op=op, obj=obj: observe(op, obj), dedupe=dedupe)[1] for (op, _), obj in zip(ops, objs))
            st.set_backend(arm0)
        _schedule(ctx, ops, objs, dedupe, max(est[arm0], 4))


def _schedule(ctx: Ctx, ops: list[tuple[Op, Obs]], objs: list[Any], dedupe: str, est: int) -> None:
    """One seeded interleaving: the caller makes its calls, the flipper moves the switch."""
    from btcsim.core.threads import SimThreads  # noqa: PLC0415

    ch = ctx.ch
    kind = ch.weighted([("pct", 6), ("unif", 3)], "strategy")
    strategy: dict[str, Any] = {"kind": kind, "d": 1 + ch.draw(3, "pct.d")} if kind == "pct" else {"kind": kind, "p": ch.pick([(1, 50), (1, 10), (3, 10)], "p")}
    sched = SimThreads(ctx, strategy, dedupe=dedupe, max_steps=int(ctx.cfg.get("max_steps", 200000)))
    results: list[Obs] = []
    state = {"in-call": False, "done": False}

    def caller() -> None:
        for (op, _), obj in zip(ops, objs):
            sched.new_op()
            state["in-call"] = True
            results.append(observe(op, obj))
            state["in-call"] = False
        state["done"] = True

    # each flip waits for a drawn step of the run: with the higher priority the flipper pre-empts the caller exactly there
    flip_at = sorted(ch.draw(est + 1, "flip.at") for _ in range(ch.pick([1, 1, 2, 3], "nflips")))

    def flipper() -> None:
        for at in flip_at:
            if not state["done"]:
                sched.block_current(_Gate(sched, at, state))
            st.set_backend(not st.backend())
            ctx.fault("backend-flip-concurrent")
            if state["in-call"]:
                ctx.probe("flip-inside-call")

    sched.spawn("caller", caller)
    sched.spawn("flipper", flipper)
    for status, exc in sched.run(est_steps=est).values():
        if status == "exc":
            raise exc  # a simulated thread crashed outside observe(): a harness error
    ctx.log("threads-done", f"steps={sched.steps}", f"switches={ctx.switches}", kind, f"flip_at={flip_at}")
    ctx.trace.extend(sched.switch_trace)
    ctx.sample["switch_trace"] = sched.switch_trace[:20]
    if sched.capped or sched.deadlock:
        raise RunAborted("thread scheduler: step cap or deadlock")
    for (op, base), got in zip(ops, results):
        ctx.log("call", op.site, got.tag)
        ctx.check(
            P, "flip-during-call-agrees", got.tag == base.tag,
            lambda: f"{op.site} {op.note}: {got.tag} [{got.text}] != twin baseline {base.tag} [{base.text}]; switches={sched.switch_trace[-6:]}", site=op.site,
        )
    ctx.check(P, "flip-during-call-agrees", len(results) == len(ops), f"the caller made {len(results)} of {len(ops)} calls", site="caller")


# ---------------------------------------------------------------------------
# check definition
# ---------------------------------------------------------------------------
def _plans(tier: str) -> list[Any]:
    from btcsim.core.runner import Plan  # noqa: PLC0415

    return [
        Plan("backend", {"part": "twin"}, share=3.0, chunk=20, label="backend/twin"),
        Plan("backend", {"part": "history"}, share=2.0, chunk=10, label="backend/history"),
        Plan("backend", {"part": "threads"}, share=3.0, chunk=10, label="backend/threads"),
    ]


CHECKS = {
    "C04": {
        "level": "exploration",
        "plans": _plans,
        "rule": (
            "one evaluation = one seeded run: 3-8 dual-path operations drawn from the catalogue (valid arguments, or exactly one argument "
            "from a hostile input class) each executed on both arms (twin), or 2-6 such operations re-called along a history of 6-25 "
            "steps with backend flips, cache clears and objects built on the other arm, or 1-3 operations called in a simulated thread over "
            "1-3 seeded interleavings (PCT / uniform) while a second thread flips the switch 1-3 times, each flip released at a drawn "
            "step of the run. distinct = distinct hash of the (event, fault) "
            "sequence incl. the thread switch trace; non-trivial = at least one flip / cache clear / cross-arm object fired or >= 2 "
            "context switches. A site is <api>/<input class>."
        ),
        "assumptions": [
            "secp256k1 with sha256 only: the one pair both arms serve",
            "ElligatorSwift create/encode are random by contract: they are observed through decode_var",
            "BIP340 aux drawn by the library is pinned to one value for both arms; blinding and batch coefficients draw freely",
            "pre-emption only at first-visit line boundaries of btclib frames; calls into the bindings are atomic (GIL)",
            "sites in PROBE_ONLY (odd-y taproot input keys: outside the documented caller contract) are executed and counted, not judged",
        ],
    },
}
