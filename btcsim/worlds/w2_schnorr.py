"""W2 `schnorr` -- signers, a relay, a batching verifier (C03).

Actors: 1-3 signers (free ``ssa.sign_`` / ``ssa.sign`` and ``ssa.Signer``
objects), a relay, a verifier that accumulates what arrives, calls
``ssa.verify_`` on every arrival and ``ssa.batch_verify_`` on the accumulated
list at drawn checkpoints and at the end.

Curves: secp256k1 on both arms (where BIP340 defines the bytes), or -- on the
Python arithmetic -- another catalogued curve with p = 3 mod 4 and cofactor 1,
or a toy curve with p = 3 mod 4 enumerated by the reference.

Workload: messages of length 0..200, keys over both y parities, aux given
(uniform, all-zero, all-ff) or drawn by the library through the RNG seam
(uniform and edge draws; the value is captured at the seam), with or without
a sign-to-contract commitment; keys reach the verifier in every spelling
(x-only octets, int, point of either parity, PreparedPoint, SEC octets,
hex), signatures as ``Sig`` or octets. The relay duplicates and reorders;
in the fault plan it then corrupts exactly ONE member of the final list at a
drawn position with an independent error in r, s or x (r >= p, s >= n, s + n,
x that is no x-coordinate, another signer's key included), and cache clears,
backend flips and RNG mode flips are drawn between the verifier's steps.
Duplicates are made before the corruption, so no two members are wrong and
no cancelling pair exists: with one wrong member the batch equation fails
for every non-zero coefficient, which is what makes edge coefficient draws
(1, 2, n-2, n-1) sound. On curves with a cofactor nothing is corrupted.

Invariants (all C03):
- ``sign-succeeds`` (secp256k1): signing a valid key and message never raises;
- ``sign-matches-bip340`` (secp256k1): the signature is byte for byte
  ``ref.bip340.sign(msg, key, aux)`` for the aux given or drawn;
- ``signature-verifies``: every produced signature verifies under the
  signer's x-only key (library verdict, every curve);
- ``signature-verifies-bip340`` (secp256k1): and under the reference verifier;
- ``commitment-opens``: a committing signature opens against its value and
  receipt (library and, on secp256k1, an independent recomputation of the
  committed point) and not against another value;
- ``verify-total`` / ``batch-total``: the boolean verifiers never raise;
- ``verify-matches-bip340`` (secp256k1): ``verify_`` == reference verdict;
- ``batch-equals-conjunction``: ``batch_verify_(arrivals) == all(verify_)``
  for every size, order, duplication, bad-member position and coefficient draw;
- ``verdict-independent-of-state``: the same member re-verified after a
  perturbation, under another key / signature spelling, on the other arm,
  gets the same verdict.
"""

from __future__ import annotations

import dataclasses

import hashlib
from dataclasses import dataclass, replace
from typing import Any

from btclib.curves import CURVES, PreparedPoint
from btclib.curves import curve_group as cg
from btclib.ecc import ssa
from btclib.exceptions import BTClibException

from btcsim.core.ctx import Ctx, RunAborted
from btcsim.gen import curves as gc
from btcsim.gen import keys as gk
from btcsim.ref import bip340
from btcsim.seams import state as st
from btcsim.seams.rng import SimRng

P = "C03"
OTHER_CURVES = [k for k in sorted(CURVES) if k != "secp256k1" and CURVES[k].p % 4 == 3 and CURVES[k].cofactor == 1 and CURVES[k].p.bit_length() <= 256]
BOS_COSTER_TERMS = int(getattr(cg, "BOS_COSTER_THRESHOLD", 56))  # two terms a signature: a batch crosses it at 28 members
MSG_LENGTHS = [0, 1, 31, 32, 33, 64, 65, 200]


class _Rng(SimRng):
    """Remembers what ``token_bytes`` answered, so the aux a signer drew is known."""

    def __init__(self, ctx: Ctx, mode: str) -> None:
        super().__init__(ctx, mode)
        self.tokens: list[bytes] = []

    def token_bytes(self, k: int | None = None) -> bytes:
        v = super().token_bytes(k)
        self.tokens.append(v)
        return v


@dataclass(frozen=True)
class Member:
    """One (message, key, signature) as it travels; ``x``, ``r``, ``s`` are what the verifier is told."""

    msg: bytes
    raw: bytes | None  # the message before hashing, where the signer used the hashing spelling
    x: int
    r: int
    s: int
    point: tuple[int, int] | None  # the signer's point, when x is still the signer's
    note: str = "honest"


class W:
    def __init__(self, ctx: Ctx, rng: _Rng) -> None:
        self.ctx, self.ch, self.rng = ctx, ctx.ch, rng
        kind = ctx.cfg.get("curve") or ctx.ch.weighted([("secp256k1", 7), ("toy", 2), ("catalogued", 1)], "curve.kind")
        self.kind = kind
        if kind == "toy":
            self.ec, self.ref, t = gc.toy_curve(ctx, p_ok=lambda p: p % 4 == 3 and p > 7, strict=True, tries=40)
            self.label = f"toy:p={t[0]},a={t[1]},b={t[2]},G={t[3]},n={t[4]},h={t[5]}"
        else:
            self.label = "secp256k1" if kind == "secp256k1" else ctx.ch.pick(OTHER_CURVES, "curve.name")
            self.ec, self.ref = gc.catalogued(self.label)
        self.bip = kind == "secp256k1"  # the curve BIP340 defines bytes on
        # the naive reference costs ~8 ms a multiplication on secp256k1: a drawn sample of signatures gets it
        self.ref_signs = ctx.ch.pick([1, 0, 1, 2, 2, 3], "budget.ref-sign") if self.bip else 0
        self.ref_verifies = ctx.ch.pick([1, 0, 0, 1, 2], "budget.ref-verify") if self.bip else 0

    def octets(self, v: int, size: int) -> bytes:
        return v.to_bytes(size, "big")

    def sig(self, m: Member) -> ssa.Sig:
        return ssa.Sig(m.r, m.s, self.ec, check_validity=False)


# ---------------------------------------------------------------------------
# signers
# ---------------------------------------------------------------------------
def _message(w: W) -> bytes:
    n = w.ch.pick(MSG_LENGTHS, "msg.len") if w.ch.draw(2, "msg.len.class") else w.ch.draw(201, "msg.len")
    return w.ch.nbytes(n, "msg")


def _produce(w: W, signers: list[dict[str, Any]]) -> Member | None:
    """One signature by one signer, judged as it is produced."""
    ctx, ch, ec = w.ctx, w.ch, w.ec
    sg = ch.pick(signers, "signer")
    q, Q = sg["q"], sg["Q"]
    style = ch.pick(["sign_", "sign", "Signer.sign_", "Signer.sign"], "style")
    raw = _message(w)
    hashed = style.endswith("sign")
    msg = hashlib.sha256(raw).digest() if hashed else raw
    aux_kind = ch.weighted([("drawn", 4), ("uniform", 3), ("zero", 1), ("ff", 1)], "aux")
    aux = None if aux_kind == "drawn" else ch.nbytes(32, "aux.bytes") if aux_kind == "uniform" else bytes([0 if aux_kind == "zero" else 255]) * 32
    commit = ch.nbytes(32, "commit") if style in ("sign_", "sign") and ch.chance(1, 4, "commit?") else None
    commit_hash = None if commit is None else hashlib.sha256(commit).digest() if hashed else commit
    mark = len(w.rng.tokens)
    receipt = None
    try:
        if style == "sign_":
            out = ssa.sign_(raw, q, aux, ec) if commit is None else ssa.sign_(raw, q, aux, ec, commit_hash=commit)
        elif style == "sign":
            out = ssa.sign(raw, q, aux, ec) if commit is None else ssa.sign(raw, q, aux, ec, commit=commit)
        else:
            if sg.get("signer") is None or ch.chance(1, 4, "signer.new"):
                sg["signer"] = ssa.Signer(q, ec)
            octets = sg["signer"].sign_(raw, aux) if style == "Signer.sign_" else sg["signer"].sign(raw, aux)
            out = ssa.Sig(int.from_bytes(octets[: ec.p_size], "big"), int.from_bytes(octets[ec.p_size :], "big"), ec, check_validity=False)
        if commit is not None:
            out, receipt = out
    except Exception as e:  # noqa: BLE001
        # a zero challenge or a zero tweaked nonce is one in n and documented: reachable on toy curves only
        tolerated = isinstance(e, BTClibException) and not w.bip
        ctx.check(P, "sign-succeeds", tolerated, f"{style} on {w.label}: {type(e).__name__}: {e}", site=style)
        if not tolerated:
            raise RunAborted(f"{style}: {type(e).__name__}: {e}") from e
        ctx.probe("toy-sign-refused")
        ctx.log("sign-refused", style, type(e).__name__)
        return None
    drawn = w.rng.tokens[mark:]
    if aux is None:
        ctx.probe("aux-drawn-by-library")
    aux_used = aux if aux is not None else drawn[0] if len(drawn) == 1 and len(drawn[0]) == 32 else None
    m = Member(msg, raw if hashed else None, Q[0], out.r, out.s, Q)
    ctx.log("signed", style, f"len={len(raw)}", aux_kind, "commit" if commit else "-", f"odd-y={Q[1] % 2}", w.octets(m.r, ec.p_size), w.octets(m.s, ec.n_size))
    ctx.state(f"sign:{w.kind}:{st.backend()}:{style}:{aux_kind}:{commit is not None}:{Q[1] % 2}")
    ok = _verdict(w, m, "x-octets", "Sig", site="produced")
    ctx.check(P, "signature-verifies", ok, lambda: f"{style} on {w.label}: the signature does not verify under its own key", site=style)
    if w.bip:
        sig64 = w.octets(m.r, 32) + w.octets(m.s, 32)
        if commit is None and aux_used is not None and w.ref_signs and ch.chance(2, 3, "ref-sign?"):
            w.ref_signs -= 1
            want = bip340.sign(msg, q, aux_used)
            ctx.check(P, "sign-matches-bip340", sig64 == want, lambda: f"{style} len={len(msg)} aux={aux_kind} bindings={st.backend()}: {sig64.hex()} != BIP340 {want.hex()}", site=style)
        elif w.ref_verifies and ch.chance(1, 2, "ref-verify-produced?"):
            w.ref_verifies -= 1
            ctx.check(P, "signature-verifies-bip340", bip340.verify(msg, w.octets(m.x, 32), sig64), lambda: f"{style}: {sig64.hex()} fails the reference verifier", site=style)
    if commit_hash is not None:
        _commitment(w, m, commit_hash, receipt, style)
    return m


def _other_hash(w: W, signers: list[dict[str, Any]]) -> None:
    """The scheme under another hash function (the library offers any): the BIP fixes no bytes there, but the
    object and the free function are one algorithm -- same octets for the same (message, key, aux) -- and the
    signature verifies under the signer's key with that hash function. Which arm signs is decided from the
    curve AND the hash function; sha256 on secp256k1 is the only pair the bindings serve."""
    ctx, ch, ec = w.ctx, w.ch, w.ec
    hf = ch.pick([hashlib.sha3_256, hashlib.sha512, hashlib.sha1, hashlib.blake2s], "hf")
    size = hf().digest_size
    sg = ch.pick(signers, "hf.signer")
    msg = ch.nbytes(ch.pick([size, size, 0, 9, 100], "hf.msglen"), "hf.msg")
    aux = ch.nbytes(size, "hf.aux") if ch.draw(3, "hf.aux?") else None
    site = f"hf:{hf().name}"
    mark = len(w.rng.tokens)
    try:
        via_object = ssa.Signer(sg["q"], ec, hf).sign_(msg, aux)
    except BTClibException as e:
        # a zero challenge or nonce is one in n and a documented refusal: reachable on toy curves only
        ctx.check(P, "sign-succeeds", not w.bip, f"Signer({hf().name}) on {w.label}: {type(e).__name__}: {e}", site=site)
        ctx.probe("toy-sign-refused")
        return
    except Exception as e:  # noqa: BLE001
        ctx.check(P, "sign-succeeds", False, f"Signer({hf().name}) on {w.label} (bindings={st.backend()}): {type(e).__name__}: {e}", site=site)
        raise RunAborted(f"other-hash: {type(e).__name__}: {e}") from e
    drawn = w.rng.tokens[mark:]
    used = aux if aux is not None else drawn[0] if len(drawn) == 1 and len(drawn[0]) == size else None
    with ctx.must_succeed(P, "verify-total", site):
        # octets carry no curve: the signature object is what names it
        sig = ssa.Sig(int.from_bytes(via_object[: ec.p_size], "big"), int.from_bytes(via_object[ec.p_size :], "big"), ec, check_validity=False)
        ok = ssa.verify_(msg, sg["Q"][0], sig, hf)
    ctx.check(P, "signature-verifies", ok is True, lambda: f"Signer({hf().name}) on {w.label} (bindings={st.backend()}): the signature does not verify under its own key and hash function", site=site)
    if used is not None:
        try:
            free = ssa.sign_(msg, sg["q"], used, ec, hf).serialize()
        except BTClibException as e:
            ctx.check(P, "sign-succeeds", not w.bip, f"sign_({hf().name}) on {w.label}: {type(e).__name__}: {e}", site=site)
            return
        ctx.check(P, "signer-object-equals-free-function", free == via_object, lambda: f"{hf().name} on {w.label} (bindings={st.backend()}): Signer {via_object.hex()} != sign_ {free.hex()}", site=site)
    ctx.log("other-hash", hf().name, len(msg), ok)
    ctx.probe(f"other-hash:{hf().name}")


def _commitment(w: W, m: Member, commit_hash: bytes, receipt: Any, style: str) -> None:
    ctx, ec = w.ctx, w.ec
    with ctx.must_succeed(P, "verify-total", "commitment"):
        opens = ssa.verify_(m.msg, m.x, w.sig(m), commit_hash=commit_hash, receipt=receipt)
        other = ssa.verify_(m.msg, m.x, w.sig(m), commit_hash=hashlib.sha256(commit_hash).digest(), receipt=receipt)
    ctx.check(P, "commitment-opens", opens, f"{style} on {w.label}: the commitment does not open against its own value", site=style)
    if w.bip:
        ctx.check(P, "commitment-opens", not other, f"{style}: the commitment opens against another value", site=style)
        # independently: r is the x of receipt + H(receipt || value) * G
        sec = bytes([2 + receipt[1] % 2]) + w.octets(receipt[0], 32)
        tweak = int.from_bytes(bip340.tagged_hash("s2c/bip340/point", sec + commit_hash), "big")
        if 0 < tweak < ec.n and w.ref.on_curve(receipt) and w.ch.chance(1, 2, "ref-open?"):
            Wp = w.ref.add(receipt, w.ref.mul(tweak, w.ref.G))
            ctx.check(P, "commitment-opens", Wp is not None and Wp[0] == m.r, lambda: f"{style}: r is not the x of receipt + tweak*G ({Wp})", site=style)


# ---------------------------------------------------------------------------
# the verifier's two questions
# ---------------------------------------------------------------------------
KEY_SPELLINGS = ["x-octets", "int", "point", "prepared", "sec", "hex"]
SIG_SPELLINGS = ["Sig", "octets"]


def _key(w: W, m: Member, spelling: str) -> Any:
    """The key the verifier was told, in one of the spellings ``BIP340PubKey`` names."""
    size = w.ec.p_size
    if spelling == "int" or not 0 <= m.x < 1 << (8 * size):
        return m.x  # what is no p-size field element has no other spelling
    if m.point is not None and spelling in ("point", "prepared", "sec"):  # the signer's own point, of either parity
        if spelling == "sec":
            return bytes([2 + m.point[1] % 2]) + w.octets(m.x, size)
        return m.point if spelling == "point" else PreparedPoint(m.point, w.ec)
    return w.octets(m.x, size).hex() if spelling == "hex" else w.octets(m.x, size)


def _verdict(w: W, m: Member, key: str, sig: str, site: str) -> bool:
    """``verify_`` (or the hashing ``verify``) on one member; never an exception."""
    fits = w.bip and 0 <= m.r < 1 << 256 and 0 <= m.s < 1 << 256
    s_arg: Any = w.octets(m.r, 32) + w.octets(m.s, 32) if sig == "octets" and fits else w.sig(m)
    with w.ctx.must_succeed(P, "verify-total", site):
        if m.raw is not None and w.ch.draw(3, "verify.hashing") == 0:
            return bool(ssa.verify(m.raw, _key(w, m, key), s_arg))
        return bool(ssa.verify_(m.msg, _key(w, m, key), s_arg))


def _reference_verdict(m: Member) -> bool:
    """BIP340's Verify on what the verifier was told; anything that is no (x, r, s) of 32 octets each fails."""
    if not all(0 <= v < 1 << 256 for v in (m.x, m.r, m.s)):
        return False
    return bip340.verify(m.msg, m.x.to_bytes(32, "big"), m.r.to_bytes(32, "big") + m.s.to_bytes(32, "big"))


def _equation_verdict(w: W, m: Member) -> bool | None:
    """BIP340's Verify carried to another curve (cofactor 1, p = 3 mod 4) over the naive reference group: x, r field
    elements, s a scalar, P = lift_x(x), R = s*G - e*P finite with even y and x(R) = r. The challenge is the library's
    own tagged hash (its refusal of a zero challenge, one in n, is documented: None, nothing is asserted)."""
    ec, ref = w.ec, w.ref
    if not (0 <= m.x < ec.p and 0 <= m.r < ec.p and 0 <= m.s < ec.n):
        return False
    rhs = (m.x * m.x * m.x + ref.a * m.x + ref.b) % ec.p
    y = pow(rhs, (ec.p + 1) // 4, ec.p)
    if y * y % ec.p != rhs:
        return False
    pub = (m.x, y if y % 2 == 0 else ec.p - y)
    try:
        e = ssa.challenge_(m.msg, m.x, m.r, ec, hashlib.sha256)
    except BTClibException:
        return None
    R = ref.add(ref.mul(m.s, ref.G), ref.neg(ref.mul(e, pub)))
    return R is not None and R[1] % 2 == 0 and R[0] == m.r


def _zero_r_member(w: W, signers: list[dict[str, Any]]) -> Member | None:
    """A signature whose nonce point has x = 0 (a signer free to choose its nonce can make one wherever the curve has
    such a point): valid as it stands, r = 0 being a field element, and one modulus away from an r that is none."""
    ec, ref, ch = w.ec, w.ref, w.ch
    b = ref.b % ec.p
    y = pow(b, (ec.p + 1) // 4, ec.p)
    if not b or y * y % ec.p != b:
        return None
    target = (0, y if y % 2 == 0 else ec.p - y)
    k, acc = 1, ref.G
    while acc != target and k < ec.n:
        acc = ref.add(acc, ref.G)
        k += 1
    if acc != target:
        return None
    sg = ch.pick(signers, "zero-r.signer")
    d = sg["q"] if sg["Q"][1] % 2 == 0 else ec.n - sg["q"]
    msg = _message(w)
    # ... or, from a signer that is not honest, the same nonce with r written as p: the challenge is hashed over
    # those octets, the equation holds modulo p, and r is no field element -- BIP340 says fail
    r = ec.p if ch.draw(2, "zero-r.as-p") and ec.p < 1 << (8 * ec.p_size) else 0
    try:
        e = ssa.challenge_(msg, sg["Q"][0], r, ec, hashlib.sha256)
    except BTClibException:
        return None
    w.ctx.probe("zero-r-member" if r == 0 else "p-for-zero-r-member")
    return Member(msg, None, sg["Q"][0], r, (k + e * d) % ec.n, sg["Q"], note="honest" if r == 0 else "r:modulus-for-zero")


def _batch(w: W, arrivals: list[Member], verdicts: list[bool], where: str) -> None:
    ctx, ch = w.ctx, w.ch
    keys = [_key(w, m, ch.pick(KEY_SPELLINGS, "batch.key")) for m in arrivals]
    with ctx.must_succeed(P, "batch-total", where):
        got = bool(ssa.batch_verify_([m.msg for m in arrivals], keys, [w.sig(m) for m in arrivals]))
    want = all(verdicts)
    python_arm = not (w.bip and st.backend())
    side = "single" if len(arrivals) == 1 else "delegated" if not python_arm else "bos-coster" if 2 * len(arrivals) >= BOS_COSTER_TERMS else "wnaf"
    ctx.probe("batch:" + side)
    ctx.log("batch", where, len(arrivals), got, side)
    ctx.state(f"batch:{w.kind}:{side}:{min(len(arrivals), 30) // 5}:{want}")
    bad = [f"{i}:{m.note}" for i, (m, v) in enumerate(zip(arrivals, verdicts)) if not v]
    ctx.check(
        P, "batch-equals-conjunction", got == want,
        lambda: f"batch of {len(arrivals)} on {w.label} ({side}) answered {got}, the members say {want}; refused members {bad}", site=side,
    )


# ---------------------------------------------------------------------------
# the relay
# ---------------------------------------------------------------------------
def _no_y(w: W, x: int) -> int:
    """The first x' >= x (cyclically) that is the x-coordinate of no point, by Euler's criterion; p if there is none."""
    p = w.ec.p
    for i in range(p):
        xi = (x + i) % p
        rhs = (xi * xi * xi + w.ref.a * xi + w.ref.b) % p
        if rhs and pow(rhs, (p - 1) // 2, p) != 1:
            return xi
    return p


def _corrupt(w: W, m: Member, signers: list[dict[str, Any]]) -> Member:
    """An error in exactly one of r, s, x of one member: an independent value, or the odd-y twin of its nonce."""
    ch, ec = w.ch, w.ec
    field = ch.pick(["s", "r", "x"], "corrupt.field")
    if m.r == 0 and ch.draw(2, "corrupt.zero-r"):
        field = "r"
    mod, size = (ec.n, ec.n_size) if field == "s" else (ec.p, ec.p_size)
    old = getattr(m, field)
    kinds = ["other", "above-modulus", "bit-flip", "plus-modulus"] + {"s": ["odd-y-twin"], "r": ["no-x-coordinate"], "x": ["no-x-coordinate", "other-signer", "huge"]}[field]
    kind = ch.pick(kinds, "corrupt.kind")
    if old == 0 and field != "s":
        kind = ch.pick([kind, "plus-modulus"], "corrupt.zero")  # the modulus itself, where zero was: the boundary of the range
    if kind == "other":
        new = (old + 1 + ch.draw(mod - 1, "corrupt.value")) % mod
    elif kind == "above-modulus":
        new = mod + ch.draw((1 << (8 * size)) - mod, "corrupt.value")
    elif kind == "bit-flip":
        new = old ^ (1 << ch.draw(8 * size, "corrupt.bit"))
    elif kind == "plus-modulus":
        new = old + mod
    elif kind == "no-x-coordinate":
        new = _no_y(w, ch.draw(mod, "corrupt.value"))
    elif kind == "huge":
        new = (1 << 256) + ch.draw(1 << 64, "corrupt.value")
    elif kind == "odd-y-twin":
        # s' = -k + e*d: the nonce point keeps its x and takes the odd y, which BIP340 refuses on its own
        sg = next(g for g in signers if g["Q"][0] == m.x)
        d = sg["q"] if sg["Q"][1] % 2 == 0 else ec.n - sg["q"]
        new = (2 * ssa.challenge_(m.msg, m.x, m.r, ec, hashlib.sha256) * d - old) % ec.n
    else:
        alien = [g["Q"][0] for g in signers if g["Q"][0] != m.x]
        new = ch.pick(alien, "corrupt.alien") if alien else (old + 1) % mod
    w.ctx.fault(f"corrupt-{field}", kind)
    return replace(m, **{field: new}, point=m.point if field != "x" else None, note=f"{field}:{kind}")


def _perturb(w: W) -> None:
    ctx, ch = w.ctx, w.ch
    kind = ch.pick(["cache-clear", "backend-flip", "rng-mode"], "perturb")
    if kind == "cache-clear":
        st.clear_all_caches()
        ctx.fault("cache-clear-all")
    elif kind == "backend-flip" and st.bindings_installed():
        st.set_backend(not st.backend())
        ctx.fault("backend-flip", f"serving={st.backend()}")
    elif not getattr(w, "pin_uniform", False):
        w.rng.mode = "uniform" if w.rng.mode == "edge" else "edge"
        ctx.fault("rng-mode", w.rng.mode)


def run(ctx: Ctx) -> None:
    ch = ctx.ch
    faults = bool(ctx.cfg.get("faults"))
    rng = _Rng(ctx, ctx.cfg.get("rng") or ch.pick(["uniform", "edge"], "rng.mode"))
    rng.install()
    w = W(ctx, rng)
    serving = w.bip and st.bindings_installed() and bool(ch.draw(4, "backend0"))
    st.set_backend(serving)
    ec = w.ec
    ctx.log("start", w.label, f"bindings={serving}", rng.mode, f"faults={faults}")
    ctx.sample["curve"] = w.label
    # -- signers -------------------------------------------------------------
    signers: list[dict[str, Any]] = []
    for _ in range(ch.pick([1, 2, 1, 3], "signers")):
        # half of the keys are short so that the reference derives their point cheaply
        q = 1 + ch.draw(1 << 20, "prv.short") if w.bip and ch.draw(2, "prv.class") else gk.scalar(ch, "prv", ec.n)
        Q = w.ref.mul(q, w.ref.G)
        assert Q is not None
        signers.append({"q": q, "Q": Q})
    python_arm = not serving
    size = ch.weighted([(1, 2), (2, 2), (3, 2), (5, 2), (8, 2), (13, 1), (24, 1)] + ([(27, 1), (28, 1), (29, 1), (32, 1)] if python_arm or faults else []), "batch.size")
    fresh = min(size, 1 + ch.draw(12 if python_arm else 24, "batch.fresh"))
    members: list[Member] = []
    for _ in range(fresh):
        if faults and ch.chance(1, 6, "perturb-signers?"):
            _perturb(w)  # a Signer built on one arm signs on the other
        m = _produce(w, signers)
        if m is not None:
            members.append(m)
    if w.kind == "toy" and ec.cofactor == 1 and ch.chance(3, 4, "zero-r?"):
        m0 = _zero_r_member(w, signers)
        if m0 is not None:
            members.append(m0)
    if signers and ch.chance(1, 3, "other-hash?"):
        _other_hash(w, signers)
    if not members:
        ctx.log("nothing-signed")
        return
    # -- relay: duplicate, reorder, then (fault plan) corrupt exactly one member ---------
    arrivals = list(members)
    while len(arrivals) < size:
        arrivals.append(ch.pick(members, "relay.dup"))
        ctx.fault("duplicate")
    if ch.draw(2, "relay.reorder"):
        arrivals = ch.shuffled(arrivals, "relay.order")
        ctx.fault("reorder")
    victim = -1
    swapped = False
    if faults and ec.cofactor == 1 and ctx.cfg.get("pair") and len(arrivals) >= 3:
        # two wrong members whose errors cancel in a plain sum: the s values of two members swapped. With
        # independent uniform coefficients the batch equation still fails except with probability 1/n, so
        # this class is drawn under UNIFORM coefficient draws only (an edge draw may legally repeat a value,
        # and then the unchanged library accepts such a batch too): the mode is pinned for the whole run
        w.rng.mode = "uniform"
        w.pin_uniform = True
        i = ch.draw(len(arrivals), "pair.i")
        j = ch.draw(len(arrivals), "pair.j")
        a, b = arrivals[i], arrivals[j]
        if ch.chance(1, 3, "pair.negate?"):
            # the other error a plain sum cannot see: s written as n - s, in every member or in a drawn few. Each such
            # member fails alone (its R' is the opposite of a point with even y); with all of them negated the two sides
            # of the batch equation are opposite points, equal only if both are infinity -- sum(a_i s_i) = 0 mod n,
            # probability 1/n under independent uniform coefficients (an edge draw a_2 = n - 1 over a duplicated
            # member would do it, hence this plan's pinned mode)
            every = bool(ch.draw(2, "negate.some")) is False
            for k, mbr in enumerate(arrivals):
                if mbr.s % ec.n and (every or k in (i, j)):
                    arrivals[k] = dataclasses.replace(mbr, s=ec.n - mbr.s % ec.n, note="negated-s")
                    swapped = True
            if swapped:
                ctx.fault("negate-s-" + ("every-member" if every else "some-members"))
        elif i != j and a.s != b.s and (a.msg, a.x, a.r) != (b.msg, b.x, b.r):
            arrivals[i] = dataclasses.replace(a, s=b.s, note="swapped-s")
            arrivals[j] = dataclasses.replace(b, s=a.s, note="swapped-s")
            swapped = True
            ctx.fault("swap-s-pair", i, j)
    elif faults and ec.cofactor == 1 and ch.chance(1, 6, "relay.replay?"):
        # a signature replayed under its key over ANOTHER message: the one member that does not verify shares key and
        # signature with a member that does -- which, half of the time, sits somewhere in front of it in the batch
        victim = ch.draw(len(arrivals), "relay.victim")
        original = arrivals[victim]
        other = ch.nbytes(len(original.msg), "replay.msg")
        if other != original.msg:
            arrivals[victim] = replace(original, msg=other, raw=None, note="msg:replayed-signature")
            if ch.draw(2, "replay.keep-original"):
                arrivals.insert(ch.draw(victim + 1, "replay.original-at"), original)
                victim += 1
            ctx.fault("replay-signature-over-another-message")
        else:
            victim = -1
    elif faults and ec.cofactor == 1 and ch.chance(2, 3, "relay.corrupt?"):
        victim = ch.draw(len(arrivals), "relay.victim")
        zeros = [i for i, a in enumerate(arrivals) if a.r == 0]
        if zeros and ch.draw(2, "relay.victim.zero-r"):
            victim = zeros[0]
        arrivals[victim] = _corrupt(w, arrivals[victim], signers)
    # -- verifier ------------------------------------------------------------------
    checkpoints = {len(arrivals)} | {1 + ch.draw(len(arrivals), "checkpoint") for _ in range(ch.draw(3, "checkpoints"))}
    verdicts: list[bool] = []
    seen: list[tuple[Member, bool]] = []
    for i, m in enumerate(arrivals):
        if faults and ch.chance(1, 4, "perturb?"):
            _perturb(w)
            if seen:
                old, was = ch.pick(seen, "again.which")
                now = _verdict(w, old, ch.pick(KEY_SPELLINGS, "again.key"), ch.pick(SIG_SPELLINGS, "again.sig"), site="again")
                ctx.check(P, "verdict-independent-of-state", now == was, lambda: f"{old.note} member on {w.label}: {was} before, {now} after a perturbation (bindings={st.backend()})", site=old.note.split(":")[0])
        ok = _verdict(w, m, ch.pick(KEY_SPELLINGS, "verify.key"), ch.pick(SIG_SPELLINGS, "verify.sig"), site="arrival")
        ctx.log("arrival", i, m.note, ok)
        if m.note != "honest":
            ctx.probe("corrupted-member-still-valid" if ok else "corrupted-member-refused")
        else:
            ctx.check(P, "signature-verifies", ok, lambda: f"honest member {i} on {w.label} refused on arrival (bindings={st.backend()})", site="arrival")
        if w.bip and (i == victim or (w.ref_verifies and ch.chance(1, 6, "ref-verify?"))):
            w.ref_verifies -= i != victim  # the corrupted member always gets the reference verdict
            want = _reference_verdict(m)
            ctx.check(P, "verify-matches-bip340", ok == want, lambda: f"{m.note} member: verify_ says {ok}, BIP340 says {want} (bindings={st.backend()})", site=m.note.split(":")[0])
        if w.kind == "toy" and ec.cofactor == 1 and (i == victim or m.note != "honest" or ch.chance(1, 4, "eq-verify?")):
            want2 = _equation_verdict(w, m)
            if want2 is not None:
                ctx.check(P, "verify-matches-equation", ok == want2, lambda: f"{m.note} member on {w.label}: verify_ says {ok}, the verification equation over the reference group says {want2} (x={m.x} r={m.r} s={m.s})", site=m.note.split(":")[0])
        verdicts.append(ok)
        seen.append((m, ok))
        if i + 1 in checkpoints:
            _batch(w, arrivals[: i + 1], verdicts, "final" if i + 1 == len(arrivals) else "checkpoint")


def _plans(tier: str) -> list[Any]:
    from btcsim.core.runner import Plan  # noqa: PLC0415

    return [
        Plan("schnorr", {"faults": False, "curve": "secp256k1"}, share=3.0, chunk=20, label="schnorr/secp256k1-fault-free"),
        Plan("schnorr", {"faults": True, "curve": "secp256k1"}, share=4.0, chunk=20, label="schnorr/secp256k1-one-bad-member"),
        Plan("schnorr", {"faults": False}, share=1.0, chunk=20, label="schnorr/any-curve-fault-free"),
        Plan("schnorr", {"faults": True}, share=2.0, chunk=20, label="schnorr/any-curve-one-bad-member"),
        Plan("schnorr", {"faults": True, "curve": "secp256k1", "pair": True, "rng": "uniform"}, share=1.5, chunk=20, label="schnorr/secp256k1-cancelling-pair"),
    ]


CHECKS = {
    "C03": {
        "level": "exploration",
        "plans": _plans,
        "rule": (
            "one evaluation = one seeded run: 1-3 signers produce 1-24 signatures (style, message length, aux given or drawn at the RNG seam, "
            "commitment, key parity drawn), each compared with the BIP340 transcription on secp256k1; a relay duplicates and reorders them into "
            "a list of 1-32 arrivals and, in the fault plans, corrupts exactly one member (r, s or x) at a drawn position; the verifier asks "
            "verify_ about every arrival (key and signature spelling drawn) and batch_verify_ about drawn prefixes and the whole list, under "
            "uniform or edge coefficient draws, cache clears, backend and RNG-mode flips. distinct = distinct hash of the (event, fault) "
            "sequence; non-trivial = at least one duplication, reorder, corruption or perturbation fired."
        ),
        "assumptions": [
            "byte-for-byte equality with BIP340 is asserted on secp256k1 only (the BIP fixes no bytes elsewhere); a committing signature is "
            "checked by verification and by opening its commitment, not byte for byte",
            "reference signing / verification (8-16 ms each) is applied to a drawn sample of 2-6 signatures per run; every signature gets the library verdicts",
            "exactly one member is ever wrong and only on cofactor-1 curves, so no cancelling pair exists and edge coefficient draws are sound; "
            "invalid batches with adversarially correlated errors are not decided",
            "on toy curves signing may refuse (zero challenge / zero tweaked nonce, one in n): logged, never asserted",
        ],
    },
}
