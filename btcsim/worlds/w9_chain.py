"""W9 `chain` -- miners, relaying nodes, a filter server and a light client (C17).

Parts (``cfg['part']``):

``relay`` -- on the discrete-event loop. A *miner* with a skewed / jumping
  simulated clock assembles 1-3 regtest-limit blocks (BIP34 coinbase, BIP141
  witness commitment computed by the reference merkle model, sometimes behind a
  decoy commitment output; 0-40 generated transactions, segwit or not) with
  ``mining.candidate_block_header`` / ``mine``; an auditor tampers copies of
  each block. The block is announced as a ``CmpctBlock`` (coinbase + drawn
  prefilled; short ids computed by the *reference* SipHash) to 1-2 *nodes* whose
  pool is a drawn subset / superset / shuffle of the block (witness-malleated
  twins included): ``reconstruct`` -> ``missing_indexes`` -> ``GetBlockTxn`` ->
  ``BlockTxn`` -> ``fill`` -> ``assert_valid(REGTEST_POW_LIMIT_BITS)``. The
  first node serves BIP157 ``CFilter`` / ``CFHeaders`` and merkle branches to a
  *light client* that matches its scripts and verifies the branch.
  Faults: courier loss / duplication / delay / byte corruption on every link; a
  malicious relay replaces an announcement by the duplicated-tail mutation of
  the block, or a ``blocktxn`` by a permuted / substituted / witness-malleated /
  short / long one; proofs altered in flight. Faults stop at ``quiesce_at``.
``pow`` -- miners' clock readings (skew, jumps back and forth) give the
  timespans; compact values are drawn around the exponent / sign boundaries.

Invariants (all C17):
- merkle-root-equals-reference, honest-block-valid, short-id-equals-reference;
- mutation-reported: the duplicated-tail list has the same root, is flagged,
  heads no candidate and fails assert_valid_merkle_root;
- mismatch-makes-block-invalid: root bit, swapped / dropped / replaced
  transaction, altered witness, witness nonce or commitment;
- reconstruct-finds-pool-transactions: missing_indexes is exactly what the pool lacks;
- filled-block-equals-original, accepted-block-commits (every block a node
  accepts satisfies the reference root and commitment), wrong-blocktxn-refused,
  honest-relay-completes (strict, fault-free plan);
- filter-equals-reference, filter-decodes-to-same-set, filter-no-false-negative,
  filter-header-chains;
- proof-verifies-iff-intact: verify is True for the reference branch of a leaf at
  its index, False for any other leaf / index / branch / root. (merkle_proof
  refuses a right child equal to its sibling, so even the padded last leaf of an
  odd level verifies at one index only. It also refuses, as documented, a branch
  with an inner node that deserializes as a transaction -- 2^-24 per honest node:
  probed as ``inner-node-reads-as-transaction``, not asserted.)
- compact-equals-core, compact-inverse-on-canonical, target-never-rounds-up,
  work-equals-core, retarget-equals-core: refuse (overflow / negative / zero) or
  equal the arith_uint256 reference, for every timespan;
- liveness-one-getblocktxn-round-trip, liveness-blocks-accepted,
  liveness-light-client-served.
``collisions`` -- the short-id hash as a seam: SipHash cut to 2..9 bits for the run, so that announcements whose own
  ids repeat, pool collisions and strangers answering a block transaction's id all happen (see ``_collisions``).
48-bit short-id collisions themselves stay unreached (probe ``short-id-collision`` of the relay part).
Corrupted bytes reaching a parser may only raise library exceptions: stated as
``ctx.check("C19", "only-library-exceptions", ...)`` for W4's lens; the size /
weight / vsize identities of every mined block and transaction as
``ctx.check("C18", "size-identities", ...)`` for W5's.
"""

from __future__ import annotations

import hashlib
from dataclasses import dataclass, field
from datetime import datetime, timezone
from typing import Any, Callable

from btclib.exceptions import BTClibException

from btcsim.core.ctx import Ctx, RunAborted
from btcsim.core.des import Courier, Sim
from btcsim.gen import blocks as gb
from btcsim.ref import arith256 as ar
from btcsim.ref import gcs
from btcsim.ref import merkle as rm
from btcsim.seams.disk import corrupt_bytes

P = "C17"
GENESIS_TIME = 1231006505
MAX_TIME = 0xFFFFFFFF
REGTEST_BITS = bytes.fromhex("207fffff")
MAINNET_BITS = bytes.fromhex("1d00ffff")
ZERO32 = bytes(32)


def run(ctx: Ctx) -> None:
    part = ctx.cfg.get("part", "mix")
    if part == "mix":
        part = ctx.ch.pick(["relay", "pow"], "part")
    ctx.log("start", part)
    {"relay": _relay, "pow": _pow, "collisions": _collisions}[part](ctx)


def _guarded(ctx: Ctx, site: str, fn: Callable[[], Any]) -> tuple[bool, Any]:
    """(True, value) or (False, the library exception); anything else is C19's."""
    try:
        return True, fn()
    except BTClibException as e:
        return False, e
    except Exception as e:  # noqa: BLE001
        ctx.check("C19", "only-library-exceptions", False, f"{site}: {type(e).__name__}: {e}", site=site)
        raise RunAborted(f"{site}: {type(e).__name__}: {e}") from e


def _dt(ts: int) -> datetime:
    return datetime.fromtimestamp(ts, timezone.utc)


class Clock:
    """A miner's clock: simulated time plus a skew that may jump."""

    def __init__(self, ctx: Ctx, name: str) -> None:
        self.ctx, self.name = ctx, name
        self.base = GENESIS_TIME + ctx.ch.draw(MAX_TIME - GENESIS_TIME - 10**6, "clock.base")
        self.skew = 0

    def read(self, sim_now: int) -> int:
        ch = self.ctx.ch
        jump = ch.weighted([(0, 5), (7, 2), (7200, 2), (14 * 86400, 1), (4 * 14 * 86400 + 1, 1), (2**31, 1)], "clock.jump")
        if jump:
            self.skew += -jump if ch.draw(2, "clock.back") else jump
            self.ctx.fault("clock-jump", self.name, self.skew)
        return min(MAX_TIME, max(GENESIS_TIME, self.base + 600 * sim_now + self.skew))


# ---------------------------------------------------------------------------
# blocks
# ---------------------------------------------------------------------------
@dataclass
class Mined:
    height: int
    block: Any
    raw: bytes
    txids: list[bytes]  # internal order, by the reference
    wtxids: list[bytes]
    elements: set[bytes]
    prev_scripts: list[bytes]
    gens: list[gb.GenTx]
    cmpct: dict[str, bytes] = field(default_factory=dict)  # node -> the honest announcement
    missing: dict[str, list[int]] = field(default_factory=dict)  # node -> what its pool lacks

    @property
    def hash(self) -> bytes:
        return self.block.header.hash  # type: ignore[no-any-return]


def _ids(txs: list[Any]) -> tuple[list[bytes], list[bytes]]:
    return (
        [rm.dsha(t.serialize(include_witness=False, check_validity=False)) for t in txs],
        [rm.dsha(t.serialize(include_witness=True, check_validity=False)) for t in txs],
    )


def _ref_commits(block: Any) -> str:
    """'' if the reference root / commitment / no-mutation hold for the block, else what fails."""
    txids, wtxids = _ids(block.transactions)
    root, mutated = rm.root_and_mutated(txids)
    if root[::-1] != block.header.merkle_root:
        return "merkle root"
    if mutated:
        return "mutated"
    cb = block.transactions[0]
    if not any(t.is_segwit for t in block.transactions):
        return ""
    commits = [o.script_pub_key.script[6:38] for o in cb.vout if o.script_pub_key.script[:6] == gb.COMMITMENT_PREFIX and len(o.script_pub_key.script) >= 38]
    stack = cb.vin[0].script_witness.stack
    if not commits or len(stack) != 1 or len(stack[0]) != 32:
        return "no commitment"
    return "" if rm.dsha(rm.root_and_mutated([ZERO32, *wtxids[1:]])[0] + stack[0]) == commits[-1] else "witness commitment"


def _assemble(ctx: Ctx, bulk: gb.Bulk, height: int, prev_hash: bytes, stamp: int) -> Mined:
    from btclib.block import Block  # noqa: PLC0415
    from btclib.block.block import bip34_commitment  # noqa: PLC0415
    from btclib.block.mining import candidate_block_header, mine  # noqa: PLC0415
    from btclib.block.proof_of_work import REGTEST_POW_LIMIT_BITS  # noqa: PLC0415

    ch = ctx.ch
    n = ch.weighted([(0, 2), (1, 3), (2, 3), (3, 3), (4, 2), (5, 2), (6, 2), (7, 1), (10, 1), (16, 1), (40, 1)], "block.ntx")
    reuse: list[bytes] = []
    gens = []
    for _ in range(n):
        g = gb.gen_tx(ch, bulk, reuse)
        gens.append(g)
        reuse += [s for s in g.out_scripts + g.prev_scripts if s]
    _, w = _ids([g.tx for g in gens])
    segwit = any(g.tx.is_segwit for g in gens)
    commitments: list[bytes] = []
    nonce = None
    if segwit or ch.chance(1, 3, "cb.commit-anyway?"):
        nonce = ch.pick([ZERO32, None], "cb.nonce") or bulk.take(32)
        commitments = [rm.dsha(rm.root_and_mutated([ZERO32, *w])[0] + nonce)]
        if ch.chance(1, 3, "cb.decoy?"):
            commitments.insert(0, bulk.take(32))
            ctx.probe("decoy-commitment")
    cb = gb.coinbase(bip34_commitment(height), bulk.take(ch.draw(8, "cb.extranonce")), gb.script(ch, bulk), commitments, nonce)
    txs = [cb.tx] + [g.tx for g in gens]
    txids, wtxids = _ids(txs)
    with ctx.must_succeed(P, "mining-succeeds", "mining"):
        header = mine(candidate_block_header(prev_hash, txs, _dt(stamp), REGTEST_BITS))
    if header is None:
        raise RunAborted("no nonce in 2^20 tries at the regtest limit")
    ctx.check(P, "merkle-root-equals-reference", header.merkle_root == rm.root_and_mutated(txids)[0][::-1], lambda: f"{n + 1} txs: {header.merkle_root.hex()}", site="mining")
    block = Block(header, txs, check_validity=False)
    with ctx.must_succeed(P, "honest-block-valid", "block"):
        block.assert_valid_merkle_root()
        block.assert_valid_witness_commitment()
        block.assert_valid(REGTEST_POW_LIMIT_BITS)
    for what, x in [("block", block)] + [("tx", t) for t in txs]:  # C18's size identities, for W5's lens
        _size_identities(ctx, what, x)
    elements = {s for s in cb.out_scripts if s and s[0] != 0x6A}
    prev_scripts = []
    for g in gens:
        elements |= {s for s in g.out_scripts if s and s[0] != 0x6A} | {s for s in g.prev_scripts if s}
        prev_scripts += g.prev_scripts
    if len(prev_scripts) >= 2 and ch.chance(1, 5, "filter.collide?"):
        outs = set(cb.out_scripts).union(*(g.out_scripts for g in gens))
        prev_scripts, elements = _colliding_prevouts(ctx, header.hash, prev_scripts, elements, outs)
    ctx.log("mined", height, header.hash[:6], f"txs={len(txs)}", f"segwit={segwit}", f"time={stamp}", actor="miner")
    ctx.state(f"block:n{min(len(txs), 9)}:sw{int(segwit)}:c{len(commitments)}")
    return Mined(height, block, block.serialize(check_validity=False), txids, wtxids, elements, prev_scripts, gens)


def _colliding_prevouts(ctx: Ctx, block_hash: bytes, prev_scripts: list[bytes], elements: set[bytes], outs: set[bytes]) -> tuple[list[bytes], set[bytes]]:
    """Two of the spent scripts (caller-supplied data, committed nowhere in the block) are replaced by two distinct
    scripts that hash to the SAME value of the block's filter range: BIP158 codes that as a delta of zero, and
    the filter still counts, codes and matches both. The pair is found by a birthday search under the block's
    SipHash key (about 1.25 sqrt(N * M) tries); the number of distinct elements does not change."""
    # spent once, and not also an output script of the block: replacing such a script keeps the count of distinct elements
    own = [k for k, s_ in enumerate(prev_scripts) if s_ and prev_scripts.count(s_) == 1 and s_ not in outs]
    if len(own) < 2:
        return prev_scripts, elements
    i, j = own[0], own[1]
    rest = set(elements) - {prev_scripts[i], prev_scripts[j]}
    k0, k1 = gcs.key_from_block_hash(block_hash)
    f = len(elements) * gcs.M
    seen: dict[int, bytes] = {}
    salt = ctx.ch.nbytes(4, "filter.collide.salt")
    for counter in range(40000):
        e = b"\x00\x14" + salt + counter.to_bytes(16, "big")
        v = (gcs.siphash24(k0, k1, e) * f) >> 64
        if v in seen and e not in rest and seen[v] not in rest:
            a, b = seen[v], e
            new = list(prev_scripts)
            new[i], new[j] = a, b
            ctx.fault("filter-internal-collision", f"n={len(elements)} after {counter} tries")
            ctx.probe("filter-internal-collision")
            return new, rest | {a, b}
        seen[v] = e
    ctx.probe("filter-internal-collision-not-found")
    return prev_scripts, elements


def _full(cover: list[int], span: int) -> list[int]:
    """The leaves of a subtree of ``span`` leaves as the odd-level padding completes it."""
    if span == 1:
        return cover
    half = span // 2
    return _full(cover, half) * 2 if len(cover) <= half else cover[:half] + _full(cover[half:], half)


def _dup_tail(ctx: Ctx, n: int) -> list[int] | None:
    """Indexes to append so that the list has the same root (CVE-2012-2459): at a drawn
    odd level the last node's subtree, completed, then repeated. None if every level is even."""
    options = []
    width, span = n, 1
    while width > 1:
        if width % 2:
            cover = list(range((width - 1) * span, n))
            full = _full(cover, span)
            options.append(full[len(cover):] + full)
        width, span = (width + 1) // 2, span * 2
    return ctx.ch.pick(options, "mutation.level") if options else None


def _rebuilt(tx: Any, **changes: Any) -> Any:
    from btclib.tx import Tx  # noqa: PLC0415

    f = {"version": tx.version, "lock_time": tx.lock_time, "vin": list(tx.vin), "vout": list(tx.vout), **changes}
    return Tx(f["version"], f["lock_time"], f["vin"], f["vout"], check_validity=False)


def _size_identities(ctx: Ctx, what: str, x: Any) -> None:
    """C18's size identities (checked under that property's lens): size is the length of the bytes, weight three times
    the stripped length plus the whole, vsize its quarter rounded up -- for a transaction and for a block, valid or not."""
    whole, stripped = len(x.serialize(include_witness=True, check_validity=False)), len(x.serialize(include_witness=False, check_validity=False))
    ctx.check("C18", "size-identities", (x.size, x.weight, x.vsize) == (whole, 3 * stripped + whole, -(-(3 * stripped + whole) // 4)), lambda: f"{what}: size/weight/vsize {(x.size, x.weight, x.vsize)} for {whole}/{stripped} bytes", site=what)


def _merkle_direct(ctx: Ctx, bulk: gb.Bulk, txids: list[bytes]) -> None:
    """The tree functions asked directly, over a list the caller KEEPS: a node holds the txids of a block in one list and
    asks for the root, builds branches from the same list, and asks again. The answer is the reference's whether the
    bottom level arrives as a list or a tuple, and what the caller handed over is afterwards what it was."""
    from btclib import hashes as lib_hashes  # noqa: PLC0415

    ch = ctx.ch
    shape = ch.weighted([("block", 3), ("drawn", 3), ("repeats", 2), ("dup-tail", 1)], "merkle.shape")
    if shape == "block":
        leaves = list(txids)
    else:
        n = ch.weighted([(1, 1), (2, 1), (3, 3), (5, 3), (6, 2), (7, 2), (9, 2), (11, 1), (13, 1), (17, 1), (33, 1)], "merkle.n")
        leaves = [bulk.take(32) for _ in range(n)]
        if shape == "repeats" and n > 1:
            for _ in range(1 + ch.draw(3, "merkle.nrep")):
                leaves[ch.draw(n, "merkle.rep.to")] = leaves[ch.draw(n, "merkle.rep.from")]
        elif shape == "dup-tail":
            extra = _dup_tail(ctx, n)
            leaves += [leaves[i] for i in extra or []]
    want = rm.root_and_mutated(list(leaves))
    kept = list(leaves)  # the caller's own list object, handed over as it is
    before = list(kept)
    as_tuple = bool(ch.draw(3, "merkle.tuple?") == 2)
    for ask in range(2 + ch.draw(2, "merkle.asks")):
        with ctx.must_succeed(P, "merkle-root-computes", "hashes"):
            got = lib_hashes.merkle_root_and_mutated_from_hashes(tuple(kept) if as_tuple else kept, rm.dsha)
        ctx.check(P, "merkle-root-equals-reference", tuple(got) == tuple(want), lambda: f"{len(before)} leaves ({shape}) kept in one list, ask {ask} (now {len(kept)} in it): {got[0].hex()[:16]} mutated={got[1]}, the reference says {want[0].hex()[:16]} mutated={want[1]}", site="hashes/direct")
        if kept != before:
            ctx.probe("callers-list-changed-under-it")  # not the statement's business by itself: what the next ask and the branches say is
        if not want[1] and ch.draw(2, "merkle.branch?"):
            i = ch.draw(len(before), "merkle.leaf")
            with ctx.must_succeed(P, "branch-root-computes", "hashes"):
                r = lib_hashes.merkle_root_from_branch(kept[i], rm.branch(list(kept), i), i, rm.dsha)
            ctx.check(P, "proof-verifies-iff-intact", r == want[0], lambda: f"leaf {i} of {len(before)}: the reference branch over the caller's list leads to {r.hex()[:16]}", site="hashes/direct")
    ctx.probe(f"merkle-direct:{shape}")


def _audit(ctx: Ctx, bulk: gb.Bulk, m: Mined) -> None:
    """Tampered copies of a valid block must be invalid; the mutation must be reported."""
    from dataclasses import replace  # noqa: PLC0415

    from btclib.block import Block  # noqa: PLC0415
    from btclib.block.block import merkle_root_and_mutated_from_transactions  # noqa: PLC0415
    from btclib.block.mining import candidate_block_header  # noqa: PLC0415
    from btclib.block.proof_of_work import REGTEST_POW_LIMIT_BITS  # noqa: PLC0415
    from btclib.script.witness import Witness  # noqa: PLC0415
    from btclib.tx import TxIn, TxOut  # noqa: PLC0415

    ch = ctx.ch
    header, txs = m.block.header, m.block.transactions
    _merkle_direct(ctx, bulk, m.txids)
    extra = _dup_tail(ctx, len(txs))
    if extra is not None:
        mutated = txs + [txs[i] for i in extra]
        assert rm.root_and_mutated(m.txids + [m.txids[i] for i in extra]) == (header.merkle_root[::-1], True)
        ok, got = _guarded(ctx, "merkle", lambda: merkle_root_and_mutated_from_transactions(mutated))
        ctx.check(P, "mutation-reported", ok and got == (header.merkle_root, True), lambda: f"{len(txs)}+{len(extra)} txs: {got}", site="merkle_root_and_mutated")
        bad = Block(header, mutated, check_validity=False)
        for name, fn in (("assert_valid_merkle_root", bad.assert_valid_merkle_root), ("assert_valid", lambda: bad.assert_valid(REGTEST_POW_LIMIT_BITS)),
                         ("candidate_block_header", lambda: candidate_block_header(header.previous_block_hash, mutated, header.time, header.bits))):
            ok, _ = _guarded(ctx, name, fn)
            ctx.check(P, "mutation-reported", not ok, f"{len(txs)}+{len(extra)} transactions pass {name}", site=name)
        ctx.probe(f"mutation-level-{'leaf' if len(extra) == 1 else 'inner'}")
    if txs[0].vin[0].script_witness.stack and ch.draw(2, "audit.strip-cb-witness"):
        # what a relay that strips the coinbase witness (or a parser asked not to check) holds: whether it is valid is the
        # commitment's business above; its sizes are what its bytes say
        cb_in = txs[0].vin[0]
        stripped_cb = _rebuilt(txs[0], vin=[TxIn(cb_in.prev_out, cb_in.script_sig, cb_in.sequence, None)])
        _size_identities(ctx, "block/coinbase-witness-stripped", Block(header, [stripped_cb, *txs[1:]], check_validity=False))
        ctx.fault("tamper-strip-coinbase-witness")
    for _ in range(1 + ch.draw(3, "audit.n")):
        kind = ch.pick(["root-bit", "swap", "drop", "replace", "witness", "nonce", "commitment"], "audit.kind")
        new_header, new = header, list(txs)
        i = 1 + ch.draw(len(txs) - 1, "audit.at") if len(txs) > 1 else 0
        if kind == "root-bit":
            bit = ch.draw(256, "audit.bit")
            root = bytearray(header.merkle_root)
            root[bit // 8] ^= 1 << (bit % 8)
            new_header = replace(header, merkle_root=bytes(root))
        elif kind == "swap" and len(txs) > 2:
            j = 1 + (i % (len(txs) - 1))
            new[i], new[j] = new[j], new[i]
        elif kind == "drop" and len(txs) > 1:
            del new[i]
        elif kind == "replace" and len(txs) > 1:
            new[i] = gb.gen_tx(ch, bulk, []).tx
        elif kind == "witness" and len(txs) > 1:
            new[i] = gb.malleate_witness(m.gens[i - 1], bulk)
        elif kind == "nonce" and txs[0].vin[0].script_witness.stack:
            cb_in = txs[0].vin[0]
            new[0] = _rebuilt(txs[0], vin=[TxIn(cb_in.prev_out, cb_in.script_sig, cb_in.sequence, Witness([bulk.take(32)]))])
        elif kind == "commitment" and len(txs[0].vout) > 1:
            script = bytearray(txs[0].vout[-1].script_pub_key.script)
            script[6 + ch.draw(32, "audit.byte")] ^= 1 << ch.draw(8, "audit.bit")
            new[0] = _rebuilt(txs[0], vout=[*txs[0].vout[:-1], TxOut(0, bytes(script))])
        else:
            continue
        bad = Block(new_header, new, check_validity=False)
        _size_identities(ctx, f"block/{kind}", bad)
        ok, _ = _guarded(ctx, "block.assert_valid", lambda bad=bad: bad.assert_valid(REGTEST_POW_LIMIT_BITS))
        ctx.check(P, "mismatch-makes-block-invalid", not ok, f"block valid after tamper '{kind}' at {i}", site=kind)
        if kind in ("witness", "nonce"):
            ok, _ = _guarded(ctx, "block.commitment", bad.assert_valid_witness_commitment)
            ctx.check(P, "mismatch-makes-block-invalid", not ok, f"witness commitment holds after tamper '{kind}'", site=kind)
        else:
            ok, _ = _guarded(ctx, "block.root", bad.assert_valid_merkle_root)
            ctx.check(P, "mismatch-makes-block-invalid", not ok, f"merkle root holds after tamper '{kind}'", site=kind)
        ctx.fault(f"tamper-{kind}")


# ---------------------------------------------------------------------------
# the relay world
# ---------------------------------------------------------------------------
def _proof_bytes(txid: bytes, index: int, branch: list[bytes]) -> bytes:
    return txid + index.to_bytes(4, "little") + bytes([len(branch)]) + b"".join(branch)


def _proof_parse(b: bytes) -> tuple[bytes, int, list[bytes]] | None:
    if len(b) < 37 or len(b) != 37 + 32 * b[36]:
        return None
    return b[:32], int.from_bytes(b[32:36], "little"), [b[37 + 32 * i: 69 + 32 * i] for i in range(b[36])]


def _relay(ctx: Ctx) -> None:  # noqa: C901, PLR0915
    from btclib.block import BasicBlockFilter, Block, merkle_proof  # noqa: PLC0415
    from btclib.block.proof_of_work import REGTEST_POW_LIMIT_BITS  # noqa: PLC0415
    from btclib.p2p import BlockTxn, CFHeaders, CFilter, CmpctBlock, GetBlockTxn, PrefilledTransaction, reconstruct  # noqa: PLC0415

    ch = ctx.ch
    faults = bool(ctx.cfg.get("faults"))
    bulk = gb.Bulk(ch)
    sim = Sim(ctx)
    clock = Clock(ctx, "miner")
    n_blocks = 1 + ch.draw(3, "n.blocks")
    nodes = ["n1", "n2"][: 1 + ch.draw(2, "n.nodes")]
    height = 2016 * (1 + ch.draw(400, "height.period")) - 1 - ch.draw(n_blocks + 1, "height.offset")
    jitter = ch.pick([0, 3, 20], "net.jitter")
    period = 2 * (1 + jitter) + 3
    gap = ch.pick([1, period, 3 * period], "mine.gap")
    chain: list[Mined] = []
    by_hash: dict[bytes, Mined] = {}
    stamps: list[int] = []
    acked: set[tuple[str, bytes]] = set()
    pools: dict[str, list[Any]] = {n: [] for n in nodes}
    partial: dict[tuple[str, bytes], dict[str, Any]] = {}
    accepted: dict[str, dict[bytes, Any]] = {n: {} for n in nodes}
    served: list[dict[str, Any]] = []  # per block, in chain order, by n1
    light: dict[str, Any] = {"k": 0, "cfilter": None, "cfheaders": None, "filter_ok": set(), "proved": set(), "want": None}

    # -- links -----------------------------------------------------------------
    def corruptor(c: Any, payload: Any) -> Any:
        kind, data, meta = payload
        new, _ = corrupt_bytes(c, data)
        ctx.probe(f"corrupt:{kind}")
        return (kind, new, meta)

    def relay(node: str, payload: Any) -> None:
        """The miner's link to a node; a malicious relay on it edits what it forwards."""
        kind, data, meta = payload
        if malicious and net.faults_active() and ch.chance(1, 3, "relay.edit?"):
            if kind == "cmpct":
                extra = _dup_tail(ctx, len(meta.block.transactions))
                if extra is not None:
                    txs = meta.block.transactions + [meta.block.transactions[i] for i in extra]
                    ctx.fault("relay-mutated-block", actor="relay")
                    payload = ("block", Block(meta.block.header, txs, check_validity=False).serialize(check_validity=False), meta)
            else:
                m, indexes = meta
                txs = [m.block.transactions[i] for i in indexes]
                edit = ch.pick(["permute", "replace", "malleate", "short", "long"], "relay.edit")
                if edit == "permute" and len(txs) > 1:
                    i = ch.draw(len(txs) - 1, "relay.at")
                    txs[i], txs[i + 1] = txs[i + 1], txs[i]
                elif edit == "replace" and txs:
                    txs[ch.draw(len(txs), "relay.at")] = gb.gen_tx(ch, bulk, []).tx
                elif edit == "malleate" and txs and indexes[0] > 0:
                    txs[0] = gb.malleate_witness(m.gens[indexes[0] - 1], bulk)
                elif edit == "short" and txs:
                    txs.pop()
                else:
                    edit = "long"
                    txs.append(gb.gen_tx(ch, bulk, []).tx)
                ctx.fault(f"relay-blocktxn-{edit}", actor="relay")
                payload = (kind, BlockTxn(m.hash, txs, check_validity=False).serialize(check_validity=False), meta)
        net.send("miner", node, payload, payload[0])

    def deliver(src: str, dst: str, payload: Any) -> None:
        kind, data, _meta = payload
        if dst == "miner":
            (on_getblocktxn if kind == "getblocktxn" else on_ack)(src, data)
        elif dst == "light":
            on_light(kind, data)
        elif kind in ("getcf", "getproof"):
            on_serve(kind, data)
        else:
            {"cmpct": on_cmpct, "blocktxn": on_blocktxn, "block": on_block}[kind](dst, data)

    malicious = faults and bool(ch.draw(2, "relay.malicious"))
    if faults:
        kinds = ch.subset(["drop", "dup", "corrupt"], "net.kinds")
        rate = {k: ch.pick([50, 150, 300], "net.rate") for k in kinds}
        quiesce = 20 + ch.draw(150, "net.quiesce")
        common = {"drop": rate.get("drop", 0), "dup": rate.get("dup", 0), "jitter": jitter, "quiesce_at": quiesce}
        net = Courier(sim, deliver, corrupt=rate.get("corrupt", 0), corruptor=corruptor, **common)
        ctl = Courier(sim, deliver, **common)  # requests that are not btclib messages: lost or late, never garbled
        clean_from = quiesce + 1 + 2 * jitter + 2
    else:
        net = ctl = Courier(sim, deliver, jitter=jitter)
        clean_from = 0

    def strict(ok: bool, what: str, site: str) -> None:
        """Fault-free plan: every honest step completes."""
        if not faults:
            ctx.check(P, "honest-relay-completes", ok, what, site=site)

    # -- miner -------------------------------------------------------------------
    def announce(m: Mined, node: str) -> None:
        if node not in m.cmpct:
            txs = m.block.transactions
            prefilled = [0] + [i for i in range(1, len(txs)) if ch.chance(1, 6, "cmpct.prefill?")]
            nonce = ch.pick([None, 0, 2**64 - 1], "cmpct.nonce")
            nonce = ch.bits(64, "cmpct.nonce64") if nonce is None else nonce
            key = hashlib.sha256(m.raw[:80] + nonce.to_bytes(8, "little")).digest()
            k0, k1 = int.from_bytes(key[:8], "little"), int.from_bytes(key[8:16], "little")
            sid = [gcs.siphash24(k0, k1, w) & (2**48 - 1) for w in m.wtxids]
            with ctx.must_succeed(P, "cmpctblock-builds", "cmpctblock"):
                cb = CmpctBlock(m.block.header, nonce, [sid[i] for i in range(len(txs)) if i not in prefilled], [PrefilledTransaction(i, txs[i]) for i in prefilled])
                ctx.check(P, "short-id-equals-reference", [cb.short_id(t.hash) for t in txs] == sid, lambda: f"nonce {nonce}: short ids differ from SipHash-2-4 of the wtxids", site="cmpctblock")
                m.cmpct[node] = cb.serialize()
                if ch.chance(1, 4, "cmpct.remine?"):
                    # the miner keeps working on the header its announcement object holds (a BlockHeader is mutable, the
                    # message around it frozen): short ids asked of that object afterwards are keyed on the header as it
                    # is now. Undone before anything else looks at the block
                    hdr = cb.header
                    was = hdr.nonce
                    hdr.nonce = (was + 1 + ch.draw(1000, "cmpct.remine.nonce")) & 0xFFFFFFFF
                    try:
                        key2 = hashlib.sha256(hdr.serialize(check_validity=False) + nonce.to_bytes(8, "little")).digest()
                        ka, kb = int.from_bytes(key2[:8], "little"), int.from_bytes(key2[8:16], "little")
                        want2 = [gcs.siphash24(ka, kb, w) & (2**48 - 1) for w in m.wtxids]
                        ctx.check(P, "short-id-equals-reference", [cb.short_id(t.hash) for t in txs] == want2, lambda: f"after the held header moved to nonce {hdr.nonce}: short ids are not those of the header as it is", site="cmpctblock/header-moved")
                        ctx.fault("header-mutated-under-announcement")
                    finally:
                        hdr.nonce = was
            # the node's pool for this block: a subset of it, strangers, twins with another witness, shuffled
            keep = ch.pick([0, 1, 2], "pool.keep")
            pool = [g.tx for g in m.gens if keep == 2 or (keep == 1 and ch.draw(2, "pool.has"))]
            pool += [gb.gen_tx(ch, bulk, []).tx for _ in range(ch.draw(3, "pool.strangers"))]
            pool += [gb.malleate_witness(g, bulk) for g in m.gens if ch.chance(1, 8, "pool.twin?")]
            # the same transaction held twice as two equal objects (mempool plus an extra pool, both read off the wire)
            copies = [type(t).parse(t.serialize(include_witness=True, check_validity=False), check_validity=False) for t in pool if ch.chance(1, 6, "pool.copy?")]
            if copies:
                ctx.probe("pool-holds-equal-copies")
            pool += copies
            pools[node] = ch.shuffled(pools[node] + pool, "pool.order")
            known = {rm.dsha(t.serialize(include_witness=True, check_validity=False)) for t in pools[node]}
            all_sid = {gcs.siphash24(k0, k1, w) & (2**48 - 1) for w in known | set(m.wtxids)}
            ctx.probe("short-id-collision", int(len(all_sid) != len(known | set(m.wtxids))))
            m.missing[node] = [i for i in range(len(txs)) if i not in prefilled and m.wtxids[i] not in known]
        relay(node, ("cmpct", m.cmpct[node], m))

    def mine_next() -> None:
        stamp = clock.read(sim.now)
        m = _assemble(ctx, bulk, height + len(chain), chain[-1].hash if chain else bulk.take(32), stamp)
        stamps.append(stamp)
        chain.append(m)
        by_hash[m.hash] = m
        _audit(ctx, bulk, m)
        if m.height % 2016 == 2015:
            ctx.probe("period-boundary")
            _retarget(ctx, REGTEST_BITS, clock.read(sim.now), stamp, REGTEST_BITS)
        for node in nodes:
            announce(m, node)
        if len(chain) < n_blocks:
            sim.after(gap, "mine", mine_next)

    def miner_timer() -> None:
        todo = [(m, n) for m in chain for n in nodes if (n, m.hash) not in acked]
        for m, n in todo:
            announce(m, n)
        if todo or len(chain) < n_blocks:
            sim.after(period, "miner-timer", miner_timer)

    def on_getblocktxn(src: str, data: bytes) -> None:
        ok, req = _guarded(ctx, "getblocktxn.parse", lambda: GetBlockTxn.parse(data))
        m = by_hash.get(req.block_hash) if ok else None
        if m is None or any(i >= len(m.block.transactions) for i in req.indexes):
            ctx.log("getblocktxn-ignored", actor="miner")
            return
        with ctx.must_succeed(P, "blocktxn-builds", "blocktxn"):
            answer = BlockTxn(m.hash, [m.block.transactions[i] for i in req.indexes]).serialize()
        relay(src, ("blocktxn", answer, (m, list(req.indexes))))

    def on_ack(src: str, data: bytes) -> None:
        acked.add((src, data))

    # -- full node ---------------------------------------------------------------
    def request(node: str, h: bytes, p: dict[str, Any]) -> None:
        if partial.get((node, h)) is not p:
            return  # filled, or given up and started again since this timer was set
        if p["requests"] >= 3:
            del partial[(node, h)]  # nobody answers for this announcement: wait for the next one
            return
        p["requests"] += 1
        with ctx.must_succeed(P, "getblocktxn-builds", "getblocktxn"):
            data = GetBlockTxn(h, p["part"].missing_indexes).serialize()
        net.send(node, "miner", ("getblocktxn", data, None), "getblocktxn")
        sim.after(period, "node-timer", lambda: request(node, h, p))

    def on_cmpct(node: str, data: bytes) -> None:
        ok, cb = _guarded(ctx, "cmpctblock.parse", lambda: CmpctBlock.parse(data))
        m = by_hash.get(cb.header.hash) if ok else None
        honest = m is not None and m.cmpct.get(node) == data
        strict(ok and honest, "announcement not read", "cmpctblock.parse")
        if not ok:
            ctx.log("cmpct-refused", actor=node)
            return
        h = cb.header.hash
        if h in accepted[node]:
            ctl.send(node, "miner", ("ack", h, None), "ack")  # the first one was lost
        if h in accepted[node] or (node, h) in partial:
            return
        ok, part = _guarded(ctx, "reconstruct", lambda: reconstruct(cb, pools[node]))
        strict(ok, f"reconstruct refused: {part}", "reconstruct")
        if not ok:
            ctx.log("reconstruct-refused", type(part).__name__, actor=node)
            return
        if honest and not ctx.probes["short-id-collision"]:
            assert m is not None
            ctx.check(P, "reconstruct-finds-pool-transactions", part.missing_indexes == m.missing[node], lambda: f"missing {part.missing_indexes}, the pool lacks {m.missing[node]}", site="reconstruct")
        partial[(node, h)] = {"part": part, "born": sim.now, "requests": 0, "honest": honest}
        ctx.state(f"partial:{min(len(part.missing_indexes), 4)}of{min(len(part.transactions), 9)}")
        if part.missing_indexes:
            request(node, h, partial[(node, h)])
        else:
            complete(node, h, [], True)

    def complete(node: str, h: bytes, txs: list[Any], answer_honest: bool) -> None:
        p = partial[(node, h)]
        ok, blk = _guarded(ctx, "fill", lambda: p["part"].fill(txs, check_validity=False))
        if ok:
            ok, why = _guarded(ctx, "block.assert_valid", lambda: blk.assert_valid(REGTEST_POW_LIMIT_BITS))
        else:
            why = blk
        if p["honest"] and answer_honest:
            ctx.check(P, "honest-fill-accepted", ok, lambda: f"the right transactions were refused: {why}", site="fill")
        elif p["honest"]:
            ctx.check(P, "wrong-blocktxn-refused", not ok, lambda: f"a blocktxn that is not the one asked for made a valid block ({len(txs)} txs)", site="fill")
        if not ok:
            del partial[(node, h)]
            ctx.log("fill-refused", type(why).__name__, actor=node)
            return
        m = by_hash.get(h)
        raw = blk.serialize(check_validity=False)
        ctx.check(P, "accepted-block-commits", _ref_commits(blk) == "", lambda: f"accepted although the reference says: {_ref_commits(blk)}", site="fill")
        if m is not None:
            ctx.check(P, "filled-block-equals-original", raw == m.raw, lambda: f"{len(raw)} bytes differ from the {len(m.raw)} mined", site="fill")
            for name, fn in (("root", blk.assert_valid_merkle_root), ("commitment", blk.assert_valid_witness_commitment)):
                with ctx.must_succeed(P, "filled-block-equals-original", name):
                    fn()
            if p["born"] >= clean_from:
                ctx.check(P, "liveness-one-getblocktxn-round-trip", p["requests"] <= 1, lambda: f"{p['requests']} getblocktxn after faults stopped", site="relay")
        else:
            ctx.probe("accepted-with-altered-header")
        del partial[(node, h)]
        accepted[node][h] = blk
        ctx.log("accepted", h[:6], f"requests={p['requests']}", actor=node)
        ctl.send(node, "miner", ("ack", h, None), "ack")

    def on_blocktxn(node: str, data: bytes) -> None:
        ok, bt = _guarded(ctx, "blocktxn.parse", lambda: BlockTxn.parse(data))
        strict(ok, "blocktxn not read", "blocktxn.parse")
        if not ok or (node, bt.block_hash) not in partial:
            return
        m = by_hash.get(bt.block_hash)
        p = partial[(node, bt.block_hash)]
        got = [t.serialize(include_witness=True, check_validity=False) for t in bt.transactions]
        honest = m is not None and got == [m.block.transactions[i].serialize(include_witness=True, check_validity=False) for i in p["part"].missing_indexes]
        strict(honest, "blocktxn differs", "blocktxn")
        complete(node, bt.block_hash, list(bt.transactions), honest)

    def on_block(node: str, data: bytes) -> None:
        """A full block pushed by the relay: here always the mutated one, or corrupted bytes of it."""
        ok, blk = _guarded(ctx, "block.parse", lambda: Block.parse(data, check_validity=False))
        if ok:
            ok, _ = _guarded(ctx, "block.assert_valid", lambda: blk.assert_valid(REGTEST_POW_LIMIT_BITS))
        ctx.check(P, "mutation-reported", not ok, "a node accepted the duplicated-tail block from its relay", site="relay")
        ctx.log("mutated-block-refused", actor=node)

    # -- filter server (n1) and light client -----------------------------------------
    def serve_ready() -> None:
        """n1 indexes accepted blocks in chain order."""
        while len(served) < len(chain) and chain[len(served)].hash in accepted["n1"]:
            m = chain[len(served)]
            blk = accepted["n1"][m.hash]
            with ctx.must_succeed(P, "filter-builds", "from_block"):
                f = BasicBlockFilter.from_block(blk, m.prev_scripts)
                ser = f.serialize()
            want = gcs.basic_filter(m.hash, m.elements)
            ctx.check(P, "filter-equals-reference", ser == want and f.element_count == len(m.elements), lambda: f"{len(m.elements)} elements: {ser.hex()} != reference {want.hex()}", site="from_block")
            values = gcs.hashed_set(m.hash, m.elements)
            with ctx.must_succeed(P, "filter-decodes-to-same-set", "parse"):
                back = BasicBlockFilter.parse(ser, m.hash).element_hashes
            ctx.check(P, "filter-decodes-to-same-set", back == values == gcs.decode(len(values), ser[len(gcs.varint(len(values))):]), lambda: f"decoded {back[:4]}.. reference {values[:4]}..", site="parse")
            prev = served[-1]["header"] if served else ZERO32
            ctx.check(P, "filter-header-chains", f.hash == gcs.filter_hash(ser) and f.header(prev) == gcs.filter_header(gcs.filter_hash(ser), prev), "filter hash / header differ from the reference", site="header")
            served.append({"m": m, "filter": ser, "hash": f.hash, "header": f.header(prev)})
            ctx.log("filter", m.hash[:6], f"n={len(m.elements)}", ser[:8], actor="n1")

    def on_serve(kind: str, data: Any) -> None:
        serve_ready()
        if kind == "getcf":
            k = data
            if k < len(served):
                s = served[k]
                with ctx.must_succeed(P, "filter-messages-build", "bip157"):
                    cf = CFilter(0, s["m"].hash, s["filter"]).serialize()
                    hs = CFHeaders(0, s["m"].hash, ZERO32, [x["hash"] for x in served[: k + 1]])
                    ctx.check(P, "filter-header-chains", hs.filter_headers == tuple(x["header"] for x in served[: k + 1]), "cfheaders chain differs", site="cfheaders")
                net.send("n1", "light", ("cfilter", cf, None), "cfilter")
                net.send("n1", "light", ("cfheaders", hs.serialize(), None), "cfheaders")
        else:
            k, txid = data
            if k < len(served) and txid in served[k]["m"].txids:
                m = served[k]["m"]
                i = m.txids.index(txid)
                proof = _proof_bytes(txid[::-1], i, [s[::-1] for s in rm.branch(m.txids, i)])
                net.send("n1", "light", ("proof", proof, None), "proof")

    def light_timer() -> None:
        k = light["k"]
        if k >= n_blocks or light["rounds_clean"] >= 8:
            return  # done, or gave up: 8 rounds on one mined block with no fault left in the network
        if k < len(chain) and sim.now >= clean_from:
            light["rounds_clean"] += 1
        if k not in light["filter_ok"]:
            ctl.send("light", "n1", ("getcf", k, None), "getcf")
        elif light["want"] is not None:
            ctl.send("light", "n1", ("getproof", (k, light["want"]), None), "getproof")
        sim.after(period, "light-timer", light_timer)

    def next_block() -> None:
        light.update(k=light["k"] + 1, cfilter=None, cfheaders=None, want=None, rounds_clean=0)
        if light["k"] < n_blocks:
            ctl.send("light", "n1", ("getcf", light["k"], None), "getcf")

    def on_light(kind: str, data: bytes) -> None:
        k = light["k"]
        if k >= len(chain):
            return
        m = chain[k]  # the light client holds the header chain
        if kind == "proof":
            if k in light["filter_ok"] and k not in light["proved"]:
                on_proof(m, data)
            return
        if k in light["filter_ok"]:
            return
        ok, msg = _guarded(ctx, kind, lambda: (CFilter if kind == "cfilter" else CFHeaders).parse(data))
        strict(ok, f"{kind} not read", kind)
        if not ok:
            return
        light[kind] = msg
        cf, hs = light["cfilter"], light["cfheaders"]
        if cf is None or hs is None or cf.block_hash != m.hash or hs.stop_hash != m.hash or hs.previous_filter_header != ZERO32 or len(hs.filter_hashes) != k + 1:
            return
        ok, f = _guarded(ctx, "basic_filter", lambda: cf.basic_filter)
        if not ok or f.header(hs.filter_headers[k - 1] if k else ZERO32) != hs.filter_headers[k]:
            ctx.log("filter-rejected", actor="light")
            return
        # a filter that chains into the headers is the server's: every watched script of the block must match
        light["filter_ok"].add(k)
        watch = [s for s in sorted(m.elements) if ch.draw(3, "watch?") == 0] + [gb.script(ch, bulk) for _ in range(ch.draw(3, "watch.strangers"))]
        mine = [s for s in watch if s in m.elements]
        for s in mine:
            ctx.check(P, "filter-no-false-negative", f.match(s), lambda s=s: f"script {s.hex()} of block {m.hash.hex()} does not match its filter", site="match")
        if mine:
            ctx.check(P, "filter-no-false-negative", f.match_any(ch.shuffled(watch, "watch.order")), "match_any misses a script of the block", site="match_any")
        for s in watch:
            if s and s not in m.elements and s[0] != 0x6A and f.match(s):
                ctx.probe("filter-false-positive")
        ctx.log("filter-accepted", k, f"watched={len(mine)}/{len(watch)}", actor="light")
        ctx.state(f"light:{min(len(mine), 3)}")
        if not mine:
            light["proved"].add(k)
            next_block()
            return
        holders = [i for i, g in enumerate(m.gens) if set(g.out_scripts + g.prev_scripts) & set(mine)]
        i = 1 + ch.pick(holders, "proof.tx") if holders else 0
        light["want"] = m.txids[i]
        ctl.send("light", "n1", ("getproof", (k, m.txids[i]), None), "getproof")

    def on_proof(m: Mined, data: bytes) -> None:
        parsed = _proof_parse(data)
        if parsed is None or parsed[0][::-1] != light["want"]:
            return
        txid, index, branch = parsed
        i = m.txids.index(light["want"])
        intact = (index, branch) == (i, [s[::-1] for s in rm.branch(m.txids, i)])
        ok, verdict = _guarded(ctx, "merkle_proof.verify", lambda: merkle_proof.verify(txid, branch, index, m.block.header.merkle_root))
        if intact and _inner_node_reads_as_tx(m.txids, i):
            ctx.probe("inner-node-reads-as-transaction")  # the documented CVE-2017-12842 guard may refuse this honest branch
            verdict = intact
        ctx.check(P, "proof-verifies-iff-intact", ok and verdict == intact, lambda: f"leaf {i} of {len(m.txids)}: verify says {verdict} for index {index}, branch intact={intact}", site="verify")
        strict(intact, "proof altered", "proof")
        if not intact:
            ctx.log("proof-rejected", actor="light")
            return
        _proof_tampers(ctx, m, i)
        light["proved"].add(light["k"])
        ctx.log("proved", i, actor="light")
        next_block()

    light["rounds_clean"] = 0
    sim.after(0, "mine", mine_next)
    sim.after(period, "miner-timer", miner_timer)
    sim.after(ch.draw(3 * period, "light.start"), "light-timer", light_timer)
    sim.run()

    ctx.sample["chain"] = {"blocks": [len(m.block.transactions) for m in chain], "nodes": len(nodes), "malicious_relay": malicious, "height": height}
    ctx.log("end", f"blocks={len(chain)}", f"accepted={[len(a) for a in accepted.values()]}", f"served={len(served)}", f"proved={sorted(light['proved'])}", f"capped={sim.capped}")
    if sim.capped:
        ctx.probe("event-cap")
    else:
        for node in nodes:
            ctx.check(P, "liveness-blocks-accepted", all(m.hash in accepted[node] for m in chain), lambda: f"{node} holds {len(accepted[node])} of {len(chain)} blocks", site="relay")
        ctx.check(P, "liveness-light-client-served", light["k"] >= n_blocks, lambda: f"light client stopped at block {light['k']} of {n_blocks}", site="light")
    _pow_queries(ctx, stamps + [clock.read(sim.now)], 2)


def _collisions(ctx: Ctx) -> None:  # noqa: C901, PLR0915
    """Short ids that collide: the width of the id is a knob the simulator turns.

    A 48-bit collision is 2^24 transactions away by birthday and 2^48 for a given block transaction, so no run meets
    one. The hash is the seam instead: for this run the name ``compact_blocks.siphash`` answers the real SipHash-2-4
    cut to 2..9 bits (the miner's reference ids are cut the same way), so that with a pool of a dozen strangers every
    case of the statement's "all pools (supersets, shuffles, collisions)" happens: two positions of one announcement
    under one id, a stranger under the id of a transaction the pool lacks, a stranger beside the transaction it collides
    with, a witness twin beside its original. What must hold is what the statement says and the module documents:
    ``reconstruct`` refuses an announcement whose own ids repeat; otherwise a position is filled iff exactly one
    distinct pool transaction answers its id (with that transaction), and a block is accepted after ``fill`` only if
    it is the original block, always if every filled position holds the right transaction.
    """
    from btclib.block.proof_of_work import REGTEST_POW_LIMIT_BITS  # noqa: PLC0415
    from btclib.p2p import CmpctBlock, PrefilledTransaction, compact_blocks, reconstruct  # noqa: PLC0415

    from btcsim.seams.state import patch_attr  # noqa: PLC0415

    ch = ctx.ch
    bulk = gb.Bulk(ch)
    real = getattr(compact_blocks, "siphash", None)
    if real is None:
        ctx.probe("seam-unavailable:compact_blocks.siphash")
        return
    width = 2 + ch.draw(8, "sid.width")
    mask = (1 << width) - 1
    m = _assemble(ctx, bulk, 2016 * (1 + ch.draw(400, "height.period")) - 1 - ch.draw(3, "height.offset"), bulk.take(32), GENESIS_TIME + ch.draw(10**6, "stamp"))
    txs = m.block.transactions
    undo = patch_attr(compact_blocks, "siphash", lambda k0, k1, data: real(k0, k1, data) & mask)
    try:
        for _ in range(1 + ch.draw(3, "n.announcements")):
            prefilled = [0] + [i for i in range(1, len(txs)) if ch.chance(1, 6, "cmpct.prefill?")]
            nonce = ch.bits(64, "cmpct.nonce64")
            key = hashlib.sha256(m.raw[:80] + nonce.to_bytes(8, "little")).digest()
            k0, k1 = int.from_bytes(key[:8], "little"), int.from_bytes(key[8:16], "little")

            def sid_of(w: bytes, k0: int = k0, k1: int = k1) -> int:
                return gcs.siphash24(k0, k1, w) & mask

            sid = [sid_of(w) for w in m.wtxids]
            slots = [i for i in range(len(txs)) if i not in prefilled]
            with ctx.must_succeed(P, "cmpctblock-builds", "cmpctblock/narrow-ids"):
                cb = CmpctBlock(m.block.header, nonce, [sid[i] for i in slots], [PrefilledTransaction(i, txs[i]) for i in prefilled])
                got = [cb.short_id(t.hash) for t in txs]
            if any(x > mask for x in got):
                ctx.probe("seam-unavailable:compact_blocks.siphash")  # the tree reaches its hash another way
                return
            ctx.check(P, "short-id-equals-reference", got == sid, lambda: f"{width}-bit ids differ from the cut SipHash-2-4 of the wtxids", site="cmpctblock/narrow-ids")
            with ctx.must_succeed(P, "cmpctblock-round-trips", "cmpctblock/narrow-ids"):
                cb = CmpctBlock.parse(cb.serialize())  # a colliding announcement is one a peer legitimately sends

            # the pool: some of the block, strangers (enough for the width), witness twins, equal copies, shuffled
            keep = ch.pick([1, 2, 0], "pool.keep")
            pool = [g.tx for g in m.gens if keep == 2 or (keep == 1 and ch.draw(2, "pool.has"))]
            pool += [gb.gen_tx(ch, bulk, []).tx for _ in range(ch.draw(min(2 * mask, 14) + 1, "pool.strangers"))]
            pool += [gb.malleate_witness(g, bulk) for g in m.gens if ch.chance(1, 6, "pool.twin?")]
            pool += [type(t).parse(t.serialize(include_witness=True, check_validity=False), check_validity=False) for t in pool if ch.chance(1, 6, "pool.copy?")]
            pool = ch.shuffled(pool, "pool.order")
            pool_w = [rm.dsha(t.serialize(include_witness=True, check_validity=False)) for t in pool]

            # the model: per slot, the distinct pool wtxids under its id
            answers = {i: sorted({w for w in pool_w if sid_of(w) == sid[i]}) for i in slots}
            own_collide = len({sid[i] for i in slots}) != len(slots)
            want_missing = [i for i in slots if len(answers[i]) != 1]
            wrong = [i for i in slots if len(answers[i]) == 1 and answers[i][0] != m.wtxids[i]]
            if own_collide:
                ctx.probe("announcement-ids-repeat")
            if any(len(a) > 1 for a in answers.values()):
                ctx.probe("pool-collision")
            if wrong:
                ctx.probe("stranger-fills-a-position")
            ctx.fault("short-id-narrowed", width)

            ok, part = _guarded(ctx, "reconstruct", lambda cb=cb, pool=pool: reconstruct(cb, pool))
            if own_collide:
                ctx.check(P, "repeated-ids-refused", not ok, lambda: f"an announcement whose {width}-bit ids repeat was reconstructed", site="reconstruct/narrow-ids")
                ctx.log("own-collision-refused", width, actor="node")
                continue
            ctx.check(P, "reconstruct-succeeds", ok, lambda: f"refused: {part}", site="reconstruct/narrow-ids")
            ctx.check(P, "reconstruct-finds-pool-transactions", part.missing_indexes == want_missing, lambda: f"missing {part.missing_indexes}; exactly one distinct pool transaction answers the ids of all but {want_missing}", site="reconstruct/narrow-ids")
            held = [None if t is None else rm.dsha(t.serialize(include_witness=True, check_validity=False)) for t in part.transactions]
            want_held = [None if i in want_missing else (m.wtxids[i] if i in prefilled else answers[i][0]) for i in range(len(txs))]
            ctx.check(P, "reconstruct-places-the-answering-transaction", held == want_held, lambda: f"positions {[i for i in range(len(txs)) if held[i] != want_held[i]]} hold another transaction than the one answering their id", site="reconstruct/narrow-ids")
            ok, blk = _guarded(ctx, "fill", lambda part=part, want_missing=want_missing: part.fill([txs[i] for i in want_missing], check_validity=False))
            ctx.check(P, "honest-fill-accepted", ok, lambda: f"fill refused the transactions it asked for: {blk}", site="fill/narrow-ids")
            ok, why = _guarded(ctx, "block.assert_valid", lambda blk=blk: blk.assert_valid(REGTEST_POW_LIMIT_BITS))
            same = blk.serialize(check_validity=False) == m.raw
            ctx.check(P, "filled-block-equals-original", not ok or same, lambda: f"a block with a stranger at {wrong} was accepted", site="fill/narrow-ids")
            ctx.check(P, "accepted-block-commits", not ok or _ref_commits(blk) == "", lambda: f"accepted although the reference says: {_ref_commits(blk)}", site="fill/narrow-ids")
            ctx.check(P, "honest-fill-accepted", ok or bool(wrong), lambda: f"every position holds the right transaction and the block is refused: {why}", site="fill/narrow-ids")
            ctx.check(P, "surviving-collision-refused", ok or not same, lambda: "the original block was refused", site="fill/narrow-ids")
            ctx.log("collisions", width, len(pool), want_missing, wrong, int(ok), actor="node")
            ctx.state(f"narrow:w{width}:m{min(len(want_missing), 4)}:x{min(len(wrong), 3)}:ok{int(ok)}")
    finally:
        undo()


def _inner_node_reads_as_tx(txids: list[bytes], i: int) -> bool:
    """Whether some 64-byte inner node on leaf i's path deserializes as a transaction: merkle_proof
    documents that it refuses such a branch (about 2^-24 per node: one input, no output)."""
    from btclib.tx import Tx  # noqa: PLC0415

    h = txids[i]
    for s in rm.branch(txids, i):
        pair = s + h if i & 1 else h + s
        try:
            if Tx.parse(pair, check_validity=False).serialize(include_witness=True, check_validity=False) == pair:
                return True
        except BTClibException:
            pass
        h, i = rm.dsha(pair), i >> 1
    return False


def _proof_tampers(ctx: Ctx, m: Mined, i: int) -> None:
    """A verified branch proves nothing else: another leaf, index, sibling or root is False."""
    from btclib.block import merkle_proof  # noqa: PLC0415

    ch = ctx.ch
    root = m.block.header.merkle_root
    branch = [s[::-1] for s in rm.branch(m.txids, i)]
    for _ in range(1 + ch.draw(3, "proof.tampers")):
        kind = ch.pick(["leaf", "index", "index-high", "sibling-bit", "shorter", "longer", "root-bit", "leaf-bit"], "proof.tamper")
        leaf, idx, br, rt = m.txids[i][::-1], i, list(branch), root
        if kind == "leaf" and len(m.txids) > 1:
            leaf = m.txids[(i + 1 + ch.draw(len(m.txids) - 1, "proof.other")) % len(m.txids)][::-1]
        elif kind == "index":
            idx = ch.pick([i ^ 1, i + 1, ch.draw(len(m.txids) + 2, "proof.j")], "proof.idx")
        elif kind == "index-high":
            idx = i + (1 << len(branch)) * (1 + ch.draw(3, "proof.k"))
        elif kind == "sibling-bit" and br:
            j, bit = ch.draw(len(br), "proof.level"), ch.draw(256, "proof.bit")
            br[j] = bytes(b ^ (1 << (bit % 8) if n == bit // 8 else 0) for n, b in enumerate(br[j]))
        elif kind == "shorter" and br:
            br.pop()
        elif kind == "longer":
            br.append(ch.pick([ZERO32, leaf, root], "proof.extra"))
        elif kind == "root-bit":
            bit = ch.draw(256, "proof.bit")
            rt = bytes(b ^ (1 << (bit % 8) if n == bit // 8 else 0) for n, b in enumerate(rt))
        elif kind == "leaf-bit":
            bit = ch.draw(256, "proof.bit")
            leaf = bytes(b ^ (1 << (bit % 8) if n == bit // 8 else 0) for n, b in enumerate(leaf))
        if (leaf, idx, br, rt) == (m.txids[i][::-1], i, branch, root):
            continue
        ok, verdict = _guarded(ctx, "merkle_proof.verify", lambda: merkle_proof.verify(leaf, br, idx, rt))
        ctx.check(P, "proof-verifies-iff-intact", ok and verdict is False, lambda: f"leaf {i} of {len(m.txids)}: verify says {verdict} after '{kind}' (index {idx}, {len(br)} siblings)", site=kind)
        ctx.fault(f"proof-{kind}")


# ---------------------------------------------------------------------------
# compact targets, retargeting, work
# ---------------------------------------------------------------------------
def _retarget(ctx: Ctx, bits: bytes, first: int, last: int, limit: bytes) -> None:
    from btclib.block.proof_of_work import next_bits  # noqa: PLC0415

    b, lim = int.from_bytes(bits, "big"), int.from_bytes(limit, "big")
    ok, got = _guarded(ctx, "next_bits", lambda: next_bits(bits, _dt(first), _dt(last), pow_limit_bits=limit))
    refusable = ar.set_compact(b)[2] or ar.set_compact(lim)[2]
    want = ar.next_work_required(b, last - first, ar.set_compact(lim)[0])
    span = last - first
    ctx.state(f"span:{'neg' if span < 0 else 'low' if span < ar.TARGET_TIMESPAN // 4 else 'in' if span <= ar.TARGET_TIMESPAN * 4 else 'high'}")
    ctx.check(
        P, "retarget-equals-core", (not ok and refusable) or (ok and int.from_bytes(got, "big") == want),
        lambda: f"next_bits({bits.hex()}, timespan {span}, limit {limit.hex()}) = {got!r}, reference {want:08x}", site="next_bits",
    )
    ctx.log("retarget", bits, span, f"{want:08x}")


def _compact_draw(ctx: Ctx) -> int:
    ch = ctx.ch
    kind = ch.pick(["from-target", "boundary", "any", "regtest", "mainnet"], "bits.kind")
    if kind == "from-target":
        return ar.get_compact(ch.bits(1 + ch.draw(256, "bits.len"), "bits.target"))
    if kind == "boundary":
        size = ch.pick([0, 1, 2, 3, 4, 5, 29, 31, 32, 33, 34, 35, 36, 255], "bits.size")
        word = ch.pick([0, 1, 0x7F, 0x80, 0xFF, 0x100, 0x7FFF, 0x8000, 0xFFFF, 0x10000, 0x7FFFFF, 0x800000, 0x800001, 0x80FFFF, 0xFFFFFF], "bits.word")
        return (size << 24) | word
    if kind == "any":
        return ch.bits(32, "bits.any")
    return int.from_bytes(REGTEST_BITS if kind == "regtest" else MAINNET_BITS, "big")


def _pow_queries(ctx: Ctx, stamps: list[int], n: int) -> None:
    from btclib.block.proof_of_work import bits_from_target, block_work, chain_work, is_negative_bits, target_from_bits  # noqa: PLC0415

    ch = ctx.ch
    seen = []
    for _ in range(n):
        c = _compact_draw(ctx)
        bits = c.to_bytes(4, "big")
        value, negative, overflow = ar.set_compact(c)
        canonical = not negative and not overflow and ar.get_compact(value) == c
        ctx.state(f"bits:{'ovf' if overflow else 'neg' if negative else 'zero' if not value else 'canon' if canonical else 'odd'}")
        ok, target = _guarded(ctx, "target_from_bits", lambda: target_from_bits(bits))
        ctx.check(P, "compact-equals-core", ok != overflow and (not ok or int.from_bytes(target, "big") == value), lambda: f"{bits.hex()}: target {target!r}, SetCompact gives {value:x} overflow={overflow}", site="target_from_bits")
        ctx.check(P, "compact-equals-core", is_negative_bits(bits) == negative, f"{bits.hex()}: fNegative is {negative}", site="is_negative_bits")
        if ok:
            back = bits_from_target(target)
            ctx.check(P, "compact-equals-core", int.from_bytes(back, "big") == ar.get_compact(value), lambda: f"{bits.hex()}: GetCompact gives {ar.get_compact(value):08x}, library {back.hex()}", site="bits_from_target")
            if canonical:
                ctx.check(P, "compact-inverse-on-canonical", back == bits, lambda: f"{bits.hex()} -> {back.hex()}", site="bits_from_target")
        # a 256-bit target that came from no bits: the compact form may only tighten it
        t = ch.bits(1 + ch.draw(256, "target.len"), "target")
        down = int.from_bytes(target_from_bits(bits_from_target(t.to_bytes(32, "big"))), "big")
        ctx.check(P, "target-never-rounds-up", down <= t and down == ar.set_compact(ar.get_compact(t))[0], lambda: f"target {t:x} comes back as {down:x}", site="bits_from_target")
        ok, work = _guarded(ctx, "block_work", lambda: block_work(bits))
        want = ar.block_proof(c)
        ctx.check(P, "work-equals-core", (not ok and want == 0) or (ok and work == want and want > 0), lambda: f"block_work({bits.hex()}) = {work!r}, GetBlockProof gives {want}", site="block_work")
        if ok:
            seen.append(bits)
        # a timespan between two clock readings, or an extreme one
        first, last = ch.pick(stamps, "span.first"), ch.pick(stamps, "span.last")
        edge = ch.pick([None, 0, ar.TARGET_TIMESPAN // 4 - 1, ar.TARGET_TIMESPAN // 4, ar.TARGET_TIMESPAN * 4, ar.TARGET_TIMESPAN * 4 + 1, 2**32, 253402300799 - last], "span.edge")
        if edge is not None:
            first = last - edge if last - edge >= 0 else last
            last = first + edge
        limit = ch.pick([MAINNET_BITS, REGTEST_BITS, None], "limit") or _compact_draw(ctx).to_bytes(4, "big")
        _retarget(ctx, bits, first, last, limit)
    if seen:
        ok, total = _guarded(ctx, "chain_work", lambda: chain_work(seen))
        ctx.check(P, "work-equals-core", ok and total == sum(ar.block_proof(int.from_bytes(b, "big")) for b in seen), "chain_work is not the sum of GetBlockProof", site="chain_work")
        # a header Core credits no work (sign flag, zero, overflow) anywhere in the chain: refused as it is alone, or
        # credited 0 -- never the work of its magnitude. Its valid twin sits right in front of it half of the time
        at = ch.draw(len(seen) + 1, "chain.bad.at")
        twin = seen[at - 1] if at and ch.draw(2, "chain.bad.twin") else _compact_draw(ctx).to_bytes(4, "big")
        bad = ch.pick([bytes([twin[0], twin[1] | 0x80, twin[2], twin[3]]), bytes([twin[0], 0, 0, 0]), bytes([0xFF, twin[1] & 0x7F or 1, twin[2], twin[3]])], "chain.bad.kind")
        if ar.block_proof(int.from_bytes(bad, "big")) == 0:
            chain = [*seen[:at], bad, *seen[at:]]
            ok, total = _guarded(ctx, "chain_work", lambda: chain_work(chain))
            ctx.check(P, "work-equals-core", not ok or total == sum(ar.block_proof(int.from_bytes(b, "big")) for b in chain), lambda: f"chain_work credits {total} to a chain holding {bad.hex()} (GetBlockProof: 0) at {at}", site="chain_work/workless-member")
            ctx.probe("chain-with-workless-member")


def _pow(ctx: Ctx) -> None:
    """Two miners' clocks over a few simulated hours give the timestamps."""
    ch = ctx.ch
    clocks = [Clock(ctx, f"miner{i}") for i in range(2)]
    stamps = [ch.pick(clocks, "who").read(t) for t in range(0, 6 + ch.draw(30, "ticks"), 1 + ch.draw(5, "tick"))]
    ctx.log("clocks", stamps[:6])
    _pow_queries(ctx, stamps, 4 + ch.draw(9, "n.queries"))


def _plans(tier: str) -> list[Any]:
    from btcsim.core.runner import Plan  # noqa: PLC0415

    return [
        Plan("chain", {"part": "relay", "faults": False}, share=2.0, chunk=10, label="chain/relay"),
        Plan("chain", {"part": "relay", "faults": True}, share=3.0, chunk=10, label="chain/relay-faults"),
        Plan("chain", {"part": "pow"}, share=1.0, chunk=40, label="chain/pow"),
        Plan("chain", {"part": "collisions"}, share=1.0, chunk=20, label="chain/short-id-collisions"),
    ]


CHECKS = {
    "C18": {
        "level": "exploration",
        "plans": lambda tier: [__import__("btcsim.core.runner", fromlist=["Plan"]).Plan("chain", {"part": "relay", "faults": False}, share=0.5, chunk=10, label="chain/block-sizes")],
        "rule": "chain: mined blocks of 1-41 transactions and their tampered copies (a transaction swapped, dropped, replaced, its witness malleated, the coinbase witness replaced or stripped) against the size identities of their own bytes.",
        "assumptions": ["blocks are built or altered in memory (check_validity=False): the identities are asked of invalid blocks too"],
    },
    "C17": {
        "level": "exploration",
        "plans": _plans,
        "rule": (
            "one evaluation = one seeded run: (relay) 1-3 generated blocks mined under a skewed clock, audited against tampered "
            "copies, relayed as compact blocks to 1-2 nodes with drawn pools under a drawn fault schedule (loss, duplication, "
            "delay, byte corruption, mutated block, wrong blocktxn), filtered and proved to a light client, every step judged "
            "against the reference merkle / SipHash+Golomb-Rice / arith_uint256 models; (pow) 4-12 compact values around the "
            "exponent and sign boundaries with timespans taken from two jumping clocks; (collisions) one mined block announced 1-3 times under "
            "short ids narrowed to 2..9 bits to pools of block transactions, strangers, twins and copies, reconstruct / fill held to a "
            "per-slot model (filled iff exactly one distinct pool wtxid answers the id). distinct = distinct (actor, event, "
            "fault) sequence; non-trivial = at least one fault, tamper or clock jump fired."
        ),
        "assumptions": [
            "blocks <= 41 transactions, <= 3 blocks, <= 2 nodes per run; pools <= 2x block",
            "SHA-256 / SipHash collisions do not occur in budget: 48-bit short-id collisions are an unreached probe of the relay part; the collisions plan produces them by cutting the hash behind the name compact_blocks.siphash to 2..9 bits (library and reference cut alike), which decides the collision handling of reconstruct / fill, not the hash",
            "the 2^32 compact values are sampled around exponent/sign boundaries, not enumerated",
            "an accepted block whose header was altered in flight into another valid regtest header is judged against the reference commitments only",
            "the merkle-branch builder is the reference model's (btclib verifies branches, it does not build them)",
        ],
    },
}
