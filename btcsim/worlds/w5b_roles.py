"""W5b `roles` -- the PSBT roles as functions of their operands (C11).

Actors: a coordinator (Creator / Updater / Combiner / Finalizer / Extractor) holding the request as read back
from its own bytes, the ceremony's cosigners (each a `SoftwareSigner` on its own seed, signing its own copy),
one byzantine cosigner, a memory-poor reader (a `PsbtView` over a `SimFile`), and the auditor (the oracles
here, with the reference map splitter and union model of `btcsim.ref`).

Workload per run (all drawn): a ceremony from `btcsim.gen.wallets` (1-5 cosigners, 1-2 wallets of every
shape, 1-4 inputs, PSBT v0 or v2); every optional field of every map populated or not
(`btcsim.gen.psbt_fields.decorate`: unknown and proprietary pairs, foreign key origins, global xpubs,
preimages, output scripts, taproot, MuSig2 and silent-payment fields, a signed message, the v2 lock time
said through required lock times, `tx_modifiable`); each needed cosigner signs its own copy of the request.
Then a drawn non-empty subset of five sections:

- combine : the fully signed psbt is cut into 2-5 copies, each key-value pair going to a drawn non-empty
            subset of them (signatures included); real answers and, by draw, a finalized copy join the
            operands; `combine` over them, over drawn permutations, bracketings and duplications, and of a
            copy with itself.
- roles   : a drawn sequence of <= 8 of sign / psbt.sign / to_v0 / to_v2 / combine / finalize / extract_tx
            (and join with a second, unrelated ceremony) on one evolving psbt.
- answer  : a cosigner answers a request that already carries others' signatures; the coordinator holds the
            answer to the request (`assert_signatures_only`, `request_signatures`).
- view    : `PsbtView` over the stored request / answer / combined / finalized psbt, read in a drawn order.
- foreign : (faulty plan) a psbt of another transaction or version among the operands.

Faults (cfg `faults`): operands that conflict (one key, two values); operands of a different transaction or
version; one-thing byzantine edits of the answer (`psbt_fields.EDITS`; applied only if they change the
answer's serialization and still parse; the two musig2 session maps are never edited); under the view short
reads (every read, or one in four), EIO on the n-th read (mostly after the view is open, and every question is
then asked again) and truncation of the file.

Invariants (all C11):
- combine-accepts-same-transaction, combine-loses-no-pair (site combine/<field>), combine-equals-union,
  combine-order-independent (permutation / bracketing / duplication), combine-idempotent, for operands that
  by the reference splitter do not conflict and are not finalized; a finalized operand relaxes the union by
  what BIP174's Finalizer clears; conflict-refused-or-one-operands-value (nothing else lost) otherwise.
- different-transaction-refused, different-version-refused.
- unsigned-tx-unchanged (tx, tx.id, unique_id) by every role; extracted-tx-is-the-unsigned-tx.
- role-returns-fresh-object, operands-unchanged, result-shares-nothing (writing into a result / into the
  operands afterwards changes nobody else's serialization).
- honest-answer-accepted (as object and as re-parsed bytes), merged-answer-loses-no-pair,
  tampered-answer-refused (both entry points, library exception), request-untouched-by-refusal.
- view-equals-object (intact file), view-agrees-or-refuses (file faults).

PENDING names the input classes skipped while a finding is with the coordinator; each is marked below.
"""

from __future__ import annotations

import hashlib
from copy import deepcopy
from typing import Any, Callable

from btclib.exceptions import BTClibException
from btclib.psbt.psbt import Psbt, assert_signatures_only, combine, extract_tx, finalize, join, prevouts, sign
from btclib.psbt.psbt_view import PsbtView
from btclib.psbt_signer import request_signatures
from btclib.tx import Tx

from btcsim.core.ctx import Ctx
from btcsim.gen import psbt_fields as pf
from btcsim.gen import wallets as gw
from btcsim.ref import psbtunion as ref
from btcsim.seams import state as st
from btcsim.seams.disk import SimFile
from btcsim.seams.rng import SimRng

P, P10, P18 = "C11", "C10", "C18"
LIB = (BTClibException,)
# sites whose input class is not judged. The three findings that lived here (combine/script_pub_key,
# answer/global-message, answer/global-sp) are repaired in /repo and asserted now. What remains is not a
# finding against C11's statement: a v0 request *built in memory* with sequence=None differs, as an object,
# from its own bytes re-read (the unsigned transaction supplies the sequence), so the world holds every
# answer to the request as re-read from its bytes -- which is what a coordinator talking to a device has.
PENDING: set[str] = {
    "answer/v0-unset-sequence",
}
MODIFIABLE = frozenset({(0, b"\x06")})  # PSBT_GLOBAL_TX_MODIFIABLE: merged by AND/OR, compared for order independence only

_IN = (
    "non_witness_utxo witness_utxo partial_sigs sig_hash_type redeem_script witness_script hd_key_paths final_script_sig "
    "final_script_witness unknown ripemd160_preimages sha256_preimages hash160_preimages hash256_preimages previous_tx_id "
    "output_index sequence required_time_lock_time required_height_lock_time taproot_key_spend_signature "
    "taproot_script_spend_signatures taproot_leaf_scripts taproot_hd_key_paths taproot_internal_key taproot_merkle_root unknown "
    "musig2_participant_pub_keys musig2_pub_nonces musig2_partial_sigs sp_ecdh_shares sp_dleq_proofs"
).split()
_OUT = "redeem_script witness_script hd_key_paths amount script_pub_key taproot_internal_key taproot_tree taproot_hd_key_paths musig2_participant_pub_keys sp_v0_info sp_v0_label".split()
_GLOBAL = "unsigned_tx hd_key_paths tx_version fallback_lock_time input_count output_count tx_modifiable sp_ecdh_shares sp_dleq_proofs signed_message".split()


def _field(k: ref.MapKey, n_inputs: int) -> str:
    """The object-model name of a wire key, for a stable violation site."""
    n, key = k
    names = _GLOBAL if n == 0 else _IN if n <= n_inputs else _OUT
    t = key[0] if key else 0x100
    return "version" if n == 0 and t == 0xFB else names[t] if t < len(names) else "unknown"


class _Answered:
    """The `PsbtSigner` of an answer that has already arrived."""

    def __init__(self, returned: Psbt) -> None:
        self.returned = returned

    def sign_psbt(self, psbt: Psbt) -> Psbt:
        return self.returned


class _InPlace:
    """An in-process signer (a `SignerDecorator`, a plug-in) that writes its answer INTO the psbt it was handed and hands
    that same object back: what it was given is the caller's request only if the caller passed its own object along."""

    def __init__(self, becomes: Psbt) -> None:
        self.becomes = becomes

    def sign_psbt(self, psbt: Psbt) -> Psbt:
        vars(psbt).update(vars(deepcopy(self.becomes)))
        return psbt


def _wire(x: Any) -> Any:
    """The serialization, or why there is none: compared before and after somebody else was written into."""
    try:
        return x.serialize(include_witness=True, check_validity=False) if isinstance(x, Tx) else x.serialize(check_validity=False)
    except Exception as e:  # noqa: BLE001
        return f"unserializable: {type(e).__name__}: {e}"


def _ident(p: Psbt) -> tuple[Tx, bytes, bytes]:
    return p.tx, p.tx.id, p.unique_id


# ---------------------------------------------------------------------------
# every role: a fresh object, untouched operands, nothing shared
# ---------------------------------------------------------------------------
def _role(ctx: Ctx, name: str, fn: Callable[..., Any], operands: list[Psbt]) -> Any:
    before = [_wire(o) for o in operands]
    out = fn(*operands)
    if not ctx.wants(P):
        return out
    ctx.check(P, "role-returns-fresh-object", all(out is not o for o in operands), f"{name} handed back one of its operands", site=name)
    ctx.check(P, "operands-unchanged", [_wire(o) for o in operands] == before, f"{name} changed the serialization of an operand", site=name)
    mode = ctx.ch.draw(5, "alias.mode")  # 0-2: the two checks above and no more
    if mode == 3:
        # write into a result: no operand may see it
        pf.scribble(fn(*operands))
        ctx.check(P, "result-shares-nothing", [_wire(o) for o in operands] == before, f"writing into {name}'s result changed an operand", site=name)
        ctx.probe("alias:result-written")
    elif mode == 4:
        # write into the operands: the result may not see it
        mine = deepcopy(operands)
        result = fn(*mine)
        was = _wire(result)
        for m in mine:
            pf.scribble(m)
        ctx.check(P, "result-shares-nothing", _wire(result) == was, f"writing into {name}'s operands changed its result", site=name)
        ctx.probe("alias:operands-written")
    return out


def _same_tx(ctx: Ctx, name: str, want: tuple[Tx, bytes, bytes], got: Psbt) -> None:
    ctx.check(P, "unsigned-tx-unchanged", lambda: _ident(got) == want, lambda: f"{name}: tx {got.tx.id.hex()} / unique_id {got.unique_id.hex()}, before {want[1].hex()} / {want[2].hex()}", site=name)


def _signer_fn(ctx: Ctx, cos: gw.Cosigner) -> tuple[str, Callable[[Psbt], Psbt]]:
    """The two doors to the Signer role: the contract's sign_psbt, and psbt.sign over the KeyManager."""
    if ctx.ch.draw(3, "sign.door") == 2:
        return "psbt.sign", lambda p: sign(p, cos.signer())[0]
    return "sign_psbt", lambda p: cos.signer().sign_psbt(p)


def _sign(ctx: Ctx, cos: gw.Cosigner, p: Psbt) -> Psbt:
    name, fn = _signer_fn(ctx, cos)
    with ctx.must_succeed(P10, "honest-request-signed", name):
        out = _role(ctx, name, fn, [p])
    _same_tx(ctx, name, _ident(p), out)
    ctx.log("signed", cos.name, name, hashlib.sha256(out.serialize()).hexdigest()[:12])
    return out


# ---------------------------------------------------------------------------
# combine
# ---------------------------------------------------------------------------
def _arrangement(ctx: Ctx, n: int) -> Any:
    """A drawn permutation of 0..n-1 with up to two repeats, bracketed at random: nested lists of indexes."""
    ch = ctx.ch
    seq = ch.shuffled(range(n), "arr.perm")
    for _ in range(ch.draw(3, "arr.repeats")):
        seq.insert(ch.draw(len(seq) + 1, "arr.at"), ch.draw(n, "arr.dup"))

    def bracket(items: list[Any], depth: int = 0) -> list[Any]:
        if len(items) < 2 or depth > 2 or ch.draw(3, "arr.nest?") == 0:
            return items
        lo = ch.draw(len(items), "arr.lo")
        hi = lo + 1 + ch.draw(len(items) - lo, "arr.hi")
        return [*bracket(items[:lo], depth + 1), bracket(items[lo:hi], depth + 1), *bracket(items[hi:], depth + 1)]

    return bracket(seq)


def _evaluate(arr: Any, operands: list[Psbt]) -> Psbt:
    return operands[arr] if isinstance(arr, int) else combine([_evaluate(a, operands) for a in arr])


def _judge(ctx: Ctx, operands: list[Psbt], what: str) -> None:
    """`combine(operands)` against the union of their serializations as the reference splitter cuts them."""
    ch = ctx.ch
    n_in = len(operands[0].inputs)
    wires = [o.serialize() for o in operands]
    clash = ref.conflicts(ref.union(wires, MODIFIABLE))
    done = ref.finalized_inputs(wires, n_in)
    ctx.state(f"{what}:v{operands[0].version}:n{min(len(operands), 5)}:{'conflict' if clash else 'agree'}:{'final' if done else 'open'}")
    merge: Callable[..., Psbt] = lambda *ops: combine(list(ops))  # noqa: E731
    if clash:
        try:
            result = _role(ctx, "combine", merge, operands)
            wire = result.serialize()
        except LIB as e:
            ctx.probe("conflict-refused")
            ctx.note("combine-refused", what, type(e).__name__)
            return
    else:
        with ctx.must_succeed(P, "combine-accepts-same-transaction", "combine"):
            result = _role(ctx, "combine", merge, operands)
        with ctx.must_succeed(P, "combined-psbt-serializes", "combine"):
            wire = result.serialize()
    ctx.log("combined", what, len(operands), len(wire))
    lost, altered, invented = ref.compare(wire, wires, MODIFIABLE, n_in)

    def show(keys: list[ref.MapKey]) -> str:
        return ", ".join(f"map {n} {_field((n, k), n_in)} key {k.hex()}" for n, k in keys[:4])

    site = f"combine/{_field((lost or altered or invented or [(0, b'')])[0], n_in)}"
    if clash:
        ctx.probe("conflict-merged")
        ctx.check(P, "conflict-refused-or-one-operands-value", not lost and not altered, lambda: f"{what}: conflicting {show(clash)}; lost {show(lost)}; values of no operand {show(altered)}", site=site)
        return
    ctx.check(P, "combine-loses-no-pair", not lost, lambda: f"{what}: {len(operands)} operands, v{operands[0].version}; lost {show(lost)}", site=site)
    ctx.check(P, "combine-equals-union", not altered and not invented, lambda: f"{what}: values of no operand {show(altered)}; keys of no operand {show(invented)}", site=site)
    ctx.probe("union:finalized-operand" if done else "union:open-operands")
    if done:
        return
    for _ in range(1 + ch.draw(int(ctx.cfg.get("arrangements", 4)), "arr.n")):
        arr = _arrangement(ctx, len(operands))
        with ctx.must_succeed(P, "combine-accepts-same-transaction", "combine"):
            other = _evaluate(arr, operands).serialize()
        ctx.check(P, "combine-order-independent", other == wire, lambda: f"{what}: combine by {arr} serializes differently from combine in order ({len(other)} vs {len(wire)} bytes)", site="combine")
        ctx.probe("arrangement:nested" if any(isinstance(a, list) for a in arr) else "arrangement:flat")
    one = ch.draw(len(operands) + 1, "idem.which")
    p, w = (result, wire) if one == len(operands) else (operands[one], wires[one])
    with ctx.must_succeed(P, "combine-accepts-same-transaction", "combine"):
        twice = combine([p, p]).serialize()
    ctx.check(P, "combine-idempotent", twice == w, lambda: f"{what}: combine([p, p]) is {len(twice)} bytes, p is {len(w)}", site="combine")


def _combine(ctx: Ctx, cer: gw.Ceremony, request: Psbt, answers: list[Psbt], pinned: set[pf.Atom], faulty: bool) -> None:
    ch = ctx.ch
    if len(answers) > 1 or ch.draw(2, "combine.answers?"):
        _judge(ctx, [request, *answers] if ch.draw(2, "combine.with-request") else answers, "answers")
    full = pf.with_signatures(request, answers)
    k = 2 + ch.draw(4, "split.k")
    copies, keeps = pf.split(ch, full, pinned, k)
    if ch.draw(3, "split.plus-answer") == 2:
        copies.append(answers[ch.draw(len(answers), "split.answer")])
    kind = "split"
    if ch.draw(4, "split.final?") == 3:
        # a copy the Finalizer has been over: it stops serializing what it consumed
        with ctx.must_succeed(P10, "closure", "finalize"):
            copies.append(finalize(full, solver=cer.solver))
        kind = "split+final"
    elif faulty and ch.draw(2, "split.conflict?"):
        made = _conflict(ctx, full, copies, keeps)
        kind = "split+conflict" if made else kind
    _judge(ctx, copies, kind)
    if ch.draw(4, "split.of-final?") == 0:
        # the Finalizer's output split like any other psbt: an input's final script_sig in one copy and its final
        # witness in another (a p2sh-wrapped segwit input is spent with both) are two pairs of one map
        with ctx.must_succeed(P10, "closure", "finalize"):
            final = finalize(full, solver=cer.solver)
        pieces, _ = pf.split(ch, final, pinned, 2 + ch.draw(3, "split.k2"))
        _judge(ctx, pieces, "split-of-final")


def _conflict(ctx: Ctx, full: Psbt, copies: list[Psbt], keeps: list[set[pf.Atom]]) -> bool:
    """Give one key a second value in one copy (and its own value in another, if only that copy had it)."""
    ch = ctx.ch
    able = [a for a in pf.atoms(full) if pf.other_value(a[2], pf.get_atom(full, a)) is not None]
    if not able:
        return False
    atom = able[ch.draw(len(able), "conflict.atom")]
    j = ch.draw(len(keeps), "conflict.copy")
    edited = deepcopy(copies[j])
    pf.set_atom(edited, atom, pf.other_value(atom[2], pf.get_atom(full, atom)))
    try:
        edited.serialize()
    except LIB:
        return False  # not a value this field can hold (a lock time of 0, ...)
    copies[j] = edited
    if not any(atom in keep for n, keep in enumerate(keeps) if n != j):
        pf.set_atom(copies[(j + 1) % len(keeps)], atom, deepcopy(pf.get_atom(full, atom)))
    ctx.fault(f"conflict-{atom[2]}", atom[0], atom[1])
    return True


# ---------------------------------------------------------------------------
# operands of another transaction or version
# ---------------------------------------------------------------------------
def _foreign(ctx: Ctx, p: Psbt) -> None:
    ch = ctx.ch
    for _ in range(1 + ch.draw(2, "foreign.n")):
        other = deepcopy(p)
        i, j = ch.draw(len(p.inputs), "foreign.input"), ch.draw(len(p.outputs), "foreign.output")
        kind = ch.pick(["amount", "version", "output-script", "outpoint", "tx-version", "lock-time", "sequence", "input-count"], "foreign.kind")
        inv = "different-version-refused" if kind == "version" else "different-transaction-refused"
        if kind == "amount":
            other.outputs[j].amount = (other.outputs[j].amount or 0) + ch.pick([1, -1], "foreign.delta")
        elif kind == "version":
            if p.version == 2 and _says_more_than_v0(p):
                continue
            other = p.to_v2() if p.version == 0 else p.to_v0()
        elif kind == "output-script":
            other.outputs[j].script_pub_key = pf.other_value("script_pub_key", other.outputs[j].script_pub_key)
            if other.outputs[j].sp_v0_info:
                continue  # identified by the address, not by the script
        elif kind == "outpoint":
            m = other.inputs[i]
            m.output_index = (m.output_index or 0) ^ 1
            m.non_witness_utxo = None  # which would name another transaction
        elif kind == "tx-version":
            other.tx_version = 1 if other.tx_version != 1 else 2
        elif kind == "lock-time":
            for m in other.inputs:
                m.required_height_lock_time = m.required_time_lock_time = None
            other.fallback_lock_time = p.lock_time ^ 1
        elif kind == "sequence":
            m = other.inputs[i]
            m.sequence = (gw.FINAL if m.sequence is None else m.sequence) ^ (1 << ch.draw(32, "foreign.bit"))
            if p.version == 2:
                # BIP370: the identifier zeroes every sequence, so this is the same psbt
                ctx.probe("v2-other-sequence-is-same-psbt")
                continue
        elif len(p.inputs) > 1:
            del other.inputs[i]
        else:
            continue
        ctx.fault(f"foreign-{kind}")
        for pair in ([p, other], [other, p]):
            try:
                combine(pair)
                verdict = "merged"
            except LIB as e:
                verdict = f"refused {type(e).__name__}"
            except Exception as e:  # noqa: BLE001
                verdict = f"non-library {type(e).__name__}: {e}"
            ctx.check(P, inv, verdict.startswith("refused"), lambda: f"{kind}: combine of two different psbts (v{pair[0].version}, v{pair[1].version}) {verdict}", site=kind)


def _says_more_than_v0(p: Psbt) -> bool:
    """BIP375 fields: a psbt carrying them has no version 0 spelling, and `to_v0` says so."""
    return bool(p.sp_ecdh_shares or p.sp_dleq_proofs or any(o.sp_v0_info for o in p.outputs) or any(m.sp_ecdh_shares or m.sp_dleq_proofs for m in p.inputs))


# ---------------------------------------------------------------------------
# a sequence of roles on one psbt
# ---------------------------------------------------------------------------
def _roles(ctx: Ctx, cer: gw.Ceremony, request: Psbt, answers: list[Psbt]) -> None:
    ch = ctx.ch
    p = request
    want = _ident(p)
    todo = ch.shuffled(cer.needed, "roles.order")
    trail = []
    for _ in range(1 + ch.draw(8, "roles.n")):
        options = ["to_v2" if p.version == 0 else "to_v0", "combine"]
        options += ["sign"] if todo else ["finalize"]
        op = options[ch.draw(len(options), "roles.op")]
        if op == "sign":
            p = _sign(ctx, cer.cosigners[todo.pop()], p)
        elif op == "combine":
            # an earlier answer of the same request, converted to whatever version the psbt is in by now
            a = answers[ch.draw(len(answers), "roles.answer")]
            if p.version == 0 and _says_more_than_v0(a):
                continue  # finalizing cleared the BIP375 fields of `p`; the answer still has them
            a = a if a.version == p.version else a.to_v2() if p.version == 2 else a.to_v0()
            with ctx.must_succeed(P, "combine-accepts-same-transaction", "combine"):
                p = _role(ctx, "combine", lambda x, y: combine([x, y]), [p, a])
        elif op == "finalize":
            with ctx.must_succeed(P10, "closure", "finalize"):
                p = _role(ctx, "finalize", lambda x: finalize(x, solver=cer.solver), [p])
            with ctx.must_succeed(P10, "closure", "extract_tx"):
                tx = _role(ctx, "extract_tx", extract_tx, [p])
            bare = [(v.prev_out, v.sequence) for v in tx.vin], tx.vout, tx.version, tx.lock_time
            ctx.check(P, "extracted-tx-is-the-unsigned-tx", bare == ([(v.prev_out, v.sequence) for v in want[0].vin], want[0].vout, want[0].version, want[0].lock_time), f"extract_tx built {tx.id.hex()} out of the psbt of {want[1].hex()}", site="extract_tx")
        elif op == "to_v0" and _says_more_than_v0(p):
            ctx.probe("to_v0-not-applicable")
            continue
        else:
            with ctx.must_succeed(P, "conversion-succeeds", op):
                p = _role(ctx, op, Psbt.to_v2 if op == "to_v2" else Psbt.to_v0, [p])
            ctx.check(P, "conversion-sets-version", p.version == (2 if op == "to_v2" else 0), f"{op} returned a v{p.version} psbt", site=op)
        _same_tx(ctx, op, want, p)
        trail.append(op)
        ctx.probe(f"role:{op}")
    ctx.state("roles:" + ">".join(trail))
    if ch.draw(4, "roles.join?") == 3:
        _join(ctx, cer, request)


def _join(ctx: Ctx, cer: gw.Ceremony, request: Psbt) -> None:
    """Join with an unrelated psbt: the Constructor's role, asked only for a fresh object and untouched operands."""
    ch = ctx.ch
    wallet = gw.make_wallet(ch, ch.pick(["wpkh", "tr", "pkh"], "join.shape"), cer.cosigners, 8)
    other = gw.fund_and_build(ch, [wallet], cer.cosigners, max_inputs=1, version=request.version).psbt
    mine = deepcopy(request)
    if request.version == 2:
        mine.tx_modifiable = other.tx_modifiable = 3
    shuffle = bool(ch.draw(2, "join.shuffle"))
    try:
        joined = _role(ctx, "join", lambda a, b: join([a, b], False, False, shuffle, shuffle), [mine, other])
    except LIB as e:
        ctx.probe("join-refused")
        ctx.note("join-refused", type(e).__name__)
        return
    ctx.log("joined", len(joined.inputs), len(joined.outputs), joined.tx.id)
    ctx.probe("role:join")


# ---------------------------------------------------------------------------
# a signer's answer, held to the request
# ---------------------------------------------------------------------------
def _answer(ctx: Ctx, cer: gw.Ceremony, request: Psbt, answers: list[Psbt], faulty: bool) -> None:
    ch = ctx.ch
    j = ch.draw(len(cer.needed), "answer.signer")
    # the request this signer gets carries what the others have already added, and travelled as bytes
    asked = Psbt.parse(pf.with_signatures(request, [a for n, a in enumerate(answers) if n != j and ch.draw(2, "answer.earlier")]).serialize())
    cos = cer.cosigners[cer.needed[j]]
    answer = _sign(ctx, cos, asked)
    sent = answer.serialize()
    arrived = Psbt.parse(sent)
    for what, a in (("object", answer), ("bytes", arrived)):
        with ctx.must_succeed(P, "honest-answer-accepted", "assert_signatures_only"):
            assert_signatures_only(asked, a)
    with ctx.must_succeed(P, "honest-answer-accepted", "request_signatures"):
        merged = _role(ctx, "request_signatures", lambda r, a: request_signatures(_Answered(a), r), [asked, arrived])  # type: ignore[arg-type]
    lost, altered, _ = ref.compare(merged.serialize(), [asked.serialize(), sent], MODIFIABLE)
    ctx.check(P, "merged-answer-loses-no-pair", not lost and not altered, lambda: f"request_signatures lost {lost[:3]} altered {altered[:3]}", site="request_signatures")
    _same_tx(ctx, "request_signatures", _ident(asked), merged)
    if "answer/v0-unset-sequence" in PENDING:
        ctx.probe("not-judged:answer/v0-unset-sequence")  # the request as built (sequence=None) is not held against re-parsed answers
    elif cer.psbt.version == 0:
        with ctx.must_succeed(P, "honest-answer-accepted", "answer/v0-unset-sequence"):
            assert_signatures_only(cer.psbt, Psbt.parse(cos.signer().sign_psbt(cer.psbt).serialize()))
    if not faulty:
        return
    before = asked.serialize()
    for _ in range(1 + ch.draw(4, "edit.n")):
        name, edit = pf.EDITS[ch.draw(len(pf.EDITS), "edit.kind")]
        if f"answer/{name}" in PENDING:
            ctx.probe(f"pending:answer/{name}")  # PENDING-FINDING: this edit is accepted on the pinned tree
            continue
        edited = edit(ch, asked, deepcopy(answer), cer)
        if edited is None:
            ctx.probe(f"edit-not-applicable:{name}")
            continue
        try:
            wire = edited.serialize()
            received = Psbt.parse(wire)
        except LIB:
            ctx.probe(f"edit-not-a-psbt:{name}")
            continue
        if wire == sent:
            ctx.probe(f"edit-changes-nothing:{name}")
            continue
        ctx.fault(f"byzantine-{name}")
        for door, call in (("assert_signatures_only", lambda: assert_signatures_only(asked, received)), ("request_signatures", lambda: request_signatures(_Answered(received), asked))):  # type: ignore[arg-type]
            try:
                call()
                verdict = "accepted"
            except LIB as e:
                verdict = f"refused {type(e).__name__}"
            except Exception as e:  # noqa: BLE001
                verdict = f"non-library {type(e).__name__}: {e}"
            ctx.check(P, "tampered-answer-refused", verdict.startswith("refused"), lambda: f"{door}: an answer with {name} edited (v{asked.version}, {[s.wallet.shape for s in cer.inputs]}) was {verdict}", site=f"answer/{name}")
        if ch.chance(1, 3, "answer.in-place?"):
            # the same dishonest answer from a signer that lives in the caller's process and writes into what it is handed
            mine = Psbt.parse(before)
            try:
                request_signatures(_InPlace(received), mine)  # type: ignore[arg-type]
                verdict = "accepted"
            except LIB as e:
                verdict = f"refused {type(e).__name__}"
            ctx.fault(f"byzantine-in-place-{name}")
            ctx.check(P, "tampered-answer-refused", verdict.startswith("refused"), lambda: f"request_signatures: an answer with {name} edited, written into the very object the signer was handed, was {verdict}", site="answer/in-place")
            ctx.check(P, "operand-untouched", mine.serialize() == before, lambda: f"request_signatures left the request it was handed changed by its signer ({name})", site="request_signatures/in-place")
        ctx.check(P, "request-untouched-by-refusal", asked.serialize() == before, f"the request changed while an answer with {name} edited was refused", site=f"answer/{name}")


# ---------------------------------------------------------------------------
# the view over a file
# ---------------------------------------------------------------------------
class _OccasionallyShort(SimFile):
    """A `SimFile` whose short reads come one read in four, so that a reader gets past the header before one hits."""

    def readinto(self, b: Any) -> int:
        self._short = self._ctx is not None and self._ctx.ch.draw(4, "file.short?") == 3
        return super().readinto(b)


def _view(ctx: Ctx, subject: Psbt, label: str, faulty: bool) -> None:
    ch = ctx.ch
    data = subject.serialize()
    parsed = Psbt.parse(data)
    spent = prevouts(parsed)
    clean = SimFile(data, ctx, name=label)
    opened = _read_through(ctx, clean, parsed, spent, label, strict=True)
    if not faulty:
        return
    kind = ch.draw(5, "file.fault")
    if kind == 0:
        return
    if kind == 1:
        stream = SimFile(data, ctx, name=label, short_reads=True)
    elif kind == 2:
        stream = _OccasionallyShort(data, ctx, name=label)
    elif kind == 3:
        # mostly after the view is open: a failed read in the middle of an answer, and then the same question again
        lo = opened if ch.draw(4, "file.eio-late?") else 0
        stream = SimFile(data, ctx, name=label, eio_on_read=lo + 1 + ch.draw(clean.reads - lo, "file.eio-at"))
    else:
        cut = ch.draw(len(data), "file.cut")
        stream = SimFile(data[:cut], ctx, name=label)
        ctx.fault("file-truncated", f"{cut}/{len(data)}")
    _read_through(ctx, stream, parsed, spent, label, strict=False)


def _read_through(ctx: Ctx, stream: SimFile, parsed: Psbt, spent: list[Any], label: str, *, strict: bool) -> int:
    """Open a view and ask it a drawn sequence of questions, then every question once more; returns how many
    reads opening took."""
    ch = ctx.ch
    inv = "view-equals-object" if strict else "view-agrees-or-refuses"

    def observe(what: str, read: Callable[[], Any], want: Any) -> Any:
        try:
            got = read()
        except (*LIB, OSError) as e:
            ctx.check(P, inv, not strict, f"{label}.{what}: the view over an intact file refused: {type(e).__name__}: {e}", site=what)
            ctx.probe("view-refused")
            ctx.note("view-refused", what, type(e).__name__)
            return None
        except Exception as e:  # noqa: BLE001
            ctx.check(P, inv, False, f"{label}.{what}: {type(e).__name__}: {e}", site=what)
            return None
        ctx.check(P, inv, want is None or got == want, lambda: f"{label}.{what}: the view says {got}, the parsed object {want}", site=what)
        ctx.probe("view-agreed")
        return got

    view = observe("open", lambda: PsbtView(stream), None)  # type: ignore[arg-type]
    opened = stream.reads
    if view is None:
        return opened
    observe("globals", lambda: (view.version, view.tx_version, view.fallback_lock_time, view.tx_modifiable, view.input_count, view.output_count, view.hd_key_paths, view.unknown, view.signed_message, view.sp_ecdh_shares, view.sp_dleq_proofs),
            (parsed.version, parsed.tx_version, parsed.fallback_lock_time, parsed.tx_modifiable, len(parsed.inputs), len(parsed.outputs), parsed.hd_key_paths, parsed.unknown, parsed.signed_message, parsed.sp_ecdh_shares, parsed.sp_dleq_proofs))
    reads: list[tuple[str, Callable[[], Any], Any]] = [
        ("tx", lambda: view.tx, parsed.tx),
        ("lock_time", lambda: view.lock_time, parsed.lock_time),
        ("prevouts", lambda: view.prevouts, spent),
    ]
    reads += [("input", lambda i=i: view.input(i), m) for i, m in enumerate(parsed.inputs)]  # type: ignore[misc]
    reads += [("output", lambda j=j: view.output(j), o) for j, o in enumerate(parsed.outputs)]  # type: ignore[misc]
    for _ in range(3 + ch.draw(8, "view.reads")):
        what, read, want = reads[ch.draw(len(reads), "view.what")]
        observe(what, read, want)
    for what, read, want in reads:
        observe(what, read, want)
    return opened


# ---------------------------------------------------------------------------
# the run
# ---------------------------------------------------------------------------
SECTIONS = ("combine", "roles", "answer", "view", "foreign")


def run(ctx: Ctx) -> None:
    ch = ctx.ch
    SimRng(ctx, mode=ch.pick(["uniform", "edge"], "rng.mode")).install()
    serving = bool(ch.draw(12, "backend")) and st.bindings_installed()
    st.set_backend(serving)
    faulty = bool(ctx.cfg.get("faults"))
    cosigners = gw.make_cosigners(ch, 1 + ch.draw(5, "n.cosigners"))
    wallets = [gw.make_wallet(ch, gw.SHAPES[ch.draw(len(gw.SHAPES), "shape")], cosigners, 0)]
    if ch.draw(3, "second-wallet?") == 2:
        wallets.append(gw.make_wallet(ch, gw.SHAPES[ch.draw(len(gw.SHAPES), "shape")], cosigners, 4))
    with ctx.must_succeed(P18, "funded-psbt-builds", "build_psbt"):
        cer = gw.fund_and_build(ch, wallets, cosigners, max_inputs=4 if serving else 2)  # the Python arm signs ~50x slower
    # the coordinator's request: what it reads back from the bytes it stored
    request, pinned = pf.decorate(ch, cer, Psbt.parse(cer.psbt.serialize()))
    if "combine/script_pub_key" in PENDING:
        # PENDING-FINDING: every copy carries the script of an output that also names a silent payment address
        pinned |= {("o", j, "script_pub_key", None) for j, o in enumerate(request.outputs) if o.sp_v0_info}
    enabled = [s for s in SECTIONS[: 5 if faulty else 4] if ch.draw(2, "section." + s)] or ["combine"]
    ctx.log("start", f"bindings={serving}", f"faulty={faulty}", [s.wallet.shape for s in cer.inputs], f"v{request.version}", enabled, len(request.serialize()), request.tx.id)
    for spec in cer.inputs:
        ctx.probe(f"shape:{spec.wallet.shape}")
    ctx.probe(f"psbt-v{request.version}")
    for a in pf.atoms(request):
        ctx.probe(f"field:{a[0]}.{a[2]}")
    ctx.sample["shapes"] = [s.wallet.shape for s in cer.inputs]
    ctx.sample["sections"] = enabled
    # each needed cosigner signs its own copy of the request
    answers = [_sign(ctx, cer.cosigners[i], request) for i in cer.needed]
    if "combine" in enabled:
        _combine(ctx, cer, request, answers, pinned, faulty)
    if "roles" in enabled:
        _roles(ctx, cer, request, answers)
    if "answer" in enabled:
        _answer(ctx, cer, request, answers, faulty)
    if "foreign" in enabled:
        _foreign(ctx, pf.with_signatures(request, answers) if ch.draw(2, "foreign.signed") else request)
    if "view" in enabled:
        full = pf.with_signatures(request, answers)
        subject, label = ch.pick([(request, "request"), (answers[0], "answer"), (full, "combined"), (None, "finalized")], "view.subject")
        if subject is None:
            with ctx.must_succeed(P10, "closure", "finalize"):
                subject = finalize(full, solver=cer.solver)
        _view(ctx, subject, label, faulty)


# ---------------------------------------------------------------------------
# check definition
# ---------------------------------------------------------------------------
def _plans(tier: str) -> list[Any]:
    from btcsim.core.runner import Plan  # noqa: PLC0415

    arrangements = 4 if tier == "quick" else 24  # permutations x bracketings x duplications per combine, at most
    return [
        Plan("roles", {"faults": False, "arrangements": arrangements}, share=1.0, chunk=20, label="roles/fault-free"),
        Plan("roles", {"faults": True, "arrangements": arrangements}, share=1.5, chunk=20, label="roles/faulty"),
    ]


CHECKS = {
    "C11": {
        "level": "exploration",
        "plans": _plans,
        "rule": (
            "one evaluation = one seeded run: a drawn ceremony (cosigners, wallet shapes, 1-4 inputs, PSBT v0/v2, backend arm, RNG edge "
            "mode) whose request has every optional field populated or not; every needed cosigner signs its own copy; then a drawn subset "
            "of: combine over a drawn cut of all key-value pairs into 2-5 copies (plus real answers, a finalized copy, or one conflicting "
            "pair) under 1-4 (thorough: 1-24) drawn permutations x bracketings x duplications judged against the reference union of the operands' "
            "serializations; a drawn sequence of <= 8 roles with aliasing probes; one answer held to its request with, in the faulty plan, "
            "1-4 byzantine edits; a PsbtView read in a drawn order over an intact and then a faulty file; operands of another transaction "
            "or version. distinct = distinct hash of the (actor, event, fault) sequence; non-trivial = at least one conflict, foreign "
            "operand, byzantine edit or file fault fired."
        ),
        "assumptions": [
            "operands are classified as conflicting / finalized by the reference splitter on their serializations, not by the generator",
            "PSBT_GLOBAL_TX_MODIFIABLE (merged by AND/OR by design) is left out of the union comparison and kept in the byte equality across orders",
            "PSBT_IN_SIGHASH_TYPE = 0 is never generated (known loss, reported under C05); SIGHASH_DEFAULT is spelled as an absent field",
            "edits to musig2_pub_nonces / musig2_partial_sigs are not in the edit set (documented as permitted mid-session additions)",
            "a byzantine edit is judged only if it changes the answer's serialization and the edited bytes still parse",
            "sign / finalize / extract_tx failing on an honest psbt is C10's subject: such a run is aborted here, not reported",
            "answers are held to the request as re-read from its own bytes (an in-memory v0 request with sequence=None is not the same object as its bytes re-parsed)",
        ],
    },
}
