"""btcsim command line.

  python -m btcsim check <id> [--tier quick|thorough]
  python -m btcsim replay <file>
  python -m btcsim run <world> <lens> <index> [key=value ...]     (one run, verbose)
  python -m btcsim selftest determinism [--seeds N]
  python -m btcsim setup
"""

from __future__ import annotations

import json
import os
import sys


def _reexec_with_fixed_hashseed() -> None:
    if os.environ.get("PYTHONHASHSEED") != "0" and not os.environ.get("BTCSIM_CHILD"):
        env = dict(os.environ, PYTHONHASHSEED="0")
        os.execve(sys.executable, [sys.executable, "-m", "btcsim", *sys.argv[1:]], env)  # noqa: S606


def main(argv: list[str]) -> int:
    if not argv:
        print(__doc__)
        return 2
    cmd = argv[0]
    if cmd == "check":
        _reexec_with_fixed_hashseed()
        from btcsim.checks import run_property_check  # noqa: PLC0415

        tier = os.environ.get("VERIF_TIER", "quick")
        if "--tier" in argv:
            tier = argv[argv.index("--tier") + 1]
        return run_property_check(argv[1], tier)
    if cmd == "replay":
        _reexec_with_fixed_hashseed()
        from btcsim.core.runner import replay_file  # noqa: PLC0415

        code, msg = replay_file(argv[1])
        print(msg)
        return code
    if cmd == "run":
        _reexec_with_fixed_hashseed()
        from btcsim.core.choices import Choices, derive_seed  # noqa: PLC0415
        from btcsim.core.runner import execute, run_seed  # noqa: PLC0415

        world, lens, idx = argv[1], argv[2], int(argv[3])
        cfg = {}
        for kv in argv[4:]:
            k, v = kv.split("=", 1)
            try:
                cfg[k] = json.loads(v)
            except json.JSONDecodeError:
                cfg[k] = v
        base = int(os.environ.get("VERIF_SEED", "20260922"))
        r = execute(run_seed(world), Choices(seed=derive_seed(base, world, idx)), lens, dict(cfg, run_index=idx))
        for e in r.events:
            print(e)
        print("status:", r.status, r.signature, r.detail)
        print("faults:", dict(r.faults), "probes:", dict(r.probes), "draws:", len(r.values), "digest:", r.digest[:16])
        return 1 if r.status == "violation" else 0 if r.status in ("ok", "aborted") else 2
    if cmd == "selftest":
        _reexec_with_fixed_hashseed()
        from btcsim import selftest  # noqa: PLC0415

        return selftest.main(argv[1:])
    if cmd == "setup":
        from btcsim import selftest  # noqa: PLC0415

        return selftest.setup()
    print(__doc__)
    return 2


if __name__ == "__main__":
    sys.exit(main(sys.argv[1:]))
