"""The RNG seam: ``secrets`` behind the simulator.

btclib modules ``import secrets`` and call ``secrets.randbelow`` etc. by
attribute, so replacing the attributes of the ``secrets`` module for the
duration of a run reaches every call site. Each draw goes through
``Choices`` and is counted per calling site.

Modes
- ``uniform``: a seeded uniform draw;
- ``edge``: with probability ``edge_num/edge_den`` a boundary of the
  function's own contract: ``randbelow(n)`` -> 0, 1, n-2, n-1;
  ``randbits(k)`` -> 0, 1, 2^k-1, 2^(k-1); ``token_bytes(k)`` -> 00.., ff..,
  or a repeat of the previous value. Every edge value is a value the real
  function may return.
"""

from __future__ import annotations

import os
import secrets
import sys
from typing import Any

from btcsim.core.ctx import Ctx

_REAL = {
    "randbelow": secrets.randbelow,
    "randbits": secrets.randbits,
    "token_bytes": secrets.token_bytes,
    "SystemRandom": secrets.SystemRandom,
    "choice": secrets.choice,
}


def _site() -> str:
    """The btclib file:function that asked for randomness."""
    f = sys._getframe(2)
    for _ in range(6):
        if f is None:
            break
        fn = f.f_code.co_filename
        if "btclib" in fn and "btcsim" not in fn:
            return f"{os.path.basename(fn)}:{f.f_code.co_name}"
        f = f.f_back
    return "harness"


class SimRng:
    def __init__(self, ctx: Ctx, mode: str = "uniform", edge_num: int = 1, edge_den: int = 4) -> None:
        self.ctx = ctx
        self.mode = mode
        self.edge_num = edge_num
        self.edge_den = edge_den
        self._last_token: bytes | None = None
        self.installed = False

    # -- the replaced functions -------------------------------------------
    def _edge(self) -> bool:
        return self.mode == "edge" and self.ctx.ch.chance(self.edge_num, self.edge_den, "rng.edge?")

    def randbelow(self, n: int) -> int:
        site = _site()
        if n <= 0:
            return _REAL["randbelow"](n)  # raises as the real one does
        self.ctx.probes[f"rng:{site}"] += 1
        if self._edge():
            cands = sorted({0, 1 % n, (n - 2) % n, n - 1})
            v = self.ctx.ch.pick(cands, "rng.randbelow.edge")
            self.ctx.probes[f"rng-edge:{site}"] += 1
            self.ctx.note("rng", site, "randbelow-edge", v if v < 4 else f"n-{n - v}")
            return v
        v = self.ctx.ch.draw(n, "rng.randbelow")
        return v

    def randbits(self, k: int) -> int:
        site = _site()
        self.ctx.probes[f"rng:{site}"] += 1
        if k > 0 and self._edge():
            cands = sorted({0, 1, (1 << k) - 1, 1 << (k - 1)})
            v = self.ctx.ch.pick(cands, "rng.randbits.edge")
            self.ctx.probes[f"rng-edge:{site}"] += 1
            self.ctx.note("rng", site, "randbits-edge", hex(v))
            return v
        return self.ctx.ch.bits(k, "rng.randbits")

    def token_bytes(self, k: int | None = None) -> bytes:
        site = _site()
        if k is None:
            k = 32
        self.ctx.probes[f"rng:{site}"] += 1
        if k > 0 and self._edge():
            cands = [b"\x00" * k, b"\xff" * k]
            if self._last_token is not None and len(self._last_token) == k:
                cands.append(self._last_token)
            v = self.ctx.ch.pick(cands, "rng.token.edge")
            self.ctx.probes[f"rng-edge:{site}"] += 1
            self.ctx.note("rng", site, "token-edge", v[:4].hex())
        else:
            v = self.ctx.ch.nbytes(k, "rng.token")
        self._last_token = v
        return v

    def entropy_source(self, k: int) -> bytes:
        """For APIs with an ``entropy_source=`` parameter (SLIP39)."""
        return self.token_bytes(k)

    def system_random(self) -> Any:
        rng = self

        class _SimSystemRandom:
            def shuffle(self, x: list[Any]) -> None:
                site = _site()
                rng.ctx.probes[f"rng:{site}"] += 1
                for i in range(len(x) - 1, 0, -1):
                    j = rng.ctx.ch.draw(i + 1, "rng.shuffle")
                    x[i], x[j] = x[j], x[i]

            def randrange(self, a: int, b: int | None = None) -> int:
                if b is None:
                    a, b = 0, a
                return a + rng.ctx.ch.draw(b - a, "rng.randrange")

            def getrandbits(self, k: int) -> int:
                return rng.ctx.ch.bits(k, "rng.getrandbits")

            def choice(self, seq: Any) -> Any:
                return seq[rng.ctx.ch.draw(len(seq), "rng.choice")]

        return _SimSystemRandom()

    # -- install / restore --------------------------------------------------
    def install(self) -> None:
        secrets.randbelow = self.randbelow  # type: ignore[assignment]
        secrets.randbits = self.randbits  # type: ignore[assignment]
        secrets.token_bytes = self.token_bytes  # type: ignore[assignment]
        secrets.SystemRandom = self.system_random  # type: ignore[assignment,misc]
        secrets.choice = lambda seq: seq[self.ctx.ch.draw(len(seq), "rng.choice")]  # type: ignore[assignment]
        self.installed = True

    def restore(self) -> None:
        for k, v in _REAL.items():
            setattr(secrets, k, v)
        self.installed = False
