"""Process-wide mutable state of btclib behind the simulator: the backend
switch and every cache. Every run starts from the same process state.
"""

from __future__ import annotations

import functools
import importlib
import pkgutil
import sys
from typing import Any, Callable

import btclib
from btclib.curves import curve as _curve

_BINDINGS_INSTALLED = bool(getattr(_curve, "_bindings_installed", False))
_INITIAL_SERVING = bool(getattr(_curve, "_libsecp256k1_available", False))


def bindings_installed() -> bool:
    return _BINDINGS_INSTALLED


def set_backend(serving: bool) -> bool:
    """Set the switch through the public API. Returns what is now served."""
    if serving and not _BINDINGS_INSTALLED:
        return False
    from btclib.curves import set_libsecp256k1_serving  # noqa: PLC0415

    set_libsecp256k1_serving(serving=serving)
    return serving


def backend() -> bool:
    from btclib.curves import is_libsecp256k1_serving  # noqa: PLC0415

    return bool(is_libsecp256k1_serving())


# -- caches -----------------------------------------------------------------
_DISCOVERED: list[tuple[str, str, Any]] | None = None


def import_all() -> None:
    for m in pkgutil.walk_packages(btclib.__path__, "btclib."):
        if ".fetch" in m.name or m.name.endswith(".hwi"):
            continue
        try:
            importlib.import_module(m.name)
        except Exception:  # noqa: BLE001, S112
            continue


def discover_caches() -> list[tuple[str, str, Any]]:
    """Every module-level object in a btclib module with ``cache_clear``.

    Sorted by (module, name): no dependence on dict order or hash seed.
    Deduplicated by identity (a cache imported by name elsewhere is the
    same object).
    """
    global _DISCOVERED  # noqa: PLW0603
    if _DISCOVERED is not None:
        return _DISCOVERED
    import_all()
    found: list[tuple[str, str, Any]] = []
    seen: set[int] = set()
    for modname in sorted(sys.modules):
        if not modname.startswith("btclib.") and modname != "btclib":
            continue
        mod = sys.modules[modname]
        for name in sorted(vars(mod)):
            obj = vars(mod)[name]
            if callable(obj) and hasattr(obj, "cache_clear") and hasattr(obj, "__wrapped__"):
                if id(obj) in seen:
                    continue
                # home module only
                if getattr(obj, "__module__", modname) != modname:
                    continue
                seen.add(id(obj))
                found.append((modname, name, obj))
    _DISCOVERED = found
    return found


_MEMO_DICTS: list[tuple[str, str, dict[Any, Any]]] | None = None


def discover_memo_dicts() -> list[tuple[str, str, dict[Any, Any]]]:
    """Hand-rolled memos: module-level dicts of btclib that are EMPTY once everything is imported and
    that calls fill later (today: ecc.ellswift._CONSTANTS; any private name, either case). Clearing one between runs is a cold start;
    they are never cleared while simulated threads run (a check-then-act on a memo that only grows is
    safe, and a concurrent clear would break code that holds)."""
    global _MEMO_DICTS  # noqa: PLW0603
    if _MEMO_DICTS is not None:
        return _MEMO_DICTS
    discover_caches()  # imports everything first
    found = []
    for modname in sorted(sys.modules):
        if not modname.startswith("btclib."):
            continue
        mod = sys.modules[modname]
        for name in sorted(vars(mod)):
            obj = vars(mod)[name]
            if type(obj) is dict and not obj and name.startswith("_") and not name.startswith("__"):
                found.append((modname, name, obj))
    _MEMO_DICTS = found
    return found


_HOT: frozenset[Any] | None = None


def hot_codes() -> frozenset[Any]:
    """Code objects of btclib functions that touch state shared between callers without a lock: a function that
    names a hand-rolled memo dict of its module (discover_memo_dicts), and a function outside object construction
    that stores a private attribute (a lazily filled per-object cache, a wipe) or stores into a subscript after loading one
    (a table filled in place, `self._words[lang] = ...`). The thread scheduler's rendezvous
    strategy parks a thread inside one of these until another thread has passed through one."""
    global _HOT  # noqa: PLW0603
    if _HOT is not None:
        return _HOT
    import dis  # noqa: PLC0415
    import types  # noqa: PLC0415

    memo_names: dict[str, set[str]] = {}
    for modname, name, _ in discover_memo_dicts():
        memo_names.setdefault(modname, set()).add(name)
    skip = {"__init__", "__post_init__", "__setattr__", "__setstate__", "__new__", "_no_init_or_replace_init"}
    found = set()
    for modname in sorted(sys.modules):
        if not modname.startswith("btclib"):
            continue
        mod = sys.modules[modname]
        for name in sorted(vars(mod)):
            obj = vars(mod)[name]
            fns: list[Any] = []
            if isinstance(obj, types.FunctionType) and obj.__module__ == modname:
                fns = [obj]
            elif isinstance(obj, type) and obj.__module__ == modname:
                fns = [v for _, v in sorted(vars(obj).items()) if isinstance(v, types.FunctionType)]
            for f in fns:
                if f.__name__ in skip:
                    continue
                code = f.__code__
                if memo_names.get(modname, set()) & set(code.co_names):
                    found.add(code)
                    continue
                private_loaded = False
                for ins in dis.get_instructions(code):
                    if ins.opname == "STORE_ATTR" and str(ins.argval).startswith("_") and not str(ins.argval).startswith("__"):
                        found.add(code)
                        break
                    # ... or fills one in place: `self._table[key] = value` stores no attribute, and is the same publication
                    if ins.opname == "LOAD_ATTR" and str(ins.argval).startswith("_") and not str(ins.argval).startswith("__"):
                        private_loaded = True
                    if ins.opname in ("STORE_SUBSCR", "DELETE_SUBSCR") and private_loaded:
                        found.add(code)
                        break
    _HOT = frozenset(found)
    return _HOT


def clear_all_caches(*, memos: bool = False) -> int:
    """Clear every lru_cache (safe at any instant: lru_cache is internally consistent).
    ``memos=True`` also clears the hand-rolled memo dicts: between runs only."""
    n = 0
    for _, _, obj in discover_caches():
        obj.cache_clear()
        n += 1
    if memos:
        for _, _, d in discover_memo_dicts():
            d.clear()
            n += 1
    return n


def clear_cache(i: int) -> str:
    caches = discover_caches()
    if not caches:
        return "none"
    mod, name, obj = caches[i % len(caches)]
    obj.cache_clear()
    return f"{mod}.{name}"


def discover_memo_bounds() -> list[tuple[Any, str, int]]:
    """The size bound of a hand-rolled memo, where it is a private module-level int named after the memo:
    for a memo dict `_X` of module M, an int of M whose name holds MAX and the stem of X (`_MAX_X`, `_X_MAX`,
    `_MAX_X_SIZE` ...). None exists on the pinned tree; a change that bounds a memo by hand gets its eviction
    path exercised the way a shrunk lru_cache does."""
    found: list[tuple[Any, str, int]] = []
    for modname, dict_name, _ in discover_memo_dicts():
        mod = sys.modules[modname]
        stem = dict_name.strip("_").upper()
        for name in sorted(vars(mod)):
            value = vars(mod)[name]
            if type(value) is int and name.startswith("_") and "MAX" in name.upper() and stem and stem in name.upper():
                found.append((mod, name, value))
    return found


class ShrunkCaches:
    """Re-wrap every discovered cache with a tiny maxsize so that eviction
    paths run; every module namespace holding the original is re-pointed;
    the bound of a hand-rolled memo (discover_memo_bounds) is lowered to the
    same size; restored on exit."""

    def __init__(self, maxsize: int) -> None:
        self.maxsize = maxsize
        self._undo: list[tuple[Any, str, Any]] = []
        self.new: list[Any] = []

    def __enter__(self) -> ShrunkCaches:
        for mod, name, value in discover_memo_bounds():
            self._undo.append((mod, name, value))
            setattr(mod, name, max(1, min(value, self.maxsize)))
        if discover_memo_bounds():
            # a memo holding more than its (lowered) bound is a state no history reaches: it keeps its latest
            # entries, as many as the bound allows, so that the next call on another key is a miss at the bound
            for _, _, d in discover_memo_dicts():
                for k in list(d)[: max(0, len(d) - max(1, self.maxsize))]:
                    del d[k]
        for _, _, obj in discover_caches():
            small = functools.lru_cache(maxsize=self.maxsize)(obj.__wrapped__)
            self.new.append(small)
            for modname in sorted(sys.modules):
                if not modname.startswith("btclib"):
                    continue
                mod = sys.modules[modname]
                for name in sorted(vars(mod)):
                    if vars(mod)[name] is obj:
                        self._undo.append((mod, name, obj))
                        setattr(mod, name, small)
        return self

    def __exit__(self, *exc: object) -> None:
        for mod, name, obj in self._undo:
            setattr(mod, name, obj)
        self._undo.clear()

    def clear(self) -> None:
        for c in self.new:
            c.cache_clear()


def reset_process_state(serving: bool | None = None) -> None:
    """What every run starts from: cold caches, the switch where asked."""
    clear_all_caches(memos=True)
    set_backend(_INITIAL_SERVING if serving is None else serving)
    # lazily-built module globals that are memo fields in disguise
    try:
        from btclib.mnemonic import mnemonic as _mn  # noqa: PLC0415

        wl = getattr(_mn, "WORDLISTS", None)
        if wl is not None and hasattr(wl, "_wordlist"):
            pass  # left warm on purpose: worlds that care build a fresh WordLists
    except Exception:  # noqa: BLE001, S110
        pass


def restore_process_state() -> None:
    set_backend(_INITIAL_SERVING)


PatchUndo = Callable[[], None]


def patch_attr(obj: Any, name: str, value: Any) -> PatchUndo:
    old = getattr(obj, name)
    setattr(obj, name, value)
    return lambda: setattr(obj, name, old)
