"""Caller streams and storage behind the simulator.

- ``SimDisk``  : name -> bytes, with durable vs. unsynced content, torn and
  lost writes, bit rot.
- ``SimFile``  : a seekable raw binary stream (``io.RawIOBase``) over bytes
  that may short-read (>= 1 byte, legal for a raw stream), raise
  ``OSError(EIO)`` on the n-th read, or end early (truncation).
- ``ChunkedFeed``: socket-style arrival of a byte string into a caller-held
  ``io.BytesIO`` in drawn segments.
- corruption helpers: bit flip, truncate, extend, splice.
"""

from __future__ import annotations

import errno
import io
from typing import Any

from btcsim.core.choices import Choices
from btcsim.core.ctx import Ctx


class SimFile(io.RawIOBase):
    def __init__(
        self,
        data: bytes,
        ctx: Ctx | None = None,
        *,
        short_reads: bool = False,
        eio_on_read: int | None = None,
        name: str = "simfile",
    ) -> None:
        super().__init__()
        self._data = bytes(data)
        self._pos = 0
        self._ctx = ctx
        self._short = short_reads
        self._eio_on = eio_on_read
        self.reads = 0
        self.bytes_read = 0
        self.max_pos = 0
        self.name = name

    def readable(self) -> bool:
        return True

    def seekable(self) -> bool:
        return True

    def tell(self) -> int:
        return self._pos

    def seek(self, offset: int, whence: int = io.SEEK_SET) -> int:
        if whence == io.SEEK_SET:
            new = offset
        elif whence == io.SEEK_CUR:
            new = self._pos + offset
        else:
            new = len(self._data) + offset
        if new < 0:
            raise OSError(errno.EINVAL, "negative seek")
        self._pos = new
        return new

    def readinto(self, b: Any) -> int:
        self.reads += 1
        if self._eio_on is not None and self.reads == self._eio_on:
            if self._ctx is not None:
                self._ctx.fault("file-eio", self.name, f"read#{self.reads}")
            raise OSError(errno.EIO, "simulated I/O error")
        want = len(b)
        avail = self._data[self._pos:self._pos + want]
        if self._short and len(avail) > 1 and self._ctx is not None:
            k = 1 + self._ctx.ch.draw(len(avail), "file.short")
            if k < len(avail):
                self._ctx.fault("file-short-read", self.name)
            avail = avail[:k]
        n = len(avail)
        b[:n] = avail
        self._pos += n
        self.bytes_read += n
        self.max_pos = max(self.max_pos, self._pos)
        return n


class SimDisk:
    """Files with a durable image and a volatile (unsynced) image."""

    def __init__(self, ctx: Ctx) -> None:
        self.ctx = ctx
        self.durable: dict[str, bytes] = {}
        self.volatile: dict[str, bytes] = {}

    def write(self, name: str, data: bytes) -> None:
        self.volatile[name] = bytes(data)

    def sync(self, name: str) -> None:
        if name in self.volatile:
            self.durable[name] = self.volatile[name]

    def read(self, name: str) -> bytes:
        if name in self.volatile:
            return self.volatile[name]
        return self.durable[name]

    def exists(self, name: str) -> bool:
        return name in self.volatile or name in self.durable

    def crash(self) -> None:
        """Power loss: every unsynced write is lost, kept or torn, by draw."""
        ch = self.ctx.ch
        for name in sorted(self.volatile):
            new = self.volatile[name]
            if self.durable.get(name) == new:
                continue
            k = ch.draw(3, "disk.crash")
            if k == 0:
                self.ctx.fault("lost-write", name)
            elif k == 1:
                self.durable[name] = new
            else:
                cut = ch.draw(len(new) + 1, "disk.tear")
                self.durable[name] = new[:cut]
                self.ctx.fault("torn-write", name, f"{cut}/{len(new)}")
        self.volatile = {}

    def rot(self, name: str) -> None:
        data = bytearray(self.read(name))
        if not data:
            return
        i = self.ctx.ch.draw(len(data) * 8, "disk.rot")
        data[i // 8] ^= 1 << (i % 8)
        self.durable[name] = bytes(data)
        self.volatile.pop(name, None)
        self.ctx.fault("bit-rot", name, i)

    def open(self, name: str, **faults: Any) -> SimFile:
        return SimFile(self.read(name), self.ctx, name=name, **faults)


class ChunkedFeed:
    """Deliver ``data`` into ``stream`` (a BytesIO the receiver holds) in
    drawn segments, keeping the receiver's read position where it left it."""

    def __init__(self, ctx: Ctx, data: bytes, stream: io.BytesIO, boundaries: list[int] | None = None) -> None:
        self.ctx = ctx
        self.data = data
        self.stream = stream
        self.sent = 0
        self.boundaries = boundaries or []

    def remaining(self) -> int:
        return len(self.data) - self.sent

    def feed(self, at_least: int = 1) -> int:
        """Append the next segment; returns its size (0 at end of data)."""
        left = self.remaining()
        if left <= 0:
            return 0
        ch = self.ctx.ch
        kind = ch.draw(5, "feed.kind")
        if kind == 0:
            n = 1
        elif kind == 1:
            n = min(left, at_least)
        elif kind == 2 and self.boundaries:
            # up to one byte around a message/header boundary
            nxt = [b for b in self.boundaries if b > self.sent]
            target = (nxt[0] if nxt else len(self.data)) + ch.draw(3, "feed.off") - 1
            n = max(1, min(left, target - self.sent))
        elif kind == 3:
            n = left
        else:
            n = 1 + ch.draw(left, "feed.n")
        n = max(1, min(left, n))
        pos = self.stream.tell()
        self.stream.seek(0, io.SEEK_END)
        self.stream.write(self.data[self.sent:self.sent + n])
        self.stream.seek(pos)
        self.sent += n
        return n


# -- corruption of byte strings ---------------------------------------------------
def corrupt_bytes(ch: Choices, data: bytes, kinds: tuple[str, ...] = ("flip", "truncate", "extend", "splice", "zero", "ff")) -> tuple[bytes, str]:
    """One drawn corruption. Returns (new bytes, description)."""
    kind = ch.pick(list(kinds), "corrupt.kind")
    b = bytearray(data)
    if kind == "flip" and b:
        i = ch.draw(len(b) * 8, "corrupt.bit")
        b[i // 8] ^= 1 << (i % 8)
        return bytes(b), f"flip bit {i}"
    if kind == "truncate" and b:
        cut = ch.draw(len(b), "corrupt.cut")
        return bytes(b[:cut]), f"truncate to {cut}"
    if kind == "extend":
        extra = ch.nbytes(1 + ch.draw(4, "corrupt.nextra"), "corrupt.extra")
        return bytes(b) + extra, f"extend by {len(extra)}"
    if kind == "splice" and len(b) >= 2:
        i = ch.draw(len(b), "corrupt.i")
        j = ch.draw(len(b), "corrupt.j")
        n = 1 + ch.draw(min(8, len(b)), "corrupt.n")
        b[i:i + n] = b[j:j + n]
        return bytes(b), f"splice {n}@{j}->{i}"
    if kind in ("zero", "ff") and b:
        i = ch.draw(len(b), "corrupt.i")
        n = 1 + ch.draw(min(4, len(b) - i), "corrupt.n")
        b[i:i + n] = (b"\x00" if kind == "zero" else b"\xff") * n
        return bytes(b), f"{kind} {n}@{i}"
    if b:
        i = ch.draw(len(b) * 8, "corrupt.bit")
        b[i // 8] ^= 1 << (i % 8)
        return bytes(b), f"flip bit {i}"
    return b"\x00", "one byte where none was"
