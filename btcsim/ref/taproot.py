"""Reference BIP341 output key: tagged hashes and naive affine secp256k1.

Transcribed from BIP340/BIP341's reference code; imports nothing from
btclib. A tree is a leaf `(leaf_version, script_bytes)` or a pair of trees.
"""

from __future__ import annotations

import hashlib
from typing import Any

P = 0xFFFFFFFFFFFFFFFFFFFFFFFFFFFFFFFFFFFFFFFFFFFFFFFFFFFFFFFEFFFFFC2F
N = 0xFFFFFFFFFFFFFFFFFFFFFFFFFFFFFFFEBAAEDCE6AF48A03BBFD25E8CD0364141
G = (
    0x79BE667EF9DCBBAC55A06295CE870B07029BFCDB2DCE28D959F2815B16F81798,
    0x483ADA7726A3C4655DA4FBFC0E1108A8FD17B448A68554199C47D08FFB10D4B8,
)
Point = tuple[int, int] | None


def tagged_hash(tag: str, msg: bytes) -> bytes:
    t = hashlib.sha256(tag.encode()).digest()
    return hashlib.sha256(t + t + msg).digest()


def add(a: Point, b: Point) -> Point:
    if a is None:
        return b
    if b is None:
        return a
    if a[0] == b[0] and (a[1] + b[1]) % P == 0:
        return None
    if a == b:
        lam = 3 * a[0] * a[0] * pow(2 * a[1], -1, P) % P
    else:
        lam = (b[1] - a[1]) * pow(b[0] - a[0], -1, P) % P
    x = (lam * lam - a[0] - b[0]) % P
    return (x, (lam * (a[0] - x) - a[1]) % P)


def mult(k: int, pt: Point = G) -> Point:
    r: Point = None
    while k:
        if k & 1:
            r = add(r, pt)
        pt = add(pt, pt)
        k >>= 1
    return r


def lift_x(x: int) -> Point:
    if x >= P:
        return None
    c = (pow(x, 3, P) + 7) % P
    y = pow(c, (P + 1) // 4, P)
    if y * y % P != c:
        return None
    return (x, y if y % 2 == 0 else P - y)


def ser_script(script: bytes) -> bytes:
    n = len(script)
    if n < 0xFD:
        return bytes([n]) + script
    if n <= 0xFFFF:
        return b"\xfd" + n.to_bytes(2, "little") + script
    return b"\xfe" + n.to_bytes(4, "little") + script


def leaf_hash(version: int, script: bytes) -> bytes:
    return tagged_hash("TapLeaf", bytes([version & 0xFE]) + ser_script(script))


def merkle_root(tree: Any) -> bytes:
    if isinstance(tree[0], int):
        return leaf_hash(tree[0], tree[1])
    left, right = merkle_root(tree[0]), merkle_root(tree[1])
    if right < left:
        left, right = right, left
    return tagged_hash("TapBranch", left + right)


def output_key(internal_x: bytes, tree: Any | None) -> tuple[bytes, int]:
    """(x-only output key, parity of its y) of an x-only internal key and a tree (None: key path only)."""
    h = b"" if tree is None else merkle_root(tree)
    t = int.from_bytes(tagged_hash("TapTweak", internal_x + h), "big")
    lifted = lift_x(int.from_bytes(internal_x, "big"))
    if t >= N or lifted is None:
        raise ValueError("no output key")
    q = add(lifted, mult(t))
    assert q is not None
    return q[0].to_bytes(32, "big"), q[1] & 1


def output_prvkey(d: int, tree: Any | None) -> int:
    """The private key of the output key, from the internal private key."""
    pt = mult(d)
    assert pt is not None
    if pt[1] & 1:
        d = N - d
    h = b"" if tree is None else merkle_root(tree)
    t = int.from_bytes(tagged_hash("TapTweak", pt[0].to_bytes(32, "big") + h), "big")
    return (d + t) % N
