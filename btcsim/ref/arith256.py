"""Reference for Bitcoin Core's arith_uint256 compact codec, retarget and work.

Transcribed from arith_uint256.cpp (SetCompact / GetCompact), pow.cpp
(CalculateNextWorkRequired, mainnet rules) and chain.cpp (GetBlockProof),
with C++'s fixed-width semantics written out: every arith_uint256 value is
reduced modulo 2^256, nCompact is a uint32. Independent of btclib.
"""

from __future__ import annotations

M256 = (1 << 256) - 1
TARGET_TIMESPAN = 14 * 24 * 60 * 60


def set_compact(compact: int) -> tuple[int, bool, bool]:
    """(value mod 2^256, fNegative, fOverflow)."""
    size = compact >> 24
    word = compact & 0x007FFFFF
    if size <= 3:
        word >>= 8 * (3 - size)
        value = word
    else:
        value = (word << (8 * (size - 3))) & M256
    negative = word != 0 and (compact & 0x00800000) != 0
    overflow = word != 0 and (size > 34 or (word > 0xFF and size > 33) or (word > 0xFFFF and size > 32))
    return value, negative, overflow


def get_compact(value: int) -> int:
    size = (value.bit_length() + 7) // 8
    if size <= 3:
        compact = (value & 0xFFFFFFFFFFFFFFFF) << (8 * (3 - size))
    else:
        compact = (value >> (8 * (size - 3))) & 0xFFFFFFFFFFFFFFFF
    compact &= 0xFFFFFFFF
    if compact & 0x00800000:
        compact >>= 8
        size += 1
    assert compact & ~0x007FFFFF == 0 and size < 256
    return compact | (size << 24)


def next_work_required(bits: int, actual_timespan: int, pow_limit: int) -> int:
    """CalculateNextWorkRequired; the timespan is an int64 difference of times."""
    if actual_timespan < TARGET_TIMESPAN // 4:
        actual_timespan = TARGET_TIMESPAN // 4
    if actual_timespan > TARGET_TIMESPAN * 4:
        actual_timespan = TARGET_TIMESPAN * 4
    new = set_compact(bits)[0]
    new = (new * actual_timespan) & M256
    new //= TARGET_TIMESPAN
    if new > pow_limit:
        new = pow_limit
    return get_compact(new)


def block_proof(bits: int) -> int:
    target, negative, overflow = set_compact(bits)
    if negative or overflow or target == 0:
        return 0
    return ((~target & M256) // (target + 1)) + 1
