"""Reference arithmetic for fees and dust: integers only, nothing from btclib.

Transcribed from Bitcoin Core's policy: `CFeeRate::GetFee` (ceiling
division of sat/kvB * vsize by 1000) and `GetDustThreshold` (the output
itself plus the input that will spend it, priced at the dust relay rate).
"""

from __future__ import annotations

DUST_RELAY_SATS_PER_KVB = 3000


def ceil_fee(sats_per_kvb: int, vsize: int) -> int:
    return -(-sats_per_kvb * vsize // 1000)


def ceil_div4(weight: int) -> int:
    return -(-weight // 4)


def compact_size_len(n: int) -> int:
    return 1 if n < 0xFD else 3 if n <= 0xFFFF else 5 if n <= 0xFFFFFFFF else 9


def is_witness_program(script: bytes) -> bool:
    """BIP141: a version op code (OP_0, OP_1..OP_16) and one push of 2..40 bytes."""
    if not 4 <= len(script) <= 42:
        return False
    if script[0] != 0 and not 0x51 <= script[0] <= 0x60:
        return False
    return script[1] == len(script) - 2


def dust_threshold(script: bytes, sats_per_kvb: int = DUST_RELAY_SATS_PER_KVB) -> int:
    if script[:1] == b"\x6a" or len(script) > 10_000:
        return 0
    size = 8 + compact_size_len(len(script)) + len(script)
    size += (32 + 4 + 1 + 107 // 4 + 4) if is_witness_program(script) else (32 + 4 + 1 + 107 + 4)
    return ceil_fee(sats_per_kvb, size)
