"""Reference BIP158 basic filter: SipHash-2-4 and a Golomb-Rice coded set.

SipHash transcribed from the SipHash paper (Aumasson, Bernstein), the set
from BIP158's pseudo-code, working on a '0'/'1' string so that nothing is
shared with btclib's bit reader/writer. Independent of btclib: hashlib only.
Hashes are taken in *display* order (as BlockHeader.hash gives them) where
the name says so.
"""

from __future__ import annotations

import hashlib

M64 = (1 << 64) - 1
P = 19
M = 784931


def _rotl(x: int, b: int) -> int:
    return ((x << b) | (x >> (64 - b))) & M64


def siphash24(k0: int, k1: int, data: bytes) -> int:
    v = [k0 ^ 0x736F6D6570736575, k1 ^ 0x646F72616E646F6D, k0 ^ 0x6C7967656E657261, k1 ^ 0x7465646279746573]

    def rounds(n: int) -> None:
        for _ in range(n):
            v[0] = (v[0] + v[1]) & M64
            v[2] = (v[2] + v[3]) & M64
            v[1] = _rotl(v[1], 13) ^ v[0]
            v[3] = _rotl(v[3], 16) ^ v[2]
            v[0] = _rotl(v[0], 32)
            v[2] = (v[2] + v[1]) & M64
            v[0] = (v[0] + v[3]) & M64
            v[1] = _rotl(v[1], 17) ^ v[2]
            v[3] = _rotl(v[3], 21) ^ v[0]
            v[2] = _rotl(v[2], 32)

    tail = len(data) % 8
    body = data[: len(data) - tail]
    last = data[len(data) - tail:] + bytes(7 - tail) + bytes([len(data) & 0xFF])
    for off in range(0, len(body) + 8, 8):
        m = int.from_bytes((body + last)[off:off + 8], "little")
        v[3] ^= m
        rounds(2)
        v[0] ^= m
    v[2] ^= 0xFF
    rounds(4)
    return v[0] ^ v[1] ^ v[2] ^ v[3]


def varint(n: int) -> bytes:
    if n < 0xFD:
        return bytes([n])
    if n <= 0xFFFF:
        return b"\xfd" + n.to_bytes(2, "little")
    if n <= 0xFFFFFFFF:
        return b"\xfe" + n.to_bytes(4, "little")
    return b"\xff" + n.to_bytes(8, "little")


def key_from_block_hash(display_hash: bytes) -> tuple[int, int]:
    internal = display_hash[::-1]
    return int.from_bytes(internal[:8], "little"), int.from_bytes(internal[8:16], "little")


def hashed_set(display_hash: bytes, elements: set[bytes]) -> list[int]:
    k0, k1 = key_from_block_hash(display_hash)
    f = len(elements) * M
    return sorted((siphash24(k0, k1, e) * f) >> 64 for e in elements)


def encode(values: list[int]) -> bytes:
    bits = []
    last = 0
    for v in values:
        d = v - last
        last = v
        bits.append("1" * (d >> P) + "0" + format(d & ((1 << P) - 1), f"0{P}b"))
    s = "".join(bits)
    s += "0" * (-len(s) % 8)
    return bytes(int(s[i:i + 8], 2) for i in range(0, len(s), 8))


def decode(n: int, data: bytes) -> list[int]:
    s = "".join(format(b, "08b") for b in data)
    pos = 0
    out = []
    last = 0
    for _ in range(n):
        q = 0
        while s[pos] == "1":
            q += 1
            pos += 1
        pos += 1
        last += (q << P) + int(s[pos:pos + P], 2)
        pos += P
        out.append(last)
    return out


def basic_filter(display_hash: bytes, elements: set[bytes]) -> bytes:
    """The BIP158 serialization (count, then the coded set) of the element set."""
    return varint(len(elements)) + encode(hashed_set(display_hash, elements))


def filter_hash(filter_bytes: bytes) -> bytes:
    """Display order."""
    return hashlib.sha256(hashlib.sha256(filter_bytes).digest()).digest()[::-1]


def filter_header(display_filter_hash: bytes, display_previous: bytes) -> bytes:
    """Display order in, display order out."""
    pre = display_filter_hash[::-1] + display_previous[::-1]
    return hashlib.sha256(hashlib.sha256(pre).digest()).digest()[::-1]
