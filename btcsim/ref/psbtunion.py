"""Reference Combiner: the per-map union of BIP174 key-value pairs.

BIP174, "Combiner": "The resulting PSBT must contain all of the key-value
pairs from each of the PSBTs." Over the maps `psbtmap.split` cuts the
operands' serializations into, that is: map n of the result holds, for
every key any operand's map n holds, that key -- with the one value where
the operands agree, with one of theirs where they do not. Knows no role
and no version; the two facts about key *types* it is told from outside
are which pairs to leave out of the comparison (``ignore``) and which
input types a finalized input stops serializing (``FINALIZER_CLEARS``,
BIP174 "Input Finalizer": "All other data except the UTXO and unknown
fields in the input key-value map should be cleared").

Imports nothing from btclib.
"""

from __future__ import annotations

from btcsim.ref.psbtmap import split

MapKey = tuple[int, bytes]  # (map number: 0 global, then inputs, then outputs; whole key)

# input key types BIP174/371/373 define as inputs to signing: gone from the serialization of an input
# that carries PSBT_IN_FINAL_SCRIPTSIG (0x07) or PSBT_IN_FINAL_SCRIPTWITNESS (0x08)
FINALIZER_CLEARS = frozenset([*range(0x02, 0x07), *range(0x0A, 0x0E), *range(0x13, 0x19), *range(0x1A, 0x1D)])
FINAL_TYPES = frozenset([0x07, 0x08])


class NotOnePsbt(ValueError):
    """The operands do not have the same number of maps."""


def union(operands: list[bytes], ignore: frozenset[MapKey] = frozenset()) -> dict[MapKey, set[bytes]]:
    """(map, key) -> the set of values the operands give it."""
    out: dict[MapKey, set[bytes]] = {}
    count = None
    for data in operands:
        maps = split(data)
        if count is not None and len(maps) != count:
            raise NotOnePsbt(f"{len(maps)} maps vs {count}")
        count = len(maps)
        for n, pairs in enumerate(maps):
            for p in pairs:
                if (n, p.key) not in ignore:
                    out.setdefault((n, p.key), set()).add(p.value)
    return out


def conflicts(u: dict[MapKey, set[bytes]]) -> list[MapKey]:
    """The keys carrying two different values."""
    return sorted(k for k, values in u.items() if len(values) > 1)


def finalized_inputs(operands: list[bytes], n_inputs: int) -> set[int]:
    """Map numbers of the inputs some operand carries a final script for."""
    done: set[int] = set()
    for data in operands:
        for n, pairs in enumerate(split(data)[1:1 + n_inputs], start=1):
            if any(p.key[:1] and p.key[0] in FINAL_TYPES for p in pairs):
                done.add(n)
    return done


def compare(result: bytes, operands: list[bytes], ignore: frozenset[MapKey] = frozenset(), n_inputs: int = 0) -> tuple[list[MapKey], list[MapKey], list[MapKey]]:
    """(lost, altered, invented) of ``result`` against the union of ``operands``.

    lost: a key some operand carries and the result does not; altered: a key the result carries with a
    value no operand gave it; invented: a key no operand carries. With ``n_inputs`` given, what the
    Finalizer clears is not expected of an input some operand finalized.
    """
    want = union(operands, ignore)
    got = union([result], ignore)
    done = finalized_inputs([*operands, result], n_inputs) if n_inputs else set()
    cleared = {k for k in want if k[0] in done and k[1][:1] and k[1][0] in FINALIZER_CLEARS}
    lost = sorted(k for k in want if k not in got and k not in cleared)
    altered = sorted(k for k in got if k in want and not got[k] <= want[k])
    invented = sorted(k for k in got if k not in want)
    return lost, altered, invented
