"""Signature-hash preimages transcribed from the texts that define them:
Satoshi's SignatureHash (legacy), BIP143 and BIP341/342. hashlib only; the
transaction is read through its fields (version, lock time, outpoints,
sequences, values, scripts), never through the library's serializers.

Used as sampled evidence by W5 (C09): the library's direct digest equals
the transcription -- for the ceremony's transactions, every hash type, and
for taproot with and without an annex. OP_CODESEPARATOR removal from a legacy
script code is `without_codeseparators` (an opcode walk: 0xab inside pushed
data stays); FindAndDelete of the signature is not handled (the ceremony's
script codes never contain their own signatures).
"""

from __future__ import annotations

import hashlib
from typing import Any

ALL, NONE, SINGLE, ANYONECANPAY = 1, 2, 3, 0x80


def _sha(b: bytes) -> bytes:
    return hashlib.sha256(b).digest()


def _dsha(b: bytes) -> bytes:
    return _sha(_sha(b))


def _cs(n: int) -> bytes:
    if n < 0xFD:
        return bytes([n])
    if n <= 0xFFFF:
        return b"\xfd" + n.to_bytes(2, "little")
    if n <= 0xFFFFFFFF:
        return b"\xfe" + n.to_bytes(4, "little")
    return b"\xff" + n.to_bytes(8, "little")


def _vb(b: bytes) -> bytes:
    return _cs(len(b)) + b


def _outpoint(txin: Any) -> bytes:
    return bytes(txin.prev_out.tx_id)[::-1] + txin.prev_out.vout.to_bytes(4, "little")


def _script(out: Any) -> bytes:
    spk = out.script_pub_key
    return bytes(getattr(spk, "script", spk))


def _txout(out: Any) -> bytes:
    return out.value.to_bytes(8, "little", signed=True) + _vb(_script(out))


def tagged(tag: bytes, data: bytes) -> bytes:
    t = _sha(tag)
    return _sha(t + t + data)


def bip341(tx: Any, i: int, spent: list[Any], hash_type: int, ext_flag: int, annex: bytes, ext: bytes) -> bytes:
    """BIP341 "Common signature message", with BIP342's extension appended when ext_flag is 1."""
    base = hash_type & 3
    acp = hash_type & ANYONECANPAY
    msg = bytes([hash_type]) + (tx.version & 0xFFFFFFFF).to_bytes(4, "little") + tx.lock_time.to_bytes(4, "little")
    if not acp:
        msg += _sha(b"".join(_outpoint(v) for v in tx.vin))
        msg += _sha(b"".join(o.value.to_bytes(8, "little") for o in spent))
        msg += _sha(b"".join(_vb(_script(o)) for o in spent))
        msg += _sha(b"".join(v.sequence.to_bytes(4, "little") for v in tx.vin))
    if base not in (NONE, SINGLE):
        msg += _sha(b"".join(_txout(o) for o in tx.vout))
    msg += bytes([ext_flag * 2 + (1 if annex else 0)])
    if acp:
        msg += _outpoint(tx.vin[i]) + spent[i].value.to_bytes(8, "little") + _vb(_script(spent[i])) + tx.vin[i].sequence.to_bytes(4, "little")
    else:
        msg += i.to_bytes(4, "little")
    if annex:
        msg += _sha(_vb(annex))
    if base == SINGLE:
        msg += _sha(_txout(tx.vout[i]))
    return tagged(b"TapSighash", b"\x00" + msg + ext)


def bip143(script_code: bytes, tx: Any, i: int, hash_type: int, amount: int) -> bytes:
    base = hash_type & 0x1F
    acp = hash_type & ANYONECANPAY
    zero = bytes(32)
    prevouts = zero if acp else _dsha(b"".join(_outpoint(v) for v in tx.vin))
    sequences = zero if acp or base in (NONE, SINGLE) else _dsha(b"".join(v.sequence.to_bytes(4, "little") for v in tx.vin))
    if base not in (NONE, SINGLE):
        outputs = _dsha(b"".join(_txout(o) for o in tx.vout))
    elif base == SINGLE and i < len(tx.vout):
        outputs = _dsha(_txout(tx.vout[i]))
    else:
        outputs = zero
    pre = (tx.version & 0xFFFFFFFF).to_bytes(4, "little") + prevouts + sequences + _outpoint(tx.vin[i]) + _vb(script_code) + amount.to_bytes(8, "little")
    pre += tx.vin[i].sequence.to_bytes(4, "little") + outputs + tx.lock_time.to_bytes(4, "little") + hash_type.to_bytes(4, "little")
    return _dsha(pre)


def without_codeseparators(script: bytes) -> bytes:
    """The script with every OP_CODESEPARATOR opcode removed; 0xab bytes inside pushed data are data."""
    out, k = b"", 0
    while k < len(script):
        op = script[k]
        if op < 0x4C:
            size, head = op, 1
        elif op == 0x4C:
            size, head = (script[k + 1] if k + 1 < len(script) else 0), 2
        elif op == 0x4D:
            size, head = int.from_bytes(script[k + 1 : k + 3], "little"), 3
        elif op == 0x4E:
            size, head = int.from_bytes(script[k + 1 : k + 5], "little"), 5
        else:
            size, head = 0, 1
        if op != 0xAB:
            out += script[k : k + head + size]
        k += head + size
    return out


def legacy(script_code: bytes, tx: Any, i: int, hash_type: int) -> bytes:
    """Satoshi's SignatureHash, OP_CODESEPARATORs removed from the script code first."""
    script_code = without_codeseparators(script_code)
    base = hash_type & 0x1F
    acp = hash_type & ANYONECANPAY
    if base == SINGLE and i >= len(tx.vout):
        return b"\x01" + bytes(31)
    ins = []
    for k, v in enumerate(tx.vin):
        if acp and k != i:
            continue
        sequence = v.sequence if k == i or base not in (NONE, SINGLE) else 0
        ins.append(_outpoint(v) + _vb(script_code if k == i else b"") + sequence.to_bytes(4, "little"))
    if base == NONE:
        outs = []
    elif base == SINGLE:
        outs = [(0xFFFFFFFFFFFFFFFF).to_bytes(8, "little") + _vb(b"")] * i + [_txout(tx.vout[i])]
    else:
        outs = [_txout(o) for o in tx.vout]
    pre = (tx.version & 0xFFFFFFFF).to_bytes(4, "little") + _cs(len(ins)) + b"".join(ins) + _cs(len(outs)) + b"".join(outs)
    pre += tx.lock_time.to_bytes(4, "little") + hash_type.to_bytes(4, "little")
    return _dsha(pre)
