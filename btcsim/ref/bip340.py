"""Reference BIP340 sign / verify on secp256k1, transcribed from the BIP.

Independent of btclib: hashlib and the naive affine law of ``ref.ec`` only.
"""

from __future__ import annotations

import hashlib

from btcsim.ref.ec import SECP256K1 as EC
from btcsim.ref.ec import Point

p = EC.p
n = EC.n
G = EC.G


def tagged_hash(tag: str, msg: bytes) -> bytes:
    t = hashlib.sha256(tag.encode()).digest()
    return hashlib.sha256(t + t + msg).digest()


def _b(x: int) -> bytes:
    return x.to_bytes(32, "big")


def _i(b: bytes) -> int:
    return int.from_bytes(b, "big")


def lift_x(x: int) -> Point:
    return EC.lift_x(x, even=True)


def pubkey_gen(seckey: int) -> bytes:
    if not 1 <= seckey <= n - 1:
        raise ValueError("secret key out of range")
    P = EC.mul(seckey, G)
    assert P is not None
    return _b(P[0])


def sign(msg: bytes, seckey: int, aux: bytes) -> bytes:
    """BIP340 default signing: any message length, 32-byte aux."""
    if not 1 <= seckey <= n - 1:
        raise ValueError("secret key out of range")
    if len(aux) != 32:
        raise ValueError("aux must be 32 bytes")
    P = EC.mul(seckey, G)
    assert P is not None
    d = seckey if P[1] % 2 == 0 else n - seckey
    t = (d ^ _i(tagged_hash("BIP0340/aux", aux))).to_bytes(32, "big")
    k0 = _i(tagged_hash("BIP0340/nonce", t + _b(P[0]) + msg)) % n
    if k0 == 0:
        raise ValueError("zero nonce")
    R = EC.mul(k0, G)
    assert R is not None
    k = k0 if R[1] % 2 == 0 else n - k0
    e = _i(tagged_hash("BIP0340/challenge", _b(R[0]) + _b(P[0]) + msg)) % n
    return _b(R[0]) + _b((k + e * d) % n)


def verify(msg: bytes, pubkey: bytes, sig: bytes) -> bool:
    if len(pubkey) != 32 or len(sig) != 64:
        return False
    P = lift_x(_i(pubkey))
    r = _i(sig[:32])
    s = _i(sig[32:])
    if P is None or r >= p or s >= n:
        return False
    e = _i(tagged_hash("BIP0340/challenge", sig[:32] + pubkey + msg)) % n
    R = EC.add(EC.mul(s, G), EC.mul(n - e, P))
    return R is not None and R[1] % 2 == 0 and R[0] == r
