"""Reference checks for mnemonic sentences, on word *indexes* and text.

Transcribed from the specifications, independent of btclib (hashlib, hmac,
unicodedata only):
- SLIP-0039's RS1024 checksum (the SLIP's own pseudo-code);
- BIP39's checksum ("first ENT/32 bits of SHA256(ENT)") and PBKDF2 seed;
- Electrum's normalize_text / seed version prefix / PBKDF2 seed;
- BIP32's master key and BIP85's entropy HMACs.
"""

from __future__ import annotations

import hashlib
import hmac
import unicodedata

_GEN = (0xE0E040, 0x1C1C080, 0x3838100, 0x7070200, 0xE0E0009, 0x1C0C2412, 0x38086C24, 0x3090FC48, 0x21B1F890, 0x3F3F120)


def rs1024_ok(indexes: list[int]) -> bool:
    """SLIP-0039 checksum of a whole share; the customization string follows the ext flag."""
    if len(indexes) < 2:
        return False
    extendable = (indexes[1] >> 4) & 1  # bit 15 of the stream: id(15) || ext(1)
    chk = 1
    for v in [*(b"shamir_extendable" if extendable else b"shamir"), *indexes]:
        b = chk >> 20
        chk = ((chk & 0xFFFFF) << 10) ^ v
        for i in range(10):
            if (b >> i) & 1:
                chk ^= _GEN[i]
    return chk == 1


def bip39_split(indexes: list[int]) -> tuple[str, str] | None:
    """(entropy bits, checksum bits) of a BIP39 sentence, None for a length BIP39 does not define."""
    if len(indexes) not in (12, 15, 18, 21, 24):
        return None
    bits = "".join(format(i, "011b") for i in indexes)
    ent = len(bits) * 32 // 33
    return bits[:ent], bits[ent:]


def bip39_ok(indexes: list[int]) -> bool:
    parts = bip39_split(indexes)
    if parts is None:
        return False
    ent, cs = parts
    digest = hashlib.sha256(int(ent, 2).to_bytes(len(ent) // 8, "big")).digest()
    return format(int.from_bytes(digest, "big"), "0256b")[: len(cs)] == cs


def nfkd(s: str) -> str:
    return unicodedata.normalize("NFKD", s)


def bip39_seed(sentence: str, passphrase: str) -> bytes:
    """``sentence``: the words joined by single spaces."""
    return hashlib.pbkdf2_hmac("sha512", nfkd(sentence).encode(), ("mnemonic" + nfkd(passphrase)).encode(), 2048, 64)


def electrum_normalize(text: str, all_cjk: bool = False) -> str:
    """Electrum's normalize_text; ``all_cjk``: every letter is CJK, so every space goes."""
    t = nfkd(text).lower()
    t = "".join(c for c in t if not unicodedata.combining(c))
    t = " ".join(t.split())
    return t.replace(" ", "") if all_cjk else t


ELECTRUM_PREFIXES = {"standard": "01", "segwit": "100", "2fa": "101", "2fa_segwit": "102"}


def electrum_type(normalized: str, n_words: int) -> str:
    """Electrum's seed type from the version prefix alone ('' if none); 'old' seeds are not judged here."""
    v = hmac.new(b"Seed version", normalized.encode(), hashlib.sha512).hexdigest()
    for name, prefix in ELECTRUM_PREFIXES.items():
        if v.startswith(prefix) and not (name == "2fa" and n_words != 12 and n_words < 20):
            return name
    return ""


def electrum_seed(normalized_sentence: str, normalized_passphrase: str) -> bytes:
    return hashlib.pbkdf2_hmac("sha512", normalized_sentence.encode(), ("electrum" + normalized_passphrase).encode(), 2048, 64)


def bip32_master(seed: bytes) -> tuple[bytes, bytes]:
    """(private key, chain code)."""
    i = hmac.new(b"Bitcoin seed", seed, hashlib.sha512).digest()
    return i[:32], i[32:]


def bip85_entropy(child_private_key: bytes) -> bytes:
    return hmac.new(b"bip-entropy-from-k", child_private_key, hashlib.sha512).digest()


def slip39_cipher(payload: bytes, passphrase: str, exponent: int, identifier: int, extendable: bool, decrypt: bool) -> bytes:
    """SLIP-0039's four-round Feistel network, from the text: PBKDF2-HMAC-SHA256, 2500 << e iterations per round, password
    = round index || passphrase, salt = ("shamir" || identifier, or nothing for an extendable backup) || R."""
    import hashlib  # noqa: PLC0415

    salt = b"" if extendable else b"shamir" + identifier.to_bytes(2, "big")
    half = len(payload) // 2
    left, right = payload[:half], payload[half:]
    for i in (3, 2, 1, 0) if decrypt else (0, 1, 2, 3):
        f = hashlib.pbkdf2_hmac("sha256", bytes([i]) + passphrase.encode(), salt + right, 2500 << exponent, len(right))
        left, right = right, bytes(x ^ y for x, y in zip(left, f))
    return right + left
