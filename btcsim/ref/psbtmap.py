"""Reference BIP174 key-value map splitter: bytes -> list of maps.

Transcribed from BIP174's "Specification" section and nothing else:

    <psbt> := <magic> <global-map> <input-map>* <output-map>*
    <magic> := 0x70 0x73 0x62 0x74 0xFF
    <map> := <keypair>* 0x00
    <keypair> := <keylen> <key> <valuelen> <value>     (compact sizes)

It knows no key type, no role and no version: a map is the ordered list of
its ``(key, value)`` pairs, where ``key`` is the whole key (type byte and
key data). Imports nothing from btclib.
"""

from __future__ import annotations

from dataclasses import dataclass

MAGIC = b"psbt\xff"


class MalformedPsbt(ValueError):
    """The octets are not <magic> followed by whole maps."""


@dataclass(frozen=True)
class Pair:
    """One keypair and where the writer put each of its four parts."""

    key: bytes
    value: bytes
    keylen_at: int  # offset of the compact size in front of the key
    key_at: int
    vallen_at: int  # offset of the compact size in front of the value
    value_at: int

    @property
    def end(self) -> int:
        return self.value_at + len(self.value)


def _compact_size(data: bytes, at: int) -> tuple[int, int]:
    """(value, offset after it); any encoding width is read, minimal or not."""
    if at >= len(data):
        raise MalformedPsbt("truncated compact size")
    first = data[at]
    width = {0xFD: 2, 0xFE: 4, 0xFF: 8}.get(first, 0)
    if not width:
        return first, at + 1
    if at + 1 + width > len(data):
        raise MalformedPsbt("truncated compact size")
    return int.from_bytes(data[at + 1:at + 1 + width], "little"), at + 1 + width


def split_maps(data: bytes, at: int = 0) -> list[list[Pair]]:
    """Every map from offset ``at`` to the end of ``data``."""
    maps: list[list[Pair]] = []
    while at < len(data):
        pairs: list[Pair] = []
        while True:
            if at >= len(data):
                raise MalformedPsbt("unterminated map")
            if data[at] == 0:
                at += 1
                break
            keylen_at = at
            klen, key_at = _compact_size(data, at)
            if key_at + klen > len(data):
                raise MalformedPsbt("truncated key")
            vallen_at = key_at + klen
            vlen, value_at = _compact_size(data, vallen_at)
            if value_at + vlen > len(data):
                raise MalformedPsbt("truncated value")
            pairs.append(Pair(data[key_at:vallen_at], data[value_at:value_at + vlen], keylen_at, key_at, vallen_at, value_at))
            at = value_at + vlen
        maps.append(pairs)
    return maps


def split(data: bytes) -> list[list[Pair]]:
    """The maps of a whole PSBT: global first, then inputs, then outputs."""
    if data[:len(MAGIC)] != MAGIC:
        raise MalformedPsbt("missing magic")
    maps = split_maps(data, len(MAGIC))
    if not maps:
        raise MalformedPsbt("no global map")
    return maps


def assemble(maps: list[list[tuple[bytes, bytes]]], magic: bool = True) -> bytes:
    """The inverse, with minimal compact sizes: a writer for re-ordered maps."""
    out = bytearray(MAGIC if magic else b"")
    for m in maps:
        for key, value in m:
            out += _encode(len(key)) + key + _encode(len(value)) + value
        out.append(0)
    return bytes(out)


def _encode(n: int) -> bytes:
    if n < 0xFD:
        return bytes([n])
    if n <= 0xFFFF:
        return b"\xfd" + n.to_bytes(2, "little")
    if n <= 0xFFFFFFFF:
        return b"\xfe" + n.to_bytes(4, "little")
    return b"\xff" + n.to_bytes(8, "little")
