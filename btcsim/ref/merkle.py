"""Reference Bitcoin merkle tree: root, CVE-2012-2459 flag, branch.

Transcribed from Bitcoin Core's consensus/merkle.cpp (ComputeMerkleRoot) and
the usual branch construction. Independent of btclib: hashlib only. Every
hash is 32 bytes in *internal* order (the order that is hashed).
"""

from __future__ import annotations

import hashlib


def dsha(b: bytes) -> bytes:
    return hashlib.sha256(hashlib.sha256(b).digest()).digest()


def _levels(leaves: list[bytes]) -> tuple[list[list[bytes]], bool]:
    """All levels bottom-up (odd ones already padded), and the mutation flag."""
    if not leaves:
        raise ValueError("empty tree")
    level = list(leaves)
    levels = []
    mutated = False
    while len(level) > 1:
        for i in range(0, len(level) - 1, 2):
            mutated |= level[i] == level[i + 1]
        if len(level) % 2:
            level.append(level[-1])
        levels.append(level)
        level = [dsha(level[i] + level[i + 1]) for i in range(0, len(level), 2)]
    levels.append(level)
    return levels, mutated


def root_and_mutated(leaves: list[bytes]) -> tuple[bytes, bool]:
    levels, mutated = _levels(leaves)
    return levels[-1][0], mutated


def branch(leaves: list[bytes], index: int) -> list[bytes]:
    """The siblings on the way up from leaf ``index``, bottom-up."""
    levels, _ = _levels(leaves)
    out = []
    for level in levels[:-1]:
        out.append(level[index ^ 1])
        index >>= 1
    return out


def root_from_branch(leaf: bytes, siblings: list[bytes], index: int) -> bytes:
    h = leaf
    for s in siblings:
        h = dsha(s + h) if index & 1 else dsha(h + s)
        index >>= 1
    return h
