"""Reference elliptic-curve arithmetic: the naive affine group law.

Independent of btclib (imports nothing from it). Points are ``(x, y)``
tuples, infinity is ``None``. Written for clarity, not speed: double-and-add
over the affine formulas with ``pow(a, -1, p)``.
"""

from __future__ import annotations

Point = tuple[int, int] | None


class RefCurve:
    def __init__(self, p: int, a: int, b: int, G: tuple[int, int] | None = None, n: int | None = None) -> None:
        self.p, self.a, self.b, self.G, self.n = p, a % p, b % p, G, n

    def on_curve(self, P: Point) -> bool:
        if P is None:
            return True
        x, y = P
        return 0 <= x < self.p and 0 <= y < self.p and (y * y - (x * x * x + self.a * x + self.b)) % self.p == 0

    def neg(self, P: Point) -> Point:
        return None if P is None else (P[0], (-P[1]) % self.p)

    def add(self, P: Point, Q: Point) -> Point:
        if P is None:
            return Q
        if Q is None:
            return P
        p = self.p
        x1, y1 = P
        x2, y2 = Q
        if x1 == x2:
            if (y1 + y2) % p == 0:
                return None
            lam = (3 * x1 * x1 + self.a) * pow(2 * y1, -1, p) % p
        else:
            lam = (y2 - y1) * pow(x2 - x1, -1, p) % p
        x3 = (lam * lam - x1 - x2) % p
        return (x3, (lam * (x1 - x3) - y1) % p)

    def mul(self, k: int, P: Point) -> Point:
        """k*P for any integer k (negative included), by double-and-add."""
        if P is None or k == 0:
            return None
        if k < 0:
            return self.mul(-k, self.neg(P))
        R: Point = None
        Q = P
        while k:
            if k & 1:
                R = self.add(R, Q)
            Q = self.add(Q, Q)
            k >>= 1
        return R

    def multi(self, scalars: list[int], points: list[Point]) -> Point:
        R: Point = None
        for k, P in zip(scalars, points):
            R = self.add(R, self.mul(k, P))
        return R

    def lift_x(self, x: int, even: bool = True) -> Point:
        """The point with this x and even (or odd) y, None where x is no x-coordinate. p % 4 == 3 only."""
        if not 0 <= x < self.p:
            return None
        rhs = (pow(x, 3, self.p) + self.a * x + self.b) % self.p
        y = pow(rhs, (self.p + 1) // 4, self.p)
        if y * y % self.p != rhs:
            return None
        if (y % 2 == 0) != even:
            y = self.p - y
        return (x, y)

    def all_points(self) -> list[tuple[int, int]]:
        """Every affine point, by enumeration (toy primes only)."""
        p = self.p
        roots: dict[int, list[int]] = {}
        for y in range(p):
            roots.setdefault(y * y % p, []).append(y)
        out = []
        for x in range(p):
            for y in roots.get((x * x * x + self.a * x + self.b) % p, []):
                out.append((x, y))
        return out

    def order_of(self, P: Point, bound: int) -> int:
        k, Q = 1, P
        while Q is not None:
            Q = self.add(Q, P)
            k += 1
            if k > bound:
                raise ValueError("order beyond bound")
        return k


SECP256K1 = RefCurve(
    2**256 - 2**32 - 977,
    0,
    7,
    (
        0x79BE667EF9DCBBAC55A06295CE870B07029BFCDB2DCE28D959F2815B16F81798,
        0x483ADA7726A3C4655DA4FBFC0E1108A8FD17B448A68554199C47D08FFB10D4B8,
    ),
    0xFFFFFFFFFFFFFFFFFFFFFFFFFFFFFFFEBAAEDCE6AF48A03BBFD25E8CD0364141,
)


def is_prime(n: int) -> bool:
    if n < 2:
        return False
    i = 2
    while i * i <= n:
        if n % i == 0:
            return False
        i += 1
    return True
