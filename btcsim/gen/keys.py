"""Key material drawn from the choice sequence."""

from __future__ import annotations

from typing import Any

from btclib.bip32 import bip32
from btclib.curves import mult, secp256k1

from btcsim.core.choices import Choices

N = secp256k1.n
P = secp256k1.p


def scalar(ch: Choices, label: str = "key", n: int = N) -> int:
    """A private key in 1..n-1, boundary classes included."""
    kind = ch.draw(8, label + ".kind")
    if kind == 0:
        return 1 + ch.draw(min(16, n - 1), label + ".small")
    if kind == 1:
        return n - 1 - ch.draw(min(16, n - 1), label + ".big")
    return 1 + ch.draw(n - 1, label)


def seed(ch: Choices, label: str = "seed") -> bytes:
    return ch.nbytes(16 + 16 * ch.draw(3, label + ".len"), label)


def root_xprv(ch: Choices, network: str = "mainnet", label: str = "root") -> str:
    return bip32.rootxprv_from_seed(seed(ch, label), network=network) if network != "mainnet" else bip32.rootxprv_from_seed(seed(ch, label))


def pub_point(q: int) -> Any:
    return mult(q)


def xonly(q: int) -> bytes:
    return mult(q)[0].to_bytes(32, "big")


def compressed(q: int) -> bytes:
    x, y = mult(q)
    return (b"\x03" if y & 1 else b"\x02") + x.to_bytes(32, "big")
