"""Valid and hostile inputs for the dual-path catalogue (W3), drawn from choices.

Every generator returns ``(cls, value)``. ``cls`` is ``"valid"`` or a
self-describing token of the hostile input class (``"hybrid-key"``,
``"scalar-zero"``, ``"lax-der-padded-r"`` ...): the world puts it in the
violation signature, so tokens are stable and carry no values. With
``hostile=False`` a valid spelling is returned (which valid form -- compressed,
uncompressed, point -- is drawn too, the plain one first).

Only secp256k1: it is the one curve both arms serve.
"""

from __future__ import annotations

from typing import Any

from btclib.alias import INF
from btclib.curves import mult, secp256k1

from btcsim.core.choices import Choices

N = secp256k1.n
P = secp256k1.p
G = secp256k1.G


def b32(v: int) -> bytes:
    return v.to_bytes(32, "big")


def uniform_scalar(ch: Choices, label: str) -> int:
    return 1 + ch.draw(N - 1, label)


def off_curve_x(ch: Choices, label: str) -> int:
    """An x in 1..p-1 that is no x-coordinate (about half of them are not)."""
    x = 1 + ch.draw(P - 1, label)
    while pow((x * x * x + 7) % P, (P - 1) // 2, P) == 1:
        x = x + 1 if x + 1 < P else 1
    return x


def sec(Q: tuple[int, int], compressed: bool = True) -> bytes:
    if compressed:
        return bytes([2 + (Q[1] & 1)]) + b32(Q[0])
    return b"\x04" + b32(Q[0]) + b32(Q[1])


# -- scalars ------------------------------------------------------------------
SCALARS = ["scalar-zero", "scalar-n", "scalar-n+1", "scalar-multiple-of-n", "scalar-gt-n", "scalar-negative", "scalar-gt-2^256"]


def scalar(ch: Choices, label: str, hostile: bool) -> tuple[str, int]:
    if not hostile:
        kind = ch.draw(4, label + ".valid")
        return "valid", (uniform_scalar(ch, label), 1, N - 1, 2 + ch.draw(14, label + ".small"))[kind]
    cls = ch.pick(SCALARS, label + ".cls")
    k = uniform_scalar(ch, label)
    return cls, {
        "scalar-zero": 0, "scalar-n": N, "scalar-n+1": N + 1, "scalar-multiple-of-n": N * (2 + ch.draw(3, label + ".mul")),
        "scalar-gt-n": N + k, "scalar-negative": -k, "scalar-gt-2^256": (1 << 256) + k,
    }[cls]


# -- points -------------------------------------------------------------------
POINTS = ["point-infinity", "point-off-curve", "point-x-ge-p", "point-y-ge-p", "point-negative-x", "point-not-a-tuple"]


def point(ch: Choices, label: str, hostile: bool) -> tuple[str, Any]:
    Q = mult(uniform_scalar(ch, label))
    if not hostile:
        return "valid", (Q, G, secp256k1.negate(Q))[ch.draw(3, label + ".valid")]
    cls = ch.pick(POINTS, label + ".cls")
    return cls, {
        "point-infinity": (INF, (Q[0], 0))[ch.draw(2, label + ".alias")], "point-off-curve": (Q[0], Q[1] % (P - 1) + 1),
        "point-x-ge-p": (Q[0] + P, Q[1]), "point-y-ge-p": (Q[0], Q[1] + P), "point-negative-x": (Q[0] - P, Q[1]),
        "point-not-a-tuple": [Q[0], Q[1]],
    }[cls]


# -- public keys (SEC octets, points) -----------------------------------------
PUB_KEYS = [
    "hybrid-key", "hybrid-key-wrong-parity", "bad-prefix-key", "bad-prefix-uncompressed-key", "x-ge-p-key", "off-curve-key",
    "off-curve-uncompressed-key", "truncated-key", "over-long-key", "empty-key", "infinity-key", "off-curve-point-key",
]


def pub_key(
    ch: Choices, label: str, q: int, hostile: bool, forms: tuple[str, ...] = ("compressed", "uncompressed", "point", "hex"),
    only: tuple[str, ...] | None = None,
) -> tuple[str, Any]:
    Q = mult(q)
    if not hostile:
        form = ch.pick(forms, label + ".form")
        return "valid", {"compressed": sec(Q), "uncompressed": sec(Q, False), "point": Q, "hex": sec(Q).hex()}[form]
    cls = ch.pick(only or PUB_KEYS, label + ".cls")
    X, Y = b32(Q[0]), b32(Q[1])
    par = Q[1] & 1
    if cls in ("off-curve-key", "x-ge-p-key"):
        bad_x = off_curve_x(ch, label + ".x") if cls == "off-curve-key" else P + ch.draw(2**32 + 977, label + ".x")
        return cls, bytes([2 + ch.draw(2, label + ".par")]) + b32(bad_x)
    return cls, {
        "hybrid-key": bytes([6 + par]) + X + Y, "hybrid-key-wrong-parity": bytes([7 - par]) + X + Y,
        "bad-prefix-key": bytes([ch.pick([5, 0, 1, 4, 8, 255], label + ".pfx")]) + X,
        "bad-prefix-uncompressed-key": bytes([ch.pick([5, 0, 2, 3, 8], label + ".pfx")]) + X + Y,
        "off-curve-uncompressed-key": b"\x04" + X + b32(Q[1] % (P - 1) + 1), "truncated-key": sec(Q)[:-1],
        "over-long-key": sec(Q) + b"\x00", "empty-key": b"", "infinity-key": INF, "off-curve-point-key": (Q[0], Q[1] % (P - 1) + 1),
    }[cls]


# -- x-only (BIP340) public keys -----------------------------------------------
XONLY_KEYS = ["xonly-zero", "xonly-p", "xonly-ff", "xonly-off-curve", "xonly-short", "xonly-long", "xonly-empty", "xonly-negative-int", "xonly-int-ge-p"]


def xonly_key(ch: Choices, label: str, q: int, hostile: bool, forms: tuple[str, ...] = ("bytes", "int", "hex")) -> tuple[str, Any]:
    x = mult(q)[0]
    if not hostile:
        return "valid", {"bytes": b32(x), "int": x, "hex": b32(x).hex()}[ch.pick(forms, label + ".form")]
    cls = ch.pick(XONLY_KEYS, label + ".cls")
    if cls == "xonly-off-curve":
        return cls, b32(off_curve_x(ch, label + ".x"))
    return cls, {
        "xonly-zero": bytes(32), "xonly-p": b32(P), "xonly-ff": b"\xff" * 32, "xonly-short": b32(x)[1:], "xonly-long": b"\x02" + b32(x),
        "xonly-empty": b"", "xonly-negative-int": -x, "xonly-int-ge-p": x + P,
    }[cls]


# -- ECDSA signatures ------------------------------------------------------------
def _der_int(v: int) -> bytes:
    return v.to_bytes(v.bit_length() // 8 + 1, "big")


def der(rb: bytes, sb: bytes, extra: bytes = b"", total: int | None = None, long_form: bool = False) -> bytes:
    body = b"\x02" + bytes([len(rb)]) + rb + b"\x02" + bytes([len(sb)]) + sb + extra
    n = len(body) if total is None else total
    return b"\x30" + (b"\x81" if long_form else b"") + bytes([n]) + body


def der_sig(ch: Choices, label: str, r: int, s: int, hostile: bool) -> tuple[str, bytes]:
    """DER octets: strict, or with an out-of-range member, or lax / damaged encodings."""
    rb, sb = _der_int(r), _der_int(s)
    top = rb.lstrip(b"\x00") or b"\x00"
    if not hostile:
        return "valid", der(rb, sb)
    cls = ch.pick(DER_SIGS, label + ".cls")
    strict = der(rb, sb)
    i = ch.draw(len(strict), label + ".pos")
    return cls, {
        "sig-high-s": der(rb, _der_int(N - s)), "sig-r-zero": der(b"\x00", sb), "sig-s-zero": der(rb, b"\x00"),
        "sig-r-eq-n": der(_der_int(N), sb), "sig-s-eq-n": der(rb, _der_int(N)), "sig-r-gt-n": der(_der_int(r + N), sb),
        "lax-der-padded-r": der(b"\x00" + rb, sb), "lax-der-padded-s": der(rb, b"\x00" + sb),
        "lax-der-negative-r": der(bytes([top[0] | 0x80]) + top[1:], sb), "lax-der-long-form-length": der(rb, sb, long_form=True),
        "lax-der-trailing-byte": der(rb, sb, extra=b"\x00"), "der-trailing-garbage": strict + b"\x00", "der-wrong-total": der(rb, sb, total=len(strict) - 1),
        "der-truncated": strict[: 8 + ch.draw(len(strict) - 8, label + ".cut")], "der-empty": b"", "der-bad-tag": b"\x31" + strict[1:],
        "sig-bit-flip": strict[:i] + bytes([strict[i] ^ (1 << ch.draw(8, label + ".bit"))]) + strict[i + 1:],
    }[cls]


DER_SIGS = [
    "sig-high-s", "sig-r-zero", "sig-s-zero", "sig-r-eq-n", "sig-s-eq-n", "sig-r-gt-n", "lax-der-padded-r", "lax-der-padded-s",
    "lax-der-negative-r", "lax-der-long-form-length", "lax-der-trailing-byte", "der-trailing-garbage", "der-wrong-total",
    "der-truncated", "der-empty", "der-bad-tag", "sig-bit-flip",
]


# -- BIP340 signatures (64 octets) ------------------------------------------------
SSA_SIGS = ["sig-r-zero", "sig-r-eq-p", "sig-r-off-curve", "sig-s-zero", "sig-s-eq-n", "sig-s-negated", "sig-truncated", "sig-over-long", "sig-empty", "sig-all-ff", "sig-bit-flip"]


def ssa_sig(ch: Choices, label: str, sig: bytes, hostile: bool) -> tuple[str, bytes]:
    if not hostile:
        return "valid", sig
    cls = ch.pick(SSA_SIGS, label + ".cls")
    r, s = sig[:32], sig[32:]
    i = ch.draw(64, label + ".pos")
    if cls == "sig-r-off-curve":
        return cls, b32(off_curve_x(ch, label + ".x")) + s
    return cls, {
        "sig-r-zero": bytes(32) + s, "sig-r-eq-p": b32(P) + s, "sig-s-zero": r + bytes(32), "sig-s-eq-n": r + b32(N),
        "sig-s-negated": r + b32(N - int.from_bytes(s, "big")), "sig-truncated": sig[:63], "sig-over-long": sig + b"\x01", "sig-empty": b"",
        "sig-all-ff": b"\xff" * 64, "sig-bit-flip": sig[:i] + bytes([sig[i] ^ (1 << ch.draw(8, label + ".bit"))]) + sig[i + 1:],
    }[cls]


# -- messages -------------------------------------------------------------------------
def msg_hash(ch: Choices, label: str, hostile: bool) -> tuple[str, Any]:
    """The 32-octet argument of the underscore (pre-hashed) ECDSA entry points."""
    m = ch.nbytes(32, label)
    if not hostile:
        # a digest is any 32 octets: as an integer it may reach or exceed the group order (2^-128 of real
        # digests, and the class where "reduce the challenge mod n" is the only thing that differs)
        k = ch.draw(8, label + ".edge")
        if k >= 5:
            m = b32([N, N + 1 + ch.draw(1000, label + ".above"), 2**256 - 1 - ch.draw(1000, label + ".top")][k - 5])
        return "valid", (m, m.hex())[ch.draw(4, label + ".form") == 3]
    cls = ch.pick(["hash-31-bytes", "hash-33-bytes", "hash-empty"], label + ".cls")
    return cls, {"hash-31-bytes": m[1:], "hash-33-bytes": m + b"\x00", "hash-empty": b""}[cls]


def message(ch: Choices, label: str) -> bytes:
    """Any-length message; 32 octets half of the time (the one length MuSig2's bindings serve)."""
    n = ch.pick([32, 32, 32, 32, 0, 1, 31, 33, 100], label + ".len")
    return ch.nbytes(n, label)


# -- one hostile dimension per operation ---------------------------------------------------
def hostile_dim(ch: Choices, label: str, dims: int, num: int = 1, den: int = 2) -> int:
    """-1 for an all-valid call, else the index of the one argument that is hostile."""
    return ch.draw(dims, label + ".dim") if ch.chance(num, den, label + ".hostile?") else -1
