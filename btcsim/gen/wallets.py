"""Wallets, funded PSBTs and the roles around them, drawn from the choice sequence.

The reusable half of W5 `ceremony` (and of whatever else needs a signable
PSBT): cosigners on their own seeds, wallet shapes as descriptors, inputs
updated by their descriptor, `tx_builder.build_psbt`, and the Signer /
Finalizer / Extractor / engine steps as plain helpers.

    cosigners = make_cosigners(ch, 3)                          # ECDSA ground / plain / mixed, drawn or told
    wallet    = make_wallet(ch, "wsh-multi", cosigners)        # -> WalletSpec (descriptor, change, paths)
    cer       = fund_and_build(ch, [wallet], cosigners)        # -> Ceremony (unsigned psbt v0/v2, prevouts, ...)
    signed    = sign_all(cer)                                  # request_signatures, cosigner by cosigner
    final, tx = finalize_extract(cer, signed)                  # finalize(solver=cer.solver), extract_tx
    verify(cer, tx)                                            # engine, every standardness flag on

Everything random is a draw; 0 always draws the plainest case (one wpkh
input, SIGHASH unset, final sequence, PSBT v0).

What the library leaves to "the caller who knows" is answered here by the
wallet that knows: `Ceremony.sizer` sizes, and `Ceremony.solver` spends, the
taproot leaf the input's plan names (multi_a included) and defers every
wsh(miniscript) to `descriptors.miniscript_sizer` / `miniscript_solver`.
"""

from __future__ import annotations

import functools
import hashlib
import operator
from dataclasses import dataclass, field
from typing import Any, Sequence

from btclib.bip32 import bip32
from btclib.descriptors import Descriptor, miniscript_sizer, miniscript_solver, parse
from btclib.ecc import dsa
from btclib.fee import FeeRate
from btclib.hashes import hash160, hash256, ripemd160, sha256
from btclib.psbt.psbt import Psbt, extract_tx, finalize, sign
from btclib.psbt.psbt_in import PsbtIn
from btclib.psbt_signer import SignerDecorator, SoftwareSigner, request_signatures
from btclib.script import taproot
from btclib.script.script import op_int
from btclib.script.engine import verify_transaction
from btclib.script.engine.flags import ScriptFlag
from btclib.script.sig_hash import ALL, ANYONECANPAY, NONE, SINGLE
from btclib.script.witness import Witness
from btclib.tx import OutPoint, Tx, TxIn, TxOut
from btclib.tx_builder import FundedPsbt, build_psbt

from btcsim.core.choices import Choices
from btcsim.gen import keys as gk

# every rule the engine knows: consensus and standardness together
STANDARD_FLAGS = functools.reduce(operator.or_, list(ScriptFlag))
NUMS = "50929b74c1a04954b78b4b6035e97a5e078a5a0f28ec96d547bfee9ace803ac0"
TAPSCRIPT = 0xC0
SHAPES = ("wpkh", "pkh", "sh-wpkh", "tr", "wsh-multi", "sh-multi", "multi", "sh-wsh-multi", "tr-tree", "wsh-ms", "sh-pkh", "wsh-pkh")
TAPROOT_SHAPES = ("tr", "tr-tree")
SIGHASH_TYPES = (None, ALL, NONE, SINGLE, ALL | ANYONECANPAY, NONE | ANYONECANPAY, SINGLE | ANYONECANPAY)
FINAL = 0xFFFFFFFF


# ---------------------------------------------------------------------------
# cosigners
# ---------------------------------------------------------------------------
class PlainEcdsaSigner(SignerDecorator):
    """A SoftwareSigner whose ECDSA signatures are plain RFC6979, not ground for a low R.

    The Signer role is still the library's (`psbt.sign` over this `KeyManager`, the key looked up and
    checked by the wrapped signer); what differs is `grind=False`, which other signers (a device, BIP322's
    own `sign`) use too: half of these signatures have the 33-byte r that makes them 72 bytes with their
    sighash byte, the size `psbt_size.SIG_SIZE` says is the largest.
    """

    def sign_psbt(self, psbt: Psbt) -> Psbt:
        return sign(psbt, self)[0]

    def sign_ecdsa(self, pub_key: bytes, origin: Any, msg_hash: bytes) -> bytes | None:
        prv_key = self.signer._prv_key(pub_key, origin)  # type: ignore[attr-defined]
        return None if prv_key is None else dsa.sign_(msg_hash, prv_key, grind=False).serialize()

    def sign_schnorr(self, pub_key: bytes, origin: Any, msg_hash: bytes, merkle_root: bytes) -> bytes | None:
        return self.signer.sign_schnorr(pub_key, origin, msg_hash, merkle_root)  # type: ignore[attr-defined]

    def sign_schnorr_script_path(self, pub_key: bytes, origin: Any, msg_hash: bytes, leaf_hash: bytes) -> bytes | None:
        return self.signer.sign_schnorr_script_path(pub_key, origin, msg_hash, leaf_hash)  # type: ignore[attr-defined]


@dataclass
class Cosigner:
    """One key holder: a seed, the master key it makes, its account keys."""

    index: int
    seed: bytes
    xprv: str
    fingerprint: bytes
    grind: bool = True  # False: this holder's signer makes plain (not low-R) ECDSA signatures
    _accounts: dict[int, str] = field(default_factory=dict)
    _pub_keys: dict[tuple[int, int, int], bytes] = field(default_factory=dict)

    @property
    def name(self) -> str:
        return f"s{self.index}"

    def signer(self) -> Any:
        """A fresh signer on this seed (a restarted host builds a new one): the library's `PsbtSigner` contract."""
        return SoftwareSigner(self.xprv) if self.grind else PlainEcdsaSigner(SoftwareSigner(self.xprv))

    def account_path(self, acct: int) -> str:
        return f"m/48h/0h/{acct}h"

    def account_xpub(self, acct: int) -> str:
        if acct not in self._accounts:
            self._accounts[acct] = bip32.xpub_from_xprv(bip32.derive(self.xprv, self.account_path(acct)))
        return self._accounts[acct]

    def key_expr(self, acct: int, branch: int = 0) -> str:
        """`[fingerprint/48h/0h/ACCTh]xpub/BRANCH/*`: what an Updater needs for key origins."""
        return f"[{self.fingerprint.hex()}/48h/0h/{acct}h]{self.account_xpub(acct)}/{branch}/*"

    def leaf_path(self, acct: int, branch: int, index: int) -> str:
        return f"{self.account_path(acct)}/{branch}/{index}"

    def pub_key(self, acct: int, branch: int, index: int) -> bytes:
        at = (acct, branch, index)
        if at not in self._pub_keys:
            self._pub_keys[at] = bip32.BIP32KeyData.b58decode(bip32.derive(self.account_xpub(acct), [branch, index])).key
        return self._pub_keys[at]


def make_cosigners(ch: Choices, n: int, ecdsa: str | None = None) -> list[Cosigner]:
    """n holders. `ecdsa`: "ground" (low-R, SoftwareSigner's own), "plain" (none ground), "mixed" (per holder); drawn if None."""
    mode = ecdsa or ch.pick(["ground", "mixed", "plain"], "cosigners.ecdsa")
    out: list[Cosigner] = []
    for i in range(n):
        # hashed with the position: distinct holders even on a shrunk (all-zero) choice list
        seed = hashlib.sha256(bytes([i]) + gk.seed(ch, "cosigner.seed")).digest()
        xprv = bip32.rootxprv_from_seed(seed)
        grind = mode == "ground" or (mode == "mixed" and ch.draw(2, "cosigner.plain-ecdsa") == 0)
        out.append(Cosigner(i, seed, xprv, bip32.fingerprint(xprv), grind=grind))
    return out


# ---------------------------------------------------------------------------
# wallet shapes
# ---------------------------------------------------------------------------
KeyRef = tuple[int, int]  # (cosigner index, account)


@dataclass
class Leaf:
    """A tr() leaf: pk(K) or [sorted]multi_a(k, K...)."""

    kind: str  # "pk" | "multi_a" | "sortedmulti_a"
    keys: list[KeyRef]
    k: int = 1


@dataclass
class Path:
    """One way to spend a wallet's output, and what the transaction must carry for it."""

    label: str
    groups: list[tuple[int, list[int]]]  # [(how many keys, the holder of each key)]: every group must be met
    leaf: int | None = None  # tr-tree: the leaf number, None = key path
    sequence: int | None = None  # older(): what the input's nSequence must be
    lock_time: int | None = None  # after(): what the transaction's nLockTime must reach


@dataclass
class WalletSpec:
    shape: str
    kind: str  # "legacy" | "segwit0" | "taproot": which utxo field and which digest
    template: str  # descriptor text with {0} = branch
    descriptor: Descriptor  # receive chain
    change: Descriptor  # change chain
    cosigners: list[int]  # every cosigner holding one of its keys
    paths: list[Path]
    preimages: dict[str, dict[bytes, bytes]] = field(default_factory=dict)  # PsbtIn field -> {digest: preimage}
    internal: KeyRef | None = None  # taproot: the internal key's holder (None = BIP341's NUMS point)
    tree: Any = None  # taproot: a Leaf, or a pair of subtrees
    needs_sizer: bool = False  # estimated_weight alone refuses this shape

    @property
    def single_key(self) -> bool:
        return self.shape in ("wpkh", "pkh", "sh-wpkh", "tr", "sh-pkh", "wsh-pkh")

    def leaves(self) -> list[Leaf]:
        def walk(t: Any) -> list[Leaf]:
            return [t] if isinstance(t, Leaf) else walk(t[0]) + walk(t[1])

        return walk(self.tree) if self.tree is not None else []


def _text(template: str, branch: int) -> str:
    return template.replace("{B}", str(branch))


def _wallet(shape: str, kind: str, template: str, cos: list[Cosigner], **kw: Any) -> WalletSpec:
    refs = sorted({c for p in kw["paths"] for _, g in p.groups for c in g})
    return WalletSpec(shape, kind, template, parse(_text(template, 0)), parse(_text(template, 1)), refs, **kw)


def _key(cos: Sequence[Cosigner], ref: KeyRef) -> str:
    return cos[ref[0]].key_expr(ref[1], 0).replace("/0/*", "/{B}/*")


def make_wallet(ch: Choices, shape: str, cosigners: Sequence[Cosigner], acct: int = 0) -> WalletSpec:
    """A wallet of that shape over (some of) the cosigners; `acct` keeps two wallets' keys apart."""
    cos = list(cosigners)
    n_cos = len(cos)
    if shape in ("wpkh", "pkh", "sh-wpkh", "tr", "sh-pkh", "wsh-pkh"):
        i = ch.draw(n_cos, "wallet.holder")
        k = _key(cos, (i, acct))
        text = {"wpkh": f"wpkh({k})", "pkh": f"pkh({k})", "sh-wpkh": f"sh(wpkh({k}))", "tr": f"tr({k})", "sh-pkh": f"sh(pkh({k}))", "wsh-pkh": f"wsh(pkh({k}))"}[shape]
        kind = {"wpkh": "segwit0", "pkh": "legacy", "sh-wpkh": "segwit0", "tr": "taproot", "sh-pkh": "legacy", "wsh-pkh": "segwit0"}[shape]
        return _wallet(shape, kind, text, cos, paths=[Path("key", [(1, [i])])], internal=(i, acct) if shape == "tr" else None)
    if shape in ("multi", "sh-multi", "wsh-multi", "sh-wsh-multi"):
        # up to 15 keys (what a p2sh redeem script can hold), a cosigner holding several of them on
        # accounts of its own: from 8 keys on the script is pushed with OP_PUSHDATA2
        n = ch.weighted([(2, 3), (1, 2), (3, 3), (4, 1), (5, 2), (8, 2), (9, 1), (12, 1), (15, 2)], "multi.n")
        if shape in ("wsh-multi", "sh-wsh-multi") and ch.draw(6, "multi.n.wide") == 5:
            # a witness script is held to the 10 000-byte script limit, not to the 520 bytes of a stack element or
            # a p2sh redeem script: 16 keys and up make it longer than 520 (16 keys is OP_16, the widest standard spelling)
            n = 16  # OP_16 is the widest the size tables and the standard templates spell
        k = ch.weighted([(1, 2), (min(2, n), 1), (n, 1), (1 + ch.draw(n, "multi.k"), 3)], "multi.k-class")
        order = ch.shuffled(range(n_cos), "multi.members")
        members = [(order[j % n_cos], acct + j // n_cos) for j in range(n)]
        fn = ch.pick(["multi", "sortedmulti"], "multi.fn")
        inner = f"{fn}({k},{','.join(_key(cos, m) for m in members)})"
        text = {"multi": inner, "sh-multi": f"sh({inner})", "wsh-multi": f"wsh({inner})", "sh-wsh-multi": f"sh(wsh({inner}))"}[shape]
        kind = "legacy" if shape in ("multi", "sh-multi") else "segwit0"
        return _wallet(shape, kind, text, cos, paths=[Path(f"{k}-of-{n}", [(k, [m[0] for m in members])])])
    if shape == "tr-tree":
        return _tr_tree(ch, cos, acct)
    if shape == "wsh-ms":
        return _wsh_miniscript(ch, cos, acct)
    raise ValueError(f"unknown wallet shape {shape}")


def _tr_tree(ch: Choices, cos: list[Cosigner], acct: int) -> WalletSpec:
    n_leaves = 1 + ch.draw(6, "tree.leaves")

    def leaf() -> Leaf:
        kind = ch.weighted([("pk", 3), ("multi_a", 2), ("sortedmulti_a", 1)], "leaf.kind")
        # account acct or acct+1 of a cosigner: a key may repeat across leaves, and so may a whole leaf
        if kind == "pk":
            return Leaf("pk", [(ch.draw(len(cos), "leaf.holder"), acct + ch.draw(2, "leaf.acct"))])
        n = 1 + ch.draw(min(4, len(cos)), "leaf.n")
        members = ch.shuffled(range(len(cos)), "leaf.members")[:n]
        sub = acct + ch.draw(2, "leaf.acct")
        return Leaf(kind, [(i, sub) for i in members], 1 + ch.draw(n, "leaf.k"))

    def grow(n: int) -> Any:
        if n == 1:
            return leaf()
        left = 1 + ch.draw(n - 1, "tree.split")  # unbalanced as often as balanced
        return (grow(left), grow(n - left))

    tree = grow(n_leaves)
    internal: KeyRef | None = (ch.draw(len(cos), "tree.internal"), acct + 2) if ch.draw(3, "tree.nums?") else None

    def expr(t: Any) -> str:
        if isinstance(t, Leaf):
            ks = ",".join(_key(cos, r) for r in t.keys)
            return f"pk({ks})" if t.kind == "pk" else f"{t.kind}({t.k},{ks})"
        return "{" + expr(t[0]) + "," + expr(t[1]) + "}"

    text = f"tr({_key(cos, internal) if internal else NUMS},{expr(tree)})"
    paths = [Path("keypath", [(1, [internal[0]])])] if internal else []
    w = WalletSpec("tr-tree", "taproot", text, parse(_text(text, 0)), parse(_text(text, 1)), [], paths, internal=internal, tree=tree, needs_sizer=True)
    for number, lf in enumerate(w.leaves()):
        # a cosigner named twice in one leaf (never: members are distinct) would count once
        paths.append(Path(f"leaf{number}:{lf.kind}", [(lf.k, [r[0] for r in lf.keys])], leaf=number))
    w.cosigners = sorted({c for p in paths for _, g in p.groups for c in g})
    return w


def _wsh_miniscript(ch: Choices, cos: list[Cosigner], acct: int) -> WalletSpec:
    """wsh(miniscript) from a fixed family: timelocks (relative, absolute), hash locks, thresholds."""
    holders = [ch.draw(len(cos), "ms.holder") for _ in range(3)]
    # distinct keys even when one cosigner holds two of them: a sane miniscript repeats no key
    refs = [(h, acct + j) for j, h in enumerate(holders)]
    a, b, c = (_key(cos, r) for r in refs)
    ia, ib, ic = holders
    older = ch.pick([36, 1, 65535, (1 << 22) | 5], "ms.older")
    # one kind of clock per run (a transaction has one nLockTime: a height and a time never meet in it), and on the
    # time side the first value read as a time, its neighbour, a date and the largest miniscript takes
    clock = ch.notes.get("after_clock")
    if clock is None:
        clock = ch.notes["after_clock"] = ch.pick(["height", "time"], "ms.after.clock")
    after = ch.pick([500_000, 1, 499_999_999], "ms.after") if clock == "height" else ch.pick([500_000_000, 500_000_000, 500_000_001, 1_700_000_000, 2**31 - 1], "ms.after.time")
    pre = ch.nbytes(32, "ms.preimage")
    digests = {
        "sha256": ("sha256_preimages", sha256(pre)),
        "hash256": ("hash256_preimages", hash256(pre)),
        "ripemd160": ("ripemd160_preimages", ripemd160(pre)),
        "hash160": ("hash160_preimages", hash160(pre)),
    }
    hfn = ch.pick(list(digests), "ms.hashfn")
    hfield, digest = digests[hfn]
    family: list[tuple[str, list[Path], bool]] = [
        (f"and_v(v:pk({a}),older({older}))", [Path("pk+older", [(1, [ia])], sequence=older)], False),
        (f"and_v(v:pk({a}),after({after}))", [Path("pk+after", [(1, [ia])], lock_time=after)], False),
        (f"and_v(v:pk({a}),{hfn}({digest.hex()}))", [Path("pk+hash", [(1, [ia])])], True),
        (
            f"or_d(pk({a}),and_v(v:pkh({b}),older({older})))",
            [Path("or_d:pk", [(1, [ia])]), Path("or_d:pkh+older", [(1, [ib])], sequence=older)],
            False,
        ),
        (
            f"or_d(multi(2,{a},{b}),and_v(v:pk({c}),older({older})))",
            [Path("or_d:multi", [(1, [ia]), (1, [ib])]), Path("or_d:recovery", [(1, [ic])], sequence=older)],
            False,
        ),
        (f"andor(pk({a}),older({older}),pk({b}))", [Path("andor:a+older", [(1, [ia])], sequence=older), Path("andor:b", [(1, [ib])])], False),
        (
            f"thresh(2,pk({a}),s:pk({b}),s:pk({c}))",
            [Path("thresh:ab", [(1, [ia]), (1, [ib])]), Path("thresh:bc", [(1, [ib]), (1, [ic])]), Path("thresh:ac", [(1, [ia]), (1, [ic])])],
            False,
        ),
        (
            f"thresh(2,pk({a}),s:pk({b}),sln:older({older}))",
            [Path("thresh:ab", [(1, [ia]), (1, [ib])]), Path("thresh:a+older", [(1, [ia])], sequence=older)],
            False,
        ),
        (f"and_v(v:pk({a}),or_d(pk({b}),older({older})))", [Path("and:ab", [(1, [ia]), (1, [ib])]), Path("and:a+older", [(1, [ia])], sequence=older)], False),
        (
            f"or_i(and_v(v:pkh({a}),after({after})),pk({b}))",
            [Path("or_i:a+after", [(1, [ia])], lock_time=after), Path("or_i:b", [(1, [ib])])],
            False,
        ),
        (f"and_v(v:multi(1,{a},{b}),{hfn}({digest.hex()}))", [Path("multi1+hash:a", [(1, [ia])]), Path("multi1+hash:b", [(1, [ib])])], True),
        (
            f"andor(pk({a}),{hfn}({digest.hex()}),and_v(v:pk({b}),after({after})))",
            [Path("andor:a+hash", [(1, [ia])]), Path("andor:b+after", [(1, [ib])], lock_time=after)],
            True,
        ),
    ]
    expr, paths, hashed = family[ch.draw(len(family), "ms.policy")]
    return _wallet("wsh-ms", "segwit0", f"wsh({expr})", cos, paths=paths, preimages={hfield: {digest: pre}} if hashed else {}, needs_sizer=True)


# ---------------------------------------------------------------------------
# taproot: the auditor's own view of a tree
# ---------------------------------------------------------------------------
def leaf_script(w: WalletSpec, cos: Sequence[Cosigner], leaf: Leaf, index: int) -> list[Any]:
    """The tapscript of one leaf as commands, built from the keys and nothing else (BIP386/387)."""
    xs = [cos[i].pub_key(a, 0, index)[1:] for i, a in leaf.keys]
    if leaf.kind == "pk":
        return [xs[0], "OP_CHECKSIG"]
    if leaf.kind == "sortedmulti_a":
        xs.sort()
    script: list[Any] = [xs[0], "OP_CHECKSIG"]
    for x in xs[1:]:
        script += [x, "OP_CHECKSIGADD"]
    return [*script, op_int(leaf.k), "OP_NUMEQUAL"]


def script_tree(w: WalletSpec, cos: Sequence[Cosigner], index: int) -> Any:
    """`btclib.alias.TaprootScriptTree` of the wallet at a derivation index."""

    def walk(t: Any) -> Any:
        if isinstance(t, Leaf):
            return [(TAPSCRIPT, leaf_script(w, cos, t, index))]
        return [walk(t[0]), walk(t[1])]

    return walk(w.tree)


def internal_key(w: WalletSpec, cos: Sequence[Cosigner], index: int) -> bytes:
    """The 32-byte internal key of a taproot wallet at a derivation index."""
    if w.internal is None:
        return bytes.fromhex(NUMS)
    return cos[w.internal[0]].pub_key(w.internal[1], 0, index)[1:]


# ---------------------------------------------------------------------------
# funding
# ---------------------------------------------------------------------------
@dataclass
class InputSpec:
    wallet: WalletSpec
    index: int  # derivation index on the receive chain
    path: Path  # how the coordinator means to spend it
    signers: list[int]  # the cosigners that plan needs, chosen among the path's groups
    prev_tx: Tx
    vout: int
    value: int
    out_point: OutPoint
    proof: Any = None  # tr-tree, script path: (leaf, commands, script, control block), computed once

    @property
    def script_pub_key(self) -> bytes:
        return self.prev_tx.vout[self.vout].script_pub_key.script


@dataclass
class Ceremony:
    cosigners: list[Cosigner]
    wallets: list[WalletSpec]
    inputs: list[InputSpec]
    payments: list[TxOut]
    fee_rate: FeeRate
    change_wallet: WalletSpec | None
    change_index: int  # derivation index of the change script
    lock_time: int
    funded: FundedPsbt
    psbt: Psbt  # unsigned, updated, v0 or v2: what goes to the cosigners
    prevouts: list[TxOut]

    @property
    def total_in(self) -> int:
        return sum(i.value for i in self.inputs)

    @property
    def change_script(self) -> bytes | None:
        if self.change_wallet is None:
            return None
        return self.change_wallet.change.script_pub_key(self.change_index).script

    @property
    def needed(self) -> list[int]:
        """Cosigners without whose answer the plans cannot be finalized."""
        return sorted({c for i in self.inputs for c in i.signers})

    @property
    def needs_sizer(self) -> bool:
        return any(i.wallet.needs_sizer for i in self.inputs)

    def spec_of(self, out_point: OutPoint) -> InputSpec | None:
        for spec in self.inputs:
            if spec.out_point == out_point:
                return spec
        return None

    def planned_leaf(self, spec: InputSpec) -> tuple[Leaf, list[Any], bytes, bytes]:
        """(leaf, its commands, its script, its control block) of a tr-tree input's plan, from the wallet's own tree."""
        if spec.proof is None:
            assert spec.path.leaf is not None
            leaf = spec.wallet.leaves()[spec.path.leaf]
            key = internal_key(spec.wallet, self.cosigners, spec.index)
            commands, control = taproot.input_script_sig(b"\x02" + key, script_tree(spec.wallet, self.cosigners, spec.index), spec.path.leaf)
            spec.proof = (leaf, commands, taproot.serialize(commands), control)
        return spec.proof

    # -- SolutionSizer: what the planned spend of an input will push -----------------
    def sizer(self, psbt_in: PsbtIn, tx_in: TxIn) -> list[int] | None:
        spec = self.spec_of(tx_in.prev_out)
        if spec is None or spec.wallet.shape != "tr-tree":
            return miniscript_sizer(psbt_in, tx_in)
        sig = 64 + (1 if psbt_in.sig_hash_type else 0)
        if spec.path.leaf is None:
            return [sig]
        leaf, _, script, control = self.planned_leaf(spec)
        return [*[sig] * leaf.k, *[0] * (len(leaf.keys) - leaf.k), len(script), len(control)]

    # -- InputSolver: the planned taproot leaf; wsh(miniscript) is the library's own -----
    def solver(self, psbt: Psbt, vin_i: int) -> tuple[bytes, Witness] | None:
        psbt_in = psbt.inputs[vin_i]
        spec = self.spec_of(OutPoint(psbt_in.previous_tx_id, psbt_in.output_index or 0))
        if spec is None or spec.wallet.shape != "tr-tree":
            return miniscript_solver(psbt, vin_i)
        if spec.path.leaf is None:
            return None  # key path: the generic finalizer prefers it
        leaf, commands, script, control = self.planned_leaf(spec)
        lh = taproot.leaf_hash(TAPSCRIPT, script)
        sigs = psbt_in.taproot_script_spend_signatures
        stack: list[bytes] = []
        used = 0
        for x in [c for c in commands if isinstance(c, bytes)]:  # one element per key, in script order
            sig = sigs.get(x + lh)
            if sig is None or used == leaf.k:
                stack.append(b"")
            else:
                stack.append(sig)
                used += 1
        if used < leaf.k:
            return None  # not enough yet: the finalizer refuses in its own words
        return b"", Witness([*reversed(stack), script, control])


def _spk(w: WalletSpec, index: int) -> Any:
    return w.descriptor.script_pub_key(index)


def _fund_input(ch: Choices, w: WalletSpec, vin_i: int, n_pay: int) -> tuple[InputSpec, PsbtIn]:
    index = ch.draw(6, "in.index")
    value = ch.pick([100_000, 10_000, 1_000_000, 2_100_000_000_000], "in.value") + ch.draw(50_000, "in.extra")
    if n_pay > 16:
        value += 1200 * n_pay  # hundreds of payments above dust need that much coming in
    vout = ch.draw(3, "in.vout")
    outs = [TxOut(1000 + j, b"\x00\x14" + bytes([j + 1]) * 20) for j in range(vout)] + [TxOut(value, _spk(w, index))]
    # the funding transaction: distinct per input, so no outpoint is spent twice
    prev_tx = Tx(2, 0, [TxIn(OutPoint(hashlib.sha256(b"funding" + bytes([vin_i])).digest(), vin_i))], outs)
    path = w.paths[ch.draw(len(w.paths), "in.path")]
    signers: list[int] = []
    for k, holders in path.groups:
        # cosigners in a drawn order until their keys reach the threshold; the others are spares, now and then
        for c in ch.shuffled(sorted(set(holders)), "in.signers"):
            if c not in signers and (sum(holders.count(x) for x in signers) < k or ch.draw(3, "in.spare") == 0):
                signers.append(c)
    psbt_in = PsbtIn(previous_tx_id=prev_tx.id, output_index=vout)
    if w.kind == "legacy":
        psbt_in.non_witness_utxo = prev_tx
    else:
        psbt_in.witness_utxo = prev_tx.vout[vout]
        if w.kind == "segwit0" and ch.draw(4, "in.both-utxos") == 3:
            psbt_in.non_witness_utxo = prev_tx  # BIP174 allows both for a v0 witness input
    if path.sequence is not None:
        psbt_in.sequence = path.sequence
    elif path.lock_time is not None:
        psbt_in.sequence = FINAL - 1  # CLTV wants its own input non-final
    else:
        psbt_in.sequence = ch.pick([None, FINAL - 1, FINAL - 2, FINAL, 0], "in.sequence")
    # the sighash type, from the set that is legal for this input: taproot refuses a SINGLE
    # with no output of its own index, so that one is drawn only where the payments reach it
    legal = [t for t in SIGHASH_TYPES if not (w.kind == "taproot" and t is not None and t & 3 == SINGLE and vin_i >= n_pay)]
    psbt_in.sig_hash_type = ch.weighted([(t, 3 if t is None else 2 if t == ALL else 1) for t in legal], "in.sighash")
    for name, mapping in w.preimages.items():
        setattr(psbt_in, name, dict(mapping))
    # the Updater: on a scratch psbt of this one input, so that the map carries what psbt_size reads
    scratch = Psbt(2, [psbt_in], [], 0, {})
    psbt_in = w.descriptor.update_psbt_input(scratch, 0, index).inputs[0]
    spec = InputSpec(w, index, path, sorted(signers), prev_tx, vout, value, OutPoint(prev_tx.id, vout))
    return spec, psbt_in


def fund_and_build(
    ch: Choices,
    wallets: Sequence[WalletSpec],
    cosigners: Sequence[Cosigner],
    *,
    max_inputs: int = 4,
    version: int | None = None,
) -> Ceremony:
    """Draw 1..max_inputs utxos over the wallets, payments, a fee rate, change or none; build the PSBT."""
    wallets = list(wallets)
    n_inputs = 1 + ch.draw(max_inputs, "n.inputs")
    n_pay = 1 + ch.draw(3, "n.payments")
    if ch.draw(12, "n.payments.many?") == 11:
        # the output count on the CompactSize boundary: with a change output 252 payments make 253 outputs
        n_pay = ch.pick([252, 251, 253], "n.payments.many")
    specs: list[InputSpec] = []
    psbt_ins: list[PsbtIn] = []
    for vin_i in range(n_inputs):
        w = wallets[ch.draw(len(wallets), "in.wallet")]
        spec, psbt_in = _fund_input(ch, w, vin_i, n_pay)
        specs.append(spec)
        psbt_ins.append(psbt_in)
    total_in = sum(s.value for s in specs)
    lock_time = max([s.path.lock_time or 0 for s in specs])
    if not lock_time:
        lock_time = ch.pick([0, 0, 850_000, 1, 1_700_000_000, 500_000_000], "lock_time")
    # capped so that a quarter of what comes in always covers it (< 6000 vbytes for four inputs of any shape,
    # < 15000 with hundreds of payments)
    rate = FeeRate(sats_per_kvbyte=min(total_in // (24 if n_pay <= 16 else 60), ch.pick([1000, 0, 1, 253, 999, 1001, 1500, 12_345, 100_000], "fee.rate") + ch.draw(2, "fee.odd")))
    # payments: to scripts of every standard kind; together at most ~3/4 of what comes in
    budget = total_in * (1 + ch.draw(3, "pay.share")) // 4
    payments = []
    for j in range(n_pay):
        amount = max(600, budget // n_pay - ch.draw(1000, "pay.jitter"))
        if j >= 4:
            payments.append(TxOut(amount, b"\x00\x14" + hashlib.sha256(j.to_bytes(2, "big")).digest()[:20]))
            continue
        script = ch.pick(
            [
                b"\x00\x14" + bytes([0xA0 + j]) * 20,
                b"\x76\xa9\x14" + bytes([0xB0 + j]) * 20 + b"\x88\xac",
                b"\x51\x20" + hashlib.sha256(bytes([j])).digest(),
                b"\xa9\x14" + bytes([0xC0 + j]) * 20 + b"\x87",
                b"\x00\x20" + bytes([0xD0 + j]) * 32,
                # a data carrier whose length sits on the CompactSize boundary: 252, 253, 254 bytes in all
                b"\x6a\x4c" + bytes([249 + j]) + bytes([j]) * (249 + j),
            ],
            "pay.script",
        )
        payments.append(TxOut(amount, script))
    change_wallet = wallets[ch.draw(len(wallets), "change.wallet")] if ch.draw(4, "change?") else None
    change_index = ch.draw(6, "change.index")
    if change_wallet is not None and ch.draw(6, "pay.to-change-script?") == 5:
        # a payment to the very script the change goes to (a wallet consolidating to its own next change address while it
        # pays others): two outputs of one script, of which the LAST is the change
        at = ch.draw(len(payments), "pay.to-change-script.at")
        payments[at] = TxOut(payments[at].value, change_wallet.change.script_pub_key(change_index).script)
    cer = Ceremony(list(cosigners), wallets, specs, payments, rate, change_wallet, change_index, lock_time, None, None, [s.prev_tx.vout[s.vout] for s in specs])  # type: ignore[arg-type]
    cer.funded = build_psbt(psbt_ins, payments, rate, cer.change_script, lock_time=lock_time, sizer=cer.sizer)
    psbt = cer.funded.psbt
    if cer.funded.change_index is not None and change_wallet is not None:
        psbt = change_wallet.change.update_psbt_output(psbt, cer.funded.change_index, change_index)
    if version is None:
        version = ch.pick([0, 2], "psbt.version")
    cer.psbt = psbt.to_v2() if version == 2 else psbt
    if version == 2 and lock_time > 0 and ch.draw(2, "locktime.required?"):
        # BIP370: the lock time stated by the inputs that require one (the largest, all of one kind) instead of the
        # fallback, which then says something else and is read by nobody
        name = "required_height_lock_time" if lock_time < 500_000_000 else "required_time_lock_time"
        floor = 1 if lock_time < 500_000_000 else 500_000_000
        holder = ch.draw(len(cer.psbt.inputs), "locktime.holder")
        for k, psbt_in in enumerate(cer.psbt.inputs):
            if k == holder:
                setattr(psbt_in, name, lock_time)
            elif ch.draw(3, "locktime.other?") == 0:
                setattr(psbt_in, name, floor + ch.draw(lock_time - floor + 1, "locktime.lower"))
        cer.psbt.fallback_lock_time = ch.pick([0, None, 1, lock_time + 1 if lock_time < 499_999_999 else 500_000_000, 499_999_999], "locktime.fallback")
        if cer.psbt.tx.lock_time != lock_time:
            raise AssertionError(f"generator: required lock times give {cer.psbt.tx.lock_time}, wanted {lock_time}")
    return cer


# ---------------------------------------------------------------------------
# the roles after the Updater
# ---------------------------------------------------------------------------
def sign_all(cer: Ceremony, order: Sequence[int] | None = None) -> Psbt:
    """Every needed cosigner signs in turn, each answer held to the request (request_signatures)."""
    current = cer.psbt
    for i in cer.needed if order is None else order:
        current = request_signatures(cer.cosigners[i].signer(), current)
    return current


def finalize_extract(cer: Ceremony, signed: Psbt) -> tuple[Psbt, Tx]:
    final = finalize(signed, solver=cer.solver)
    return final, extract_tx(final)


def verify(cer: Ceremony, tx: Tx, flags: Any = STANDARD_FLAGS, prevouts: Sequence[TxOut] | None = None, *, check_amounts: bool = True) -> None:
    verify_transaction(list(cer.prevouts if prevouts is None else prevouts), tx, flags, check_amounts)
