"""PSBT fields for W5b `roles`: population by draw, atoms and projections, scribbling, edits.

    request, pinned = decorate(ch, cer, base)      # every optional field of every map, populated or not
    full            = with_signatures(request, answers)
    copies          = split(ch, full, pinned, k)   # k operands whose per-map union is `full`
    scribble(psbt)                                 # write into every mutable object reachable from it
    EDITS                                          # one-thing edits of a signer's answer

An *atom* is one key-value pair of a map as the object model holds it: `(scope, index, field, key)` with
scope "g" / "i" / "o" and `key` the dict key of a multi-pair field, None for a one-pair field. What identifies
the transaction (outpoints, amounts, scripts, tx version, and in version 0 everything the unsigned transaction
holds) is no atom: every copy carries it. Everything added here leaves the psbt signable and finalizable:
foreign key origins carry a fingerprint no cosigner has, taproot extras go to non-taproot inputs only.
"""

from __future__ import annotations

import itertools
from copy import deepcopy
from dataclasses import fields
from typing import Any, Callable, Iterator

from btclib.bip32 import bip32
from btclib.bip32.key_origin import BIP32KeyOrigin
from btclib.hashes import hash160, hash256, ripemd160, sha256
from btclib.psbt.psbt import Psbt, finalize
from btclib.psbt.psbt_in import PsbtIn
from btclib.psbt.psbt_out import PsbtOut
from btclib.tx import Tx, TxIn, TxOut

from btcsim.core.choices import Choices
from btcsim.gen import keys as gk
from btcsim.gen import wallets as gw

Atom = tuple[str, int, str, Any]
FOREIGN = bytes.fromhex("deadbeef")  # the master fingerprint of nobody in the ceremony
H = 0x80000000
# valid compressed keys for the fields that parse their keys; computed at import, before any RNG seam is installed
POOL = tuple(gk.compressed(k) for k in range(1, 13))
# type bytes no map defines (0xfc proprietary, the rest unassigned in all three maps)
UNKNOWN_TYPES = (0xFC, 0x19, 0x21, 0x7F, 0xFD, 0xEE)
PREIMAGES = (("sha256_preimages", sha256), ("hash256_preimages", hash256), ("ripemd160_preimages", ripemd160), ("hash160_preimages", hash160))
SIGNATURE_FIELDS = ("partial_sigs", "taproot_key_spend_signature", "taproot_script_spend_signatures")
MUSIG2_SESSION = ("musig2_pub_nonces", "musig2_partial_sigs")
# one-pair fields whose absence is None and whose 0 / b"" is a value
OPTIONAL = frozenset({"sequence", "required_time_lock_time", "required_height_lock_time", "sp_v0_label", "fallback_lock_time", "signed_message"})
GLOBAL_FIELDS = ("hd_key_paths", "unknown", "fallback_lock_time", "signed_message", "sp_ecdh_shares", "sp_dleq_proofs")


# ---------------------------------------------------------------------------
# population
# ---------------------------------------------------------------------------
def _filler(ch: Choices, n: int, label: str) -> bytes:
    return bytes([ch.draw(256, label)]) * n


def unknown_pair(ch: Choices, label: str) -> tuple[bytes, bytes]:
    """A key of an undefined or proprietary type and a value of 0..253 bytes (the compact-size step)."""
    t = ch.pick(UNKNOWN_TYPES, label + ".type")
    if t == 0xFC:
        ident = ch.pick([b"btcsim", b"", b"hw"], label + ".id")
        key = b"\xfc" + bytes([len(ident)]) + ident + bytes([ch.draw(4, label + ".subtype")]) + ch.nbytes(ch.draw(3, label + ".keylen"), label + ".key")
    else:
        key = bytes([t]) + ch.nbytes(ch.draw(4, label + ".keylen"), label + ".key")
    return key, _filler(ch, ch.pick([1, 0, 4, 33, 253], label + ".vlen"), label + ".value")


def decorate(ch: Choices, cer: gw.Ceremony, base: Psbt) -> tuple[Psbt, set[Atom]]:
    """`base` with optional fields added by draw; and the atoms every copy of it must carry."""
    p = deepcopy(base)
    v2 = p.version == 2
    sp = v2 and ch.chance(1, 3, "deco.sp?")  # BIP375 fields have no version 0 spelling: kept to a third of the v2 runs
    serial = itertools.count(1)
    pinned: set[Atom] = set()

    def origin() -> BIP32KeyOrigin:
        return BIP32KeyOrigin(FOREIGN, [H + 99, next(serial)])  # never two keys of one origin

    def key(label: str) -> bytes:
        return POOL[ch.draw(len(POOL), label)]

    def on(label: str) -> bool:
        return ch.chance(1, 3, label)

    def unknowns(m: Any, label: str) -> None:
        for _ in range(1 + ch.draw(2, label + ".n")):
            k, v = unknown_pair(ch, label)
            m.unknown[k] = v

    def taproot_hd(m: Any, label: str) -> None:
        leaves = [_filler(ch, 32, label + ".leaf") for _ in range(ch.draw(3, label + ".leaves"))]
        m.taproot_hd_key_paths.setdefault(key(label)[1:], (leaves, origin()))

    for i, (m, spec) in enumerate(zip(p.inputs, cer.inputs)):
        if on("deco.in.unknown"):
            unknowns(m, "deco.in.unknown")
        if on("deco.in.hd"):
            m.hd_key_paths.setdefault(key("deco.in.hd"), origin())
        if on("deco.in.preimage"):
            name, fn = PREIMAGES[ch.draw(4, "deco.in.preimage.fn")]
            pre = _filler(ch, ch.pick([32, 0, 1, 80], "deco.in.preimage.len"), "deco.in.preimage")
            getattr(m, name)[fn(pre)] = pre
        if on("deco.in.musig2"):
            agg, a, b = key("deco.musig2.agg"), key("deco.musig2.a"), key("deco.musig2.b")
            which = 1 + ch.draw(7, "deco.musig2.which")
            leaf = _filler(ch, 32, "deco.musig2.leaf") if ch.draw(2, "deco.musig2.leaf?") else b""
            if which & 1:
                m.musig2_participant_pub_keys[agg] = [a, b]
            if which & 2:
                m.musig2_pub_nonces[a + agg + leaf] = a + b
            if which & 4:
                m.musig2_partial_sigs[b + agg + leaf] = _filler(ch, 32, "deco.musig2.sig")
        if sp and on("deco.in.sp"):
            scan = key("deco.sp.scan")
            which = 1 + ch.draw(3, "deco.sp.which")
            if which & 1:
                m.sp_ecdh_shares[scan] = key("deco.sp.share")
            if which & 2:
                m.sp_dleq_proofs[scan] = _filler(ch, 64, "deco.sp.proof")
        if spec.wallet.kind != "taproot" and on("deco.in.taproot"):
            which = 1 + ch.draw(63, "deco.tr.which")
            if which & 1:
                m.taproot_internal_key = key("deco.tr.internal")[1:]
            if which & 2:
                m.taproot_merkle_root = _filler(ch, 32, "deco.tr.root")
            if which & 4:
                depth = ch.draw(3, "deco.tr.depth")
                m.taproot_leaf_scripts[b"\xc0" + key("deco.tr.cb")[1:] + _filler(ch, 32 * depth, "deco.tr.path")] = (b"\x51" * (1 + ch.draw(3, "deco.tr.script")), 0xC0)
            if which & 8:
                taproot_hd(m, "deco.tr.hd")
            if which & 16:
                m.taproot_key_spend_signature = _filler(ch, 64, "deco.tr.keysig") + ch.pick([b"", b"\x01", b"\x83"], "deco.tr.keysig.type")
            if which & 32:
                m.taproot_script_spend_signatures[key("deco.tr.sigkey")[1:] + _filler(ch, 32, "deco.tr.sigleaf")] = _filler(ch, 64, "deco.tr.scriptsig")
        if spec.wallet.kind == "segwit0" and m.non_witness_utxo is None and on("deco.in.utxo"):
            m.non_witness_utxo = deepcopy(spec.prev_tx)  # BIP174 allows both for a v0 witness input

    for o in p.outputs:
        if on("deco.out.unknown"):
            unknowns(o, "deco.out.unknown")
        if on("deco.out.hd"):
            o.hd_key_paths.setdefault(key("deco.out.hd"), origin())
        if on("deco.out.scripts"):
            which = 1 + ch.draw(3, "deco.out.scripts.which")
            if which & 1 and not o.redeem_script:
                o.redeem_script = b"\x00\x14" + _filler(ch, 20, "deco.out.redeem")
            if which & 2 and not o.witness_script:
                o.witness_script = b"\x51" + _filler(ch, ch.draw(40, "deco.out.wslen"), "deco.out.ws")
        if on("deco.out.taproot"):
            which = 1 + ch.draw(7, "deco.out.tr.which")
            if which & 1 and not o.taproot_internal_key:
                o.taproot_internal_key = key("deco.out.tr.internal")[1:]
            if which & 2 and not o.taproot_tree:
                o.taproot_tree = [(1, 0xC0, b"\x51"), (1, 0xC0, _filler(ch, 1 + ch.draw(34, "deco.out.tr.len"), "deco.out.tr.script"))]
            if which & 4:
                taproot_hd(o, "deco.out.tr.hd")
        if on("deco.out.musig2"):
            o.musig2_participant_pub_keys[key("deco.out.musig2.agg")] = [key("deco.out.musig2.a"), key("deco.out.musig2.b")]
        if sp and on("deco.out.sp"):
            # BIP375: the address paid; with it the script is optional (computed once the inputs are fixed)
            o.sp_v0_info = key("deco.out.sp.scan") + key("deco.out.sp.spend")
            if ch.draw(2, "deco.out.sp.label?"):
                o.sp_v0_label = ch.pick([0, 1, 0xFFFFFFFF], "deco.out.sp.label")

    if on("deco.g.unknown"):
        unknowns(p, "deco.g.unknown")
    if on("deco.g.xpub"):
        for c in ch.subset(cer.cosigners, "deco.g.xpub.who") or cer.cosigners[:1]:
            p.hd_key_paths[bip32.BIP32KeyData.b58decode(c.account_xpub(0)).serialize()] = BIP32KeyOrigin(c.fingerprint, [H + 48, H, H])
    if on("deco.g.message"):
        p.signed_message = _filler(ch, ch.pick([5, 0, 70], "deco.g.message.len"), "deco.g.message")
    if sp and on("deco.g.sp"):
        scan = key("deco.g.sp.scan")
        p.sp_ecdh_shares[scan] = key("deco.g.sp.share")
        if ch.draw(2, "deco.g.sp.proof?"):
            p.sp_dleq_proofs[scan] = _filler(ch, 64, "deco.g.sp.proof")
    if v2:
        p.tx_modifiable = ch.pick([None, 0, 3, 7, 1, 0x8A], "deco.g.modifiable")
        pinned |= _lock_time_layout(ch, p)
    else:
        pinned.add(("g", 0, "fallback_lock_time", None))
    for j, o in enumerate(p.outputs):
        if o.sp_v0_info:
            pinned.add(("o", j, "sp_v0_info", None))  # it stands in for the script in the identifier
    p.assert_valid()
    return p, pinned


def _lock_time_layout(ch: Choices, p: Psbt) -> set[Atom]:
    """Say the version 2 lock time another way without changing it; return what every copy needs to compute it."""
    lock = p.lock_time
    # whatever layout the ceremony chose (gen/wallets may state it through required lock times): back to the
    # fallback alone first, so that what every copy needs is exactly what this function returns
    for m in p.inputs:
        m.required_height_lock_time = m.required_time_lock_time = None
    p.fallback_lock_time = lock
    layout = ch.draw(3, "deco.locktime.layout")
    if lock == 0:
        # None and 0 both mean 0: an atom like any other
        p.fallback_lock_time = ch.pick([0, None], "deco.locktime.zero")
        return set()
    if layout == 0:
        return {("g", 0, "fallback_lock_time", None)}
    name = "required_height_lock_time" if lock < 500_000_000 else "required_time_lock_time"
    chosen = ch.subset(range(len(p.inputs)), "deco.locktime.inputs") or [0]
    for i in chosen:
        setattr(p.inputs[i], name, lock)
    if layout == 1:
        return {("g", 0, "fallback_lock_time", None)}
    # the fallback is unreachable once an input requires a lock time: absent, or any other value
    p.fallback_lock_time = ch.pick([None, lock + 1, 0], "deco.locktime.fallback")
    return {("i", chosen[0], name, None)}


def with_signatures(request: Psbt, answers: list[Psbt]) -> Psbt:
    """The request with every signature the answers carry (the harness's own union, for building operands)."""
    full = deepcopy(request)
    for answer in answers:
        for dst, src in zip(full.inputs, answer.inputs):
            dst.partial_sigs.update(src.partial_sigs)
            dst.taproot_script_spend_signatures.update(src.taproot_script_spend_signatures)
            dst.taproot_key_spend_signature = dst.taproot_key_spend_signature or src.taproot_key_spend_signature
    return full


# ---------------------------------------------------------------------------
# atoms and projections
# ---------------------------------------------------------------------------
def _map(p: Psbt, scope: str, index: int) -> Any:
    return p if scope == "g" else p.inputs[index] if scope == "i" else p.outputs[index]


def _map_atoms(scope: str, index: int, m: Any, names: list[str]) -> Iterator[Atom]:
    for name in names:
        value = getattr(m, name)
        if isinstance(value, dict):
            yield from ((scope, index, name, k) for k in sorted(value))
        elif value is not None and (name in OPTIONAL or value):
            yield (scope, index, name, None)


def atoms(p: Psbt) -> list[Atom]:
    """Every key-value pair of `p` that is not part of what identifies its transaction."""
    v0 = p.version == 0
    out: list[Atom] = list(_map_atoms("g", 0, p, [n for n in GLOBAL_FIELDS if not (v0 and n == "fallback_lock_time")]))
    skip_in = {"previous_tx_id", "output_index"} | ({"sequence"} if v0 else set())
    for i, m in enumerate(p.inputs):
        out += _map_atoms("i", i, m, [f.name for f in fields(m) if f.name not in skip_in])
    for j, o in enumerate(p.outputs):
        skip_out = {"amount"} | (set() if o.sp_v0_info else {"script_pub_key"})
        out += _map_atoms("o", j, o, [f.name for f in fields(o) if f.name not in skip_out])
    return out


def project(full: Psbt, keep: set[Atom], tx_modifiable: int | None) -> Psbt:
    """The psbt of `full`'s transaction carrying only the atoms in `keep`."""
    v0 = full.version == 0
    ins = [PsbtIn(previous_tx_id=m.previous_tx_id, output_index=m.output_index, sequence=m.sequence if v0 else None, check_validity=False) for m in full.inputs]
    outs = [PsbtOut(amount=o.amount, script_pub_key=b"" if o.sp_v0_info else o.script_pub_key, check_validity=False) for o in full.outputs]
    p = Psbt(full.tx_version, ins, outs, full.version, {}, {}, full.fallback_lock_time if v0 else None, tx_modifiable, check_validity=False)
    for scope, index, name, k in sorted(keep, key=repr):
        src, dst = _map(full, scope, index), _map(p, scope, index)
        if k is None:
            setattr(dst, name, deepcopy(getattr(src, name)))
        else:
            getattr(dst, name)[k] = deepcopy(getattr(src, name)[k])
    return p


def split(ch: Choices, full: Psbt, pinned: set[Atom], k: int) -> tuple[list[Psbt], list[set[Atom]]]:
    """k copies of `full`'s transaction; every atom goes to a drawn non-empty subset of them."""
    keeps: list[set[Atom]] = [set() for _ in range(k)]
    for atom in atoms(full):
        mask = (1 << k) - 1 if atom in pinned else 1 + ch.draw((1 << k) - 1, "split.mask")
        for c in range(k):
            if mask >> c & 1:
                keeps[c].add(atom)
    flags = [None] * k
    if full.version == 2:
        # its merge is an AND/OR by design: drawn per copy, not split
        flags = [ch.pick([full.tx_modifiable, None, 0, 3, 6, 0x81], "split.modifiable") for _ in range(k)]
    return [project(full, keep, flag) for keep, flag in zip(keeps, flags)], keeps


def other_value(name: str, value: Any) -> Any:
    """A different valid value for the same key, or None where the field has no second spelling."""
    if name.endswith("_preimages") or isinstance(value, (Tx, TxOut)) or name in ("final_script_witness", "taproot_tree"):
        return None
    if isinstance(value, bytes):
        if name == "partial_sigs":
            return value[:-1] + bytes([value[-1] ^ 0x80])  # the same DER signature, another sighash byte
        return bytes([value[0] ^ 1]) + value[1:] if value else b"\x01"
    if isinstance(value, int):
        return value ^ (0x80 if name == "sig_hash_type" else 1)
    if isinstance(value, BIP32KeyOrigin):
        return BIP32KeyOrigin(value.master_fingerprint, [*value.der_path, 7])
    if isinstance(value, tuple) and isinstance(value[1], int):
        return (value[0] + b"\x51", value[1])  # a leaf script
    if isinstance(value, tuple):
        return ([*value[0], b"\x07" * 32], value[1])  # a taproot derivation
    if isinstance(value, list):
        return list(reversed(value)) if value != list(reversed(value)) else [*value, value[0]]  # musig2 participants
    return None


def get_atom(p: Psbt, atom: Atom) -> Any:
    scope, index, name, k = atom
    value = getattr(_map(p, scope, index), name)
    return value if k is None else value.get(k)


def set_atom(p: Psbt, atom: Atom, value: Any) -> None:
    scope, index, name, k = atom
    if k is None:
        setattr(_map(p, scope, index), name, value)
    else:
        getattr(_map(p, scope, index), name)[k] = value


def drop_atom(p: Psbt, atom: Atom) -> None:
    scope, index, name, k = atom
    m = _map(p, scope, index)
    if k is not None:
        del getattr(m, name)[k]
    else:
        empty = {"i": PsbtIn, "o": PsbtOut}[scope](check_validity=False) if scope != "g" else None
        setattr(m, name, getattr(empty, name) if empty is not None else None)


# ---------------------------------------------------------------------------
# aliasing
# ---------------------------------------------------------------------------
def scribble(obj: Any) -> None:
    """Write into every mutable object reachable from `obj`: whoever shares one of them now serializes
    differently, or not at all."""
    if isinstance(obj, dict):
        for v in list(obj.values()):
            scribble(v)
        obj[b"\xfc\x06btcsim\x00scribble"] = next(iter(obj.values())) if obj else b"\x00"
    elif isinstance(obj, list):
        for v in obj:
            scribble(v)
        obj.append(obj[-1] if obj else b"\x00")
    elif isinstance(obj, tuple):
        for v in obj:
            scribble(v)
    elif isinstance(obj, (Psbt, PsbtIn, PsbtOut, Tx, TxIn)):
        for v in vars(obj).values():
            scribble(v)
        if isinstance(obj, Tx):
            obj.version ^= 1
        elif isinstance(obj, TxIn):
            obj.sequence ^= 1
        elif isinstance(obj, Psbt):
            obj.tx_version ^= 1
        elif isinstance(obj, PsbtIn):
            obj.output_index = (obj.output_index or 0) ^ 1
            obj.redeem_script += b"\x51"
        else:
            obj.amount = (obj.amount or 0) + 1
            obj.witness_script += b"\x51"


# ---------------------------------------------------------------------------
# one-thing edits of a signer's answer
# ---------------------------------------------------------------------------
Edit = Callable[[Choices, Psbt, Psbt, gw.Ceremony], "Psbt | None"]  # (ch, request, answer copy to edit, ceremony)


def _request_signatures(request: Psbt) -> list[Atom]:
    return [a for a in atoms(request) if a[2] in SIGNATURE_FIELDS]


def _new_signatures(request: Psbt, answer: Psbt) -> list[Atom]:
    had = set(_request_signatures(request))
    return [a for a in atoms(answer) if a[2] in SIGNATURE_FIELDS and a not in had]


UNHELD_GLOBALS = ("signed_message", "sp_ecdh_shares", "sp_dleq_proofs")  # edited by "global-message" / "global-sp" only


def _plain_atoms(p: Psbt) -> list[Atom]:
    """What an answer must bring back as sent: every atom that is no signature and no BIP373 round."""
    return [a for a in atoms(p) if a[2] not in SIGNATURE_FIELDS and a[2] not in MUSIG2_SESSION and not (a[0] == "g" and a[2] in UNHELD_GLOBALS)]


def _spoil(name: str, sig: bytes) -> bytes:
    """The same encoding, another s: a signature of nothing."""
    at = -2 if name == "partial_sigs" else 63
    b = bytearray(sig)
    b[at] ^= 1
    return bytes(b)


def _amount(ch: Choices, r: Psbt, a: Psbt, cer: gw.Ceremony) -> Psbt | None:
    o = a.outputs[ch.draw(len(a.outputs), "edit.output")]
    o.amount = (o.amount or 0) + ch.pick([1, -1], "edit.delta")
    return a


def _output_script(ch: Choices, r: Psbt, a: Psbt, cer: gw.Ceremony) -> Psbt | None:
    o = a.outputs[ch.draw(len(a.outputs), "edit.output")]
    o.script_pub_key = other_value("script_pub_key", o.script_pub_key)
    return a


def _sequence(ch: Choices, r: Psbt, a: Psbt, cer: gw.Ceremony) -> Psbt | None:
    m = a.inputs[ch.draw(len(a.inputs), "edit.input")]
    m.sequence = (gw.FINAL if m.sequence is None else m.sequence) ^ (1 << ch.draw(32, "edit.bit"))
    return a


def _lock_time(ch: Choices, r: Psbt, a: Psbt, cer: gw.Ceremony) -> Psbt | None:
    a.fallback_lock_time = (a.fallback_lock_time or 0) ^ 1
    return a


def _unknown_added(ch: Choices, r: Psbt, a: Psbt, cer: gw.Ceremony) -> Psbt | None:
    m = _map(a, *ch.pick([("i", ch.draw(len(a.inputs), "edit.input")), ("o", ch.draw(len(a.outputs), "edit.output")), ("g", 0)], "edit.scope"))
    k, v = unknown_pair(ch, "edit.unknown")
    if k in m.unknown:
        return None
    m.unknown[k] = v
    return a


def _of_field(pick: Callable[[Atom], bool]) -> Callable[[Choices, Psbt], Atom | None]:
    def choose(ch: Choices, p: Psbt) -> Atom | None:
        found = [a for a in _plain_atoms(p) if pick(a)]
        return found[ch.draw(len(found), "edit.atom")] if found else None

    return choose


def _altered(pick: Callable[[Atom], bool]) -> Edit:
    def edit(ch: Choices, r: Psbt, a: Psbt, cer: gw.Ceremony) -> Psbt | None:
        atom = _of_field(pick)(ch, r)
        new = other_value(atom[2], get_atom(a, atom)) if atom else None
        if new is None:
            return None
        set_atom(a, atom, new)
        return a

    return edit


def _dropped(pick: Callable[[Atom], bool]) -> Edit:
    def edit(ch: Choices, r: Psbt, a: Psbt, cer: gw.Ceremony) -> Psbt | None:
        atom = _of_field(pick)(ch, r)
        if atom is None:
            return None
        drop_atom(a, atom)
        return a

    return edit


def _utxo_added(ch: Choices, r: Psbt, a: Psbt, cer: gw.Ceremony) -> Psbt | None:
    i = ch.draw(len(a.inputs), "edit.input")
    m, spec = a.inputs[i], cer.inputs[i]
    if m.non_witness_utxo is None:
        m.non_witness_utxo = deepcopy(spec.prev_tx)
    elif m.witness_utxo is None:
        m.witness_utxo = spec.prev_tx.vout[spec.vout]
    else:
        return None
    return a


def _utxo_replaced(ch: Choices, r: Psbt, a: Psbt, cer: gw.Ceremony) -> Psbt | None:
    found = [m for m in a.inputs if m.witness_utxo is not None]
    if not found:
        return None
    m = found[ch.draw(len(found), "edit.input")]
    m.witness_utxo = TxOut(m.witness_utxo.value + ch.pick([1, -1], "edit.delta"), m.witness_utxo.script_pub_key)
    return a


def _signature(kind: str) -> Edit:
    def edit(ch: Choices, r: Psbt, a: Psbt, cer: gw.Ceremony) -> Psbt | None:
        found = _new_signatures(r, a) if kind == "invalid" else _request_signatures(r)
        if not found:
            return None
        atom = found[ch.draw(len(found), "edit.signature")]
        if kind == "dropped":
            drop_atom(a, atom)
        else:
            set_atom(a, atom, _spoil(atom[2], get_atom(a, atom)))
        return a

    return edit


def _signature_retyped(ch: Choices, r: Psbt, a: Psbt, cer: gw.Ceremony) -> Psbt | None:
    """A signature the answer added, filed under another (defined) hash type than the one it was made for: the
    same DER or Schnorr octets, another last byte. It signs another message, so it is not a valid added signature."""
    found = _new_signatures(r, a)
    if not found:
        return None
    atom = found[ch.draw(len(found), "edit.signature")]
    sig = get_atom(a, atom)
    if atom[2] == "partial_sigs":
        others = [t for t in (0x01, 0x02, 0x03, 0x81, 0x82, 0x83) if t != sig[-1]]
        set_atom(a, atom, sig[:-1] + bytes([ch.pick(others, "edit.type")]))
    else:
        body, was = (sig, 0) if len(sig) == 64 else (sig[:64], sig[64])
        others = [t for t in (0x01, 0x02, 0x03, 0x81, 0x82, 0x83, 0) if t != was]
        t = ch.pick(others, "edit.type")
        set_atom(a, atom, body + (bytes([t]) if t else b""))
    return a


def _foreign_signature(ch: Choices, r: Psbt, a: Psbt, cer: gw.Ceremony) -> Psbt | None:
    """A well-formed signature filed under a key nobody asked: some other entry's bytes."""
    found = [x for x in atoms(a) if x[2] == "partial_sigs"]
    if not found:
        return None
    atom = found[ch.draw(len(found), "edit.signature")]
    k = POOL[ch.draw(len(POOL), "edit.key")]
    a.inputs[atom[1]].partial_sigs[k] = get_atom(a, atom)
    return a


def _modifiable_loosened(ch: Choices, r: Psbt, a: Psbt, cer: gw.Ceremony) -> Psbt | None:
    if a.version != 2:
        return None
    was = r.tx_modifiable or 0
    settable = [b for b in (1, 2) if not was & b]
    clearable = [1 << n for n in range(2, 8) if was >> n & 1]
    if not settable + clearable:
        return None
    bit = ch.pick(settable + clearable, "edit.bit")
    a.tx_modifiable = (a.tx_modifiable or 0) ^ bit
    return a


def _field_added(ch: Choices, r: Psbt, a: Psbt, cer: gw.Ceremony) -> Psbt | None:
    kind = ch.draw(6, "edit.added")
    m = a.inputs[ch.draw(len(a.inputs), "edit.input")]
    o = a.outputs[ch.draw(len(a.outputs), "edit.output")]
    k = POOL[ch.draw(len(POOL), "edit.key")]
    origin = BIP32KeyOrigin(FOREIGN, [H + 98, ch.draw(1000, "edit.path")])
    if kind == 0 and k not in m.hd_key_paths:
        m.hd_key_paths[k] = origin
    elif kind == 1 and k not in o.hd_key_paths:
        o.hd_key_paths[k] = origin
    elif kind == 2 and not o.witness_script:
        o.witness_script = b"\x51"
    elif kind == 3:
        pre = ch.nbytes(8, "edit.preimage")
        m.sha256_preimages[sha256(pre)] = pre
    elif kind == 4:
        a.hd_key_paths[k + b"\x00" * 45] = origin  # 78 bytes: a global xpub entry
    elif kind == 5 and a.version == 2 and k not in m.sp_ecdh_shares:
        m.sp_ecdh_shares[k] = POOL[0]
    else:
        return None
    return a


def _sighash_type(ch: Choices, r: Psbt, a: Psbt, cer: gw.Ceremony) -> Psbt | None:
    m = a.inputs[ch.draw(len(a.inputs), "edit.input")]
    m.sig_hash_type = ch.pick([t for t in gw.SIGHASH_TYPES[1:] if t != m.sig_hash_type], "edit.type")
    return a


def _finalized(ch: Choices, r: Psbt, a: Psbt, cer: gw.Ceremony) -> Psbt | None:
    """A signer that plays Finalizer too, where it can: single-key inputs it has just signed."""
    try:
        done = finalize(a, solver=cer.solver)
    except Exception:  # noqa: BLE001  (not every answer is complete)
        i = ch.draw(len(a.inputs), "edit.input")
        a.inputs[i].final_script_sig = b"\x51"
        return a
    return done


def _converted(ch: Choices, r: Psbt, a: Psbt, cer: gw.Ceremony) -> Psbt | None:
    if any(o.sp_v0_info for o in a.outputs) or a.sp_ecdh_shares or any(m.sp_ecdh_shares or m.sp_dleq_proofs for m in a.inputs):
        return None  # version 0 cannot say it
    return a.to_v2() if a.version == 0 else a.to_v0()


def _global_message(ch: Choices, r: Psbt, a: Psbt, cer: gw.Ceremony) -> Psbt | None:
    a.signed_message = b"pay me instead" if a.signed_message is None else ch.pick([a.signed_message + b"!", None], "edit.message")
    return a


def _global_sp(ch: Choices, r: Psbt, a: Psbt, cer: gw.Ceremony) -> Psbt | None:
    k = POOL[ch.draw(len(POOL), "edit.key")]
    if a.version != 2 or k in a.sp_ecdh_shares:
        return None
    a.sp_ecdh_shares[k] = POOL[1]
    return a


def _is(name: str) -> Callable[[Atom], bool]:
    return lambda a: a[2] == name


EDITS: list[tuple[str, Edit]] = [
    ("amount", _amount),
    ("sequence", _sequence),
    ("unknown-added", _unknown_added),
    ("unknown-altered", _altered(_is("unknown"))),
    ("unknown-dropped", _dropped(_is("unknown"))),
    ("utxo-added", _utxo_added),
    ("utxo-replaced", _utxo_replaced),
    ("signature-replaced", _signature("replaced")),
    ("signature-dropped", _signature("dropped")),
    ("signature-invalid", _signature("invalid")),
    ("signature-foreign", _foreign_signature),
    ("signature-retyped", _signature_retyped),
    ("modifiable-loosened", _modifiable_loosened),
    ("output-script", _output_script),
    ("field-dropped", _dropped(lambda a: a[2] != "unknown")),
    ("field-altered", _altered(lambda a: a[2] != "unknown")),
    ("field-added", _field_added),
    ("sighash-type", _sighash_type),
    ("lock-time", _lock_time),
    ("finalized", _finalized),
    ("version-converted", _converted),
    ("global-message", _global_message),
    ("global-sp", _global_sp),
]
