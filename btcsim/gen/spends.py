"""Hostile scripts behind valid commitments.

A transaction input is only executed by the engine if its spend form's
commitment holds: the hash160 of a p2sh redeem script, the sha256 of a p2wsh
witness script, the BIP341 control block of a p2tr leaf. Corrupting a valid
spend breaks the commitment first, so this generator goes the other way: it
draws an ARBITRARY inner script and initial stack and computes the commitment
around them (hashlib; BIP341's tagged hashes transcribed from the BIP; only
the elliptic-curve tweak of the internal key is btclib's).

Inner scripts: (a) uniformly random octets, (b) a short sequence over all 256
opcode byte values with small pushes in between and nothing (or OP_1) in
front, so that every byte value is reachable in executed position, (c) a
valid little script with one byte replaced. Signature checks are given keys
that are well-formed but not points of the curve, and signatures that pass
every encoding gate, so that the verification itself is what answers.
"""

from __future__ import annotations

import hashlib
from dataclasses import dataclass

from btclib.hashes import hash160
from btclib.script import taproot

from btcsim.core.choices import Choices
from btcsim.gen.objects import MAX_MONEY, Pool, W, blob, compact_size, uint

FORMS = ("p2tr", "p2wsh", "p2sh", "p2sh-p2wsh", "p2tr")  # the script path twice: it has the most to go wrong
NUMS = bytes.fromhex("50929b74c1a04954b78b4b6035e97a5e078a5a0f28ec96d547bfee9ace803ac0")  # BIP341's unspendable internal key
LEAF_VERSIONS = (0xC0, 0xC0, 0xC0, 0xC0, 0xC0, 0xC2, 0xFE, 0x00, 0x66, 0x50)  # only 0xc0 is executed as tapscript
# byte values worth meeting in executed position beside the uniform draw: push boundaries, reserved, disabled,
# NOPs, the tapscript additions, the OP_SUCCESS range and its two ends
_EDGE_OPS = (
    0x00, 0x4B, 0x4C, 0x4D, 0x4E, 0x4F, 0x50, 0x60, 0x61, 0x62, 0x65, 0x66, 0x7E, 0x7F, 0x80, 0x81, 0x83, 0x89, 0x8A, 0x8D, 0x95,
    0xA9, 0xAB, 0xAC, 0xAE, 0xAF, 0xB0, 0xB1, 0xB2, 0xB3, 0xB9, 0xBA, 0xBB, 0xBC, 0xFD, 0xFE, 0xFF,
)
_LENGTHS = (0, 1, 32, 33, 64, 65, 71, 72, 80, 20)


def tagged_hash(tag: bytes, data: bytes) -> bytes:
    t = hashlib.sha256(tag).digest()
    return hashlib.sha256(t + t + data).digest()


def push(data: bytes, minimal: bool = True) -> bytes:
    """One script push of ``data``: the shortest opcode, or (not minimal) OP_PUSHDATA1."""
    if minimal and not data:
        return b"\x00"
    if minimal and len(data) == 1 and 1 <= data[0] <= 16:
        return bytes([0x50 + data[0]])
    if minimal and len(data) <= 75:
        return bytes([len(data)]) + data
    return b"\x4c" + bytes([len(data)]) + data if len(data) <= 255 else b"\x4d" + len(data).to_bytes(2, "little") + data


def _item(ch: Choices, label: str) -> bytes:
    n = _LENGTHS[k] if (k := ch.draw(len(_LENGTHS) + 3, label + ".k")) < len(_LENGTHS) else ch.draw(81, label + ".n")
    return (bytes([ch.pick([0, 1, 2, 16, 0x80, 0x81, 0xFF], label + ".b")]) if n == 1 else blob(ch, n, label))


_P = 2**256 - 2**32 - 977
_N = 0xFFFFFFFFFFFFFFFFFFFFFFFFFFFFFFFEBAAEDCE6AF48A03BBFD25E8CD0364141


def der_sig(ch: Choices, label: str = "dersig") -> bytes:
    """A signature that passes every encoding gate (strict DER, low s, a defined hash type) and signs nothing."""
    r = 1 + ch.draw(_N - 1, label + ".r") if ch.draw(3, label + ".rk") else ch.pick([1, 0x7F, 0x80, 2**255], label + ".redge")
    s_ = 1 + ch.draw(_N // 2, label + ".s") if ch.draw(3, label + ".sk") else ch.pick([1, 0x7F, 0x80, _N // 2], label + ".sedge")

    def integer(v: int) -> bytes:
        b = v.to_bytes((v.bit_length() + 8) // 8, "big")
        return b"\x02" + bytes([len(b)]) + b

    body = integer(r) + integer(s_)
    return b"\x30" + bytes([len(body)]) + body + bytes([ch.pick([1, 1, 2, 3, 0x81, 0x82, 0x83], label + ".type")])


def off_curve_key(ch: Choices, label: str = "offkey") -> bytes:
    """Well-formed by size and prefix, and not a point of secp256k1."""
    while True:
        x = ch.draw(_P, label + ".x")
        if pow(x**3 + 7, (_P - 1) // 2, _P) != 1:
            break
    k = ch.draw(4, label + ".form")
    if k < 2:
        return bytes([2 + k]) + x.to_bytes(32, "big")
    return bytes([(4, 6 + ch.draw(2, label + ".hybrid"))[k - 2]]) + x.to_bytes(32, "big") + ch.nbytes(32, label + ".y")


def _little_scripts(ch: Choices, pool: Pool) -> list[bytes]:
    pk, x = push(pool.pub33()), push(pool.xonly())
    bad = push(off_curve_key(ch))
    return [
        bad + b"\xac", b"\x51" + bad + pk + b"\x52\xae", b"\x51" + pk + bad + b"\x52\xae", push(bad[2:34]) + b"\xac", bad + b"\xad\x51",
        b"\x51", b"\x51\x69\x51", pk + b"\xac", x + b"\xac", b"\x76\xa9" + push(ch.nbytes(20, "tmpl.h20")) + b"\x88\xac",
        b"\x63\x51\x67\x00\x68", b"\x52\x53\x93\x55\x87", b"\xa8" + push(ch.nbytes(32, "tmpl.h32")) + b"\x87",
        push(bytes([1 + ch.draw(16, "tmpl.csv")])) + b"\xb2\x75\x51", x + b"\xac" + x + b"\xba\x52\x9c", b"\x51" + pk + pk + b"\x52\xae",
        b"\x82\x01\x20\x87", b"\x6b\x6c\x51", b"\xab\x51", b"\x00\x63\xff\x68\x51", b"\x6a\x51",
    ]


def inner_script(ch: Choices, pool: Pool) -> tuple[str, bytes]:
    kind = ch.pick(["ops", "template", "ops", "random"], "script.kind")
    if kind == "random":
        return kind, ch.nbytes(n, "script.bytes") if (n := ch.draw(81, "script.len")) else b""
    if kind == "template":
        script = bytearray(ch.pick(_little_scripts(ch, pool), "script.tmpl"))
        if ch.draw(4, "script.replace"):
            script[ch.draw(len(script), "script.at")] = ch.draw(256, "script.byte")
        return kind, bytes(script)
    out = b"\x51" if ch.draw(2, "script.lead") else b""
    for _ in range(1 + ch.draw(4, "script.nops")):
        out += bytes([ch.pick(_EDGE_OPS, "script.edge") if ch.draw(2, "script.opk") else ch.draw(256, "script.op")])
        if ch.draw(3, "script.pushk") == 0:
            out += push(_item(ch, "script.push")[:40], minimal=bool(ch.draw(4, "script.minimal")))
    return kind, out


@dataclass
class Spend:
    form: str
    kind: str  # how the inner script was drawn
    script: bytes  # the inner script the engine is to execute
    spk: bytes  # the output being spent
    script_sig: bytes
    witness: list[bytes]
    control: bytes = b""  # p2tr: the control block proving the leaf


def spend(ch: Choices, pool: Pool, form: str) -> Spend:
    kind, script = inner_script(ch, pool)
    stack = [_item(ch, "stack.item") for _ in range(ch.draw(5, "stack.n"))]
    if script[-1:] in (b"\xac", b"\xae") or script[-2:-1] == b"\xad":
        # a signature check ends the script: in half the runs the stack is what reaches the verification itself,
        # a signature that passes the encoding gates (with CHECKMULTISIG's dummy under it)
        if ch.draw(2, "stack.sigs"):
            stack = [b"", der_sig(ch)] if script[-1:] == b"\xae" else [der_sig(ch)]
    if form == "p2sh":
        minimal = bool(ch.draw(4, "stack.minimal"))
        script_sig = b"".join(push(item, minimal) for item in stack) + push(script, len(script) <= 75)
        return Spend(form, kind, script, b"\xa9\x14" + hash160(script) + b"\x87", script_sig, [])
    if form in ("p2wsh", "p2sh-p2wsh"):
        program = b"\x00\x20" + hashlib.sha256(script).digest()
        if form == "p2wsh":
            return Spend(form, kind, script, program, b"", [*stack, script])
        return Spend(form, kind, script, b"\xa9\x14" + hash160(program) + b"\x87", push(program), [*stack, script])
    # p2tr script path: a tree of 1-3 leaves, the spent one first
    version = ch.pick(LEAF_VERSIONS, "tap.version")
    leaf = tagged_hash(b"TapLeaf", bytes([version]) + compact_size(len(script)) + script)
    path = [ch.nbytes(32, "tap.sibling") for _ in range(ch.draw(3, "tap.depth"))]
    root = leaf
    for sibling in path:
        root = tagged_hash(b"TapBranch", min(root, sibling) + max(root, sibling))
    internal = NUMS if ch.draw(3, "tap.nums") == 0 else pool.xonly()
    q, parity = taproot.output_pubkey_from_merkle_root(internal, root)
    control = bytes([version | parity]) + internal + b"".join(path)
    witness = [*stack, script, control]
    if ch.draw(6, "tap.annex") == 0:
        witness.append(b"\x50" + blob(ch, ch.draw(20, "tap.annexlen"), "tap.annex.v"))
    return Spend(form, kind, script, b"\x51\x20" + q, b"", witness, control)


def spending_tx(ch: Choices, spends: list[Spend]) -> tuple[bytes, list[int]]:
    """The octets of a transaction spending one output per ``Spend``, and those outputs' amounts."""
    values = [ch.pick([0, 1, 546, MAX_MONEY // 4], "spend.value") if ch.draw(3, "spend.vk") else ch.draw(MAX_MONEY // 4, "spend.v") for _ in spends]
    segwit = any(s.witness for s in spends)
    w = W().u(ch.pick([2, 1, 0, 0xFFFFFFFF], "spend.version"), 4)
    if segwit:
        w.put(b"\x00", "marker").put(b"\x01", "flag")
    w.cs(len(spends))
    for k, s in enumerate(spends):
        w.put(hashlib.sha256(bytes([k]) + s.spk).digest()).u(ch.draw(4, "spend.vout"), 4).vb(s.script_sig)
        w.u(ch.pick([0xFFFFFFFF, 0, 0xFFFFFFFE, 1, 0x00400001], "spend.sequence") if ch.draw(3, "spend.sk") else uint(ch, 4, "spend.seq"), 4)
    w.cs(1).i(ch.draw(sum(values) + 1, "spend.out"), 8).vb(b"\x00\x14" + ch.nbytes(20, "spend.to"))
    if segwit:
        for s in spends:
            w.cs(len(s.witness))
            for item in s.witness:
                w.vb(item)
    w.u(ch.pick([0, 1, 499_999_999, 500_000_000, 0xFFFFFFFF], "spend.lock") if ch.draw(3, "spend.lk") else uint(ch, 4, "spend.locktime"), 4)
    return w.raw(), values
