"""Transactions, coinbases and block material drawn from the choice sequence.

Structure (counts, script kinds, segwit or not) is drawn; bulk bytes (hashes,
keys, pushes) are derived from one drawn salt with SHA-256, so that a run has
few draws and shrinks well. The generator keeps, next to every btclib object,
the *raw scripts* it was built from: W9's filter oracle is computed from those,
not read back from the library objects.
"""

from __future__ import annotations

import hashlib
from dataclasses import dataclass, field
from typing import Any

from btclib.script.witness import Witness
from btclib.tx import OutPoint, Tx, TxIn, TxOut

from btcsim.core.choices import Choices

COMMITMENT_PREFIX = bytes.fromhex("6a24aa21a9ed")


class Bulk:
    """Derived bytes: sha256(salt, counter)."""

    def __init__(self, ch: Choices, label: str = "bulk.salt") -> None:
        self.salt = ch.nbytes(8, label)
        self.n = 0

    def take(self, k: int) -> bytes:
        out = b""
        while len(out) < k:
            self.n += 1
            out += hashlib.sha256(self.salt + self.n.to_bytes(8, "big")).digest()
        return out[:k]


def script(ch: Choices, bulk: Bulk, prevout: bool = False) -> bytes:
    """A script_pub_key of a drawn shape; OP_RETURN, empty and odd ones included."""
    kind = ch.weighted(
        [("p2wpkh", 4), ("p2pkh", 3), ("p2tr", 3), ("p2sh", 2), ("op_return", 1 if prevout else 3), ("empty", 1), ("bare", 1), ("long", 1)],
        "script.kind",
    )
    if kind == "p2wpkh":
        return b"\x00\x14" + bulk.take(20)
    if kind == "p2pkh":
        return b"\x76\xa9\x14" + bulk.take(20) + b"\x88\xac"
    if kind == "p2tr":
        return b"\x51\x20" + bulk.take(32)
    if kind == "p2sh":
        return b"\xa9\x14" + bulk.take(20) + b"\x87"
    if kind == "op_return":
        n = ch.draw(40, "script.n")
        return b"\x6a" + (bytes([n]) + bulk.take(n) if n else b"")
    if kind == "empty":
        return b""
    if kind == "bare":
        return bytes([0x51 + ch.draw(16, "script.op")])
    return b"\x63" + bulk.take(60 + ch.draw(200, "script.n")) + b"\x68"


@dataclass
class GenTx:
    tx: Tx
    out_scripts: list[bytes]
    prev_scripts: list[bytes]  # one per input, in order


def gen_tx(ch: Choices, bulk: Bulk, reuse: list[bytes]) -> GenTx:
    """An ordinary transaction; ``reuse``: scripts already in the block, repeated now and then."""
    segwit = bool(ch.draw(2, "tx.segwit"))
    vin, prev_scripts = [], []
    for _ in range(1 + ch.draw(3, "tx.nin")):
        witness = None
        if segwit and ch.draw(4, "in.witness"):
            witness = Witness([bulk.take(ch.pick([0, 1, 32, 33, 64, 72], "wit.len")) for _ in range(1 + ch.draw(3, "wit.n"))])
        sig = b"" if witness is not None and ch.draw(3, "in.nested") else bulk.take(ch.pick([0, 1, 23, 72, 107], "sig.len"))
        vin.append(TxIn(OutPoint(bulk.take(32), ch.draw(4, "in.vout")), sig, 0xFFFFFFFF - ch.draw(3, "in.seq"), witness))
        prev_scripts.append(ch.pick(reuse, "prev.reuse") if reuse and ch.chance(1, 6, "prev.reuse?") else script(ch, bulk, prevout=True))
    out_scripts = []
    for _ in range(1 + ch.draw(3, "tx.nout")):
        out_scripts.append(ch.pick(reuse, "out.reuse") if reuse and ch.chance(1, 6, "out.reuse?") else script(ch, bulk))
    vout = [TxOut(int.from_bytes(bulk.take(4), "big"), s) for s in out_scripts]
    return GenTx(Tx(1 + ch.draw(2, "tx.version"), ch.pick([0, 500_000, 1_700_000_000], "tx.locktime"), vin, vout), out_scripts, prev_scripts)


def malleate_witness(g: GenTx, bulk: Bulk) -> Tx:
    """The same transaction id with another (or a first) witness: a different wtxid."""
    vin = [TxIn(i.prev_out, i.script_sig, i.sequence, i.script_witness) for i in g.tx.vin]
    vin[0] = TxIn(vin[0].prev_out, vin[0].script_sig, vin[0].sequence, Witness([bulk.take(9)]))
    return Tx(g.tx.version, g.tx.lock_time, vin, list(g.tx.vout))


@dataclass
class Coinbase:
    tx: Tx
    out_scripts: list[bytes] = field(default_factory=list)


def coinbase(height_script: bytes, extranonce: bytes, pay_script: bytes, commitments: list[bytes], nonce: bytes | None) -> Coinbase:
    """A BIP34 coinbase; ``commitments``: BIP141 commitment values, each in an
    output of its own, in order (the last one is the one that counts)."""
    scripts = [pay_script] + [COMMITMENT_PREFIX + c for c in commitments]
    tx_in = TxIn(OutPoint(), height_script + bytes([len(extranonce)]) + extranonce, 0xFFFFFFFF, Witness([nonce]) if nonce is not None else None)
    vout: list[Any] = [TxOut(50_0000_0000 if i == 0 else 0, s) for i, s in enumerate(scripts)]
    return Coinbase(Tx(2, 0, [tx_in], vout), scripts)
