"""Curves drawn from the choice sequence: catalogued ones and toy curves
whose group the reference law enumerates.

A toy curve is (p, a, b) with p a prime <= 251 (3, 5 and 7 drawn with a
weight of their own: 5 and 7 are the x of the in-band spellings of infinity)
and a non-zero discriminant; the reference counts its points, takes the
largest prime-order subgroup n, the cofactor h and a generator h*P. It is
kept when ``Curve(p, a, b, G, n, h)`` accepts it. SEC 1's cofactor formula --
the one the constructor checks -- is exact when n > 4*sqrt(p): a refusal
inside that range is worth a probe, one outside it is legitimate; neither is
ever asserted. ``strict`` keeps only curves inside the range.
"""

from __future__ import annotations

from typing import Any, Callable

from btclib.curves import CURVES, Curve
from btclib.exceptions import BTClibException

from btcsim.core.ctx import Ctx
from btcsim.ref.ec import RefCurve, is_prime

TINY_PRIMES = [3, 5, 7]
TOY_PRIMES = [p for p in range(3, 252) if is_prime(p)]
FALLBACK_TOY = (23, 5, 1, (0, 1), 31, 1)  # ec23_31 of the test suite, p % 4 == 3, h == 1
ToyParams = tuple[int, int, int, tuple[int, int], int, int]


def ref_of(ec: Curve) -> RefCurve:
    """The reference curve over the same parameters (data, not code, is shared)."""
    return RefCurve(ec.p, ec._a, ec._b, ec.G, ec.n)


def catalogued(name: str) -> tuple[Curve, RefCurve]:
    return CURVES[name], ref_of(CURVES[name])


def _toy_params(ctx: Ctx, label: str, p_ok: Callable[[int], bool]) -> ToyParams | None:
    """One draw of (p, a, b) and, by the reference law, its largest prime-order subgroup."""
    ch = ctx.ch
    tiny = [q for q in TINY_PRIMES if p_ok(q)]
    p = ch.pick(tiny if tiny and ch.chance(1, 4, label + ".tiny?") else [q for q in TOY_PRIMES if p_ok(q)], label + ".p")
    a, b = ch.draw(p, label + ".a"), ch.draw(p, label + ".b")
    if (4 * a**3 + 27 * b * b) % p == 0:
        return None
    ref = RefCurve(p, a, b)
    pts = ref.all_points()
    order = len(pts) + 1
    if order < 3:
        return None
    n = max(q for q in range(2, order + 1) if order % q == 0 and is_prime(q))
    h = order // n
    start = ch.draw(len(pts), label + ".gen") if pts else 0
    for i in range(len(pts)):
        G = ref.mul(h, pts[(start + i) % len(pts)])
        if G is not None:
            return p, a, b, G, n, h
    return None


def toy_curve(
    ctx: Ctx, label: str = "toy", p_ok: Callable[[int], bool] = lambda p: True, strict: bool = False, tries: int = 16,
) -> tuple[Curve, RefCurve, ToyParams]:
    """A toy curve the constructor accepts, as (btclib Curve, reference, parameters).

    After ``tries`` unlucky draws the fixed fallback curve is used.
    """
    for _ in range(tries):
        t = _toy_params(ctx, label, p_ok)
        if t is None:
            continue
        in_range = t[4] * t[4] > 16 * t[0]
        if strict and not in_range:
            ctx.probe("toy:outside-cofactor-range")
            continue
        try:
            ec = Curve(*t, weakness_check=False)
        except BTClibException as e:
            why = "n=p" if "n=p" in str(e) else "cofactor" if "cofactor" in str(e) else "other"
            ctx.probe(f"toy:refused-{'inside' if in_range else 'outside'}-cofactor-range:{why}")
            continue
        ctx.probe("toy:kept" if in_range else "toy:kept-outside-cofactor-range")
        if t[0] <= 7:
            ctx.probe(f"toy:kept-p={t[0]}")
        return ec, RefCurve(t[0], t[1], t[2], t[3], t[4]), t
    ctx.probe("toy:fallback")
    t = FALLBACK_TOY
    return Curve(*t, weakness_check=False), RefCurve(t[0], t[1], t[2], t[3], t[4]), t


_KIN: list[dict[str, Any]] | None = None


def kin_curves() -> list[dict[str, Any]]:
    """Caller-defined curves over the FIELD of a catalogued curve that are not that curve: the other twist classes of
    y^2 = x^3 + b over the fields of the four a == 0 curves, and the quadratic twists of the a != 0 ones, each with
    the largest prime-order subgroup a partial factorization of the group order gives (computed offline with
    sympy: trace arithmetic for the sextic twists, 2(p+1) - #E for the quadratic ones; a generator drawn and
    checked there, and checked again by the constructor here). Whatever the library keys on a field or on a == 0
    rather than on the curve -- endomorphism constants, tables, memos -- meets the wrong group on these."""
    global _KIN  # noqa: PLW0603
    if _KIN is None:
        import json  # noqa: PLC0415
        import os  # noqa: PLC0415

        with open(os.path.join(os.path.dirname(__file__), "data", "kin_curves.json")) as f:
            _KIN = json.load(f)
    return _KIN


def kin_curve(ctx: Ctx, max_bits: int = 521) -> tuple[Curve, RefCurve, str]:
    ks = [k for k in kin_curves() if k["p"].bit_length() <= max_bits]
    k = ks[ctx.ch.draw(len(ks), "kin.which")]
    G = (k["G"][0], k["G"][1])
    ec = Curve(k["p"], k["a"], k["b"], G, k["n"], k["h"], weakness_check=bool(ctx.ch.draw(2, "kin.checks")))
    return ec, RefCurve(k["p"], k["a"], k["b"], G, k["n"]), f"kin-of-{k['like']}:b={k['b'] if k['b'] < 1000 else 'p-' + str(k['p'] - k['b']) if k['p'] - k['b'] < 1000 else hex(k['b'])[:12]}"


def twin(ec: Curve) -> Any:
    """An equal but not identical curve object (shares cache entries by equality)."""
    return Curve(ec.p, ec._a, ec._b, ec.G, ec.n, ec.cofactor, weakness_check=False, order_check=False, name=ec.name)
