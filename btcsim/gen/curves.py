"""Curves drawn from the choice sequence: catalogued ones and toy curves
whose group the reference law enumerates.

A toy curve is (p, a, b) with p a prime <= 251 and a non-zero discriminant;
the reference counts its points, takes the largest prime-order subgroup n,
the cofactor h and a generator h*P. It is *kept* only when n > 4*sqrt(p):
the range in which SEC 1's cofactor formula -- the one ``Curve.__init__``
checks -- is exact, so that a refusal by the constructor outside it is
legitimate and one inside it is worth a probe (never an assertion).
"""

from __future__ import annotations

from typing import Any, Callable

from btclib.curves import CURVES, Curve
from btclib.exceptions import BTClibException

from btcsim.core.ctx import Ctx
from btcsim.ref.ec import RefCurve, is_prime

TOY_PRIMES = [p for p in range(5, 252) if is_prime(p)]
FALLBACK_TOY = (23, 5, 1, (0, 1), 31, 1)  # ec23_31 of the test suite, p % 4 == 3, h == 1
ToyParams = tuple[int, int, int, tuple[int, int], int, int]


def ref_of(ec: Curve) -> RefCurve:
    """The reference curve over the same parameters (data, not code, is shared)."""
    return RefCurve(ec.p, ec._a, ec._b, ec.G, ec.n)


def catalogued(name: str) -> tuple[Curve, RefCurve]:
    return CURVES[name], ref_of(CURVES[name])


def _toy_params(ctx: Ctx, label: str, p_ok: Callable[[int], bool]) -> ToyParams | None:
    """One draw of (p, a, b) and, by the reference law, its subgroup."""
    ch = ctx.ch
    p = ch.pick([q for q in TOY_PRIMES if p_ok(q)], label + ".p")
    a, b = ch.draw(p, label + ".a"), ch.draw(p, label + ".b")
    if (4 * a**3 + 27 * b * b) % p == 0:
        return None
    ref = RefCurve(p, a, b)
    pts = ref.all_points()
    order = len(pts) + 1
    n = max(q for q in range(2, order + 1) if order % q == 0 and is_prime(q))
    h = order // n
    if n * n <= 16 * p:
        ctx.probe("toy:outside-cofactor-range")
        return None
    start = ch.draw(len(pts), label + ".gen")
    for i in range(len(pts)):
        G = ref.mul(h, pts[(start + i) % len(pts)])
        if G is not None:
            return p, a, b, G, n, h
    return None


def toy_curve(
    ctx: Ctx, label: str = "toy", p_ok: Callable[[int], bool] = lambda p: True,
    keep: Callable[[ToyParams], bool] = lambda t: True, tries: int = 16,
) -> tuple[Curve, RefCurve, ToyParams]:
    """A kept toy curve, as (btclib Curve, reference, parameters).

    A refusal by ``Curve(...)`` inside the kept range is a probe; after
    ``tries`` unlucky draws the fixed fallback curve is used.
    """
    for _ in range(tries):
        t = _toy_params(ctx, label, p_ok)
        if t is None or not keep(t):
            continue
        try:
            ec = Curve(*t, weakness_check=False)
        except BTClibException as e:
            ctx.probe("toy:refused-by-constructor:" + ("n=p" if "n=p" in str(e) else "other"))
            ctx.note("toy-refused", t, type(e).__name__, str(e)[:40])
            continue
        ctx.probe("toy:kept")
        return ec, RefCurve(t[0], t[1], t[2], t[3], t[4]), t
    ctx.probe("toy:fallback")
    t = FALLBACK_TOY
    return Curve(*t, weakness_check=False), RefCurve(t[0], t[1], t[2], t[3], t[4]), t


def twin(ec: Curve) -> Any:
    """An equal but not identical curve object (shares cache entries by equality)."""
    return Curve(ec.p, ec._a, ec._b, ec.G, ec.n, ec.cofactor, weakness_check=False, order_check=False, name=ec.name)
