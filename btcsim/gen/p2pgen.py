"""Every payload class of btclib.p2p, built field by field with boundary
values by the marking writer of ``btcsim.gen.objects``, plus the message
envelope written independently (hashlib only) and unknown commands with
opaque payloads.
"""

from __future__ import annotations

import hashlib
from typing import Any, Callable

from btclib import p2p
from btclib.p2p.address import NetworkAddress, TimestampedNetworkAddress
from btclib.p2p.addrv2 import NetworkAddressV2
from btclib.p2p.inventory import Inventory

from btcsim.core.choices import Choices
from btcsim.gen.objects import Built, Codec, Pool, W, blob, compact_size, count, length, sint, uint, w_block, w_header, w_tx

HEADER_SIZE = 24
MAGICS = (bytes.fromhex("f9beb4d9"), bytes.fromhex("0b110907"), bytes.fromhex("0a03cf40"), bytes.fromhex("fabfb5da"))


def envelope(magic: bytes, command: str, payload: bytes) -> bytes:
    """The 24-octet header and the payload, as the protocol documentation lays them out."""
    checksum = hashlib.sha256(hashlib.sha256(payload).digest()).digest()[:4]
    return magic + command.encode("ascii").ljust(12, b"\x00") + len(payload).to_bytes(4, "little") + checksum + payload


def _codec(cls: Any, *, stream: bool = True) -> Codec:
    return Codec(cls.__name__, lambda d, cv: cls.parse(d, check_validity=cv), lambda o, cv: o.serialize(check_validity=cv), stream)


# -- parts -------------------------------------------------------------------------
_SERVICES = (0, 1, 0x409, 0xC4D, 1 << 63, (1 << 64) - 1)


def _services(ch: Choices) -> int:
    return _SERVICES[k] if (k := ch.draw(7, "svc.k")) < 6 else ch.draw(1 << 64, "svc")


def _ip(ch: Choices) -> bytes:
    k = ch.draw(4, "ip.k")
    return (bytes(16), bytes(10) + b"\xff\xff" + ch.nbytes(4, "ip.v4"), b"\xff" * 16)[k] if k < 3 else ch.nbytes(16, "ip.v6")


def w_netaddr(ch: Choices) -> tuple[W, NetworkAddress]:
    services, ip, port = _services(ch), _ip(ch), uint(ch, 2, "addr.port")
    return W().u(services, 8).put(ip).be(port, 2), NetworkAddress(services, ip, port, check_validity=False)


def w_timed_netaddr(ch: Choices) -> tuple[W, TimestampedNetworkAddress]:
    t = uint(ch, 4, "addr.time")
    wa, a = w_netaddr(ch)
    return W().u(t, 4).sub(wa), TimestampedNetworkAddress(t, a, check_validity=False)


_NET_SIZE = {1: 4, 2: 16, 3: 10, 4: 32, 5: 32, 6: 16, 7: 16}


def w_netaddr_v2(ch: Choices) -> tuple[W, NetworkAddressV2]:
    t = uint(ch, 4, "addr2.time")
    services = (0, 0xFC, 0xFD, 0xFFFF, 0x10000, 0xFFFFFFFF, 1 << 32, (1 << 64) - 1)[k] if (k := ch.draw(9, "addr2.sk")) < 8 else _services(ch)
    net = ch.pick([1, 2, 3, 4, 5, 6, 7, 0, 8, 0xFF], "addr2.net")
    size = _NET_SIZE.get(net)
    if size is None:
        size = (0, 1, 0xFC, 0xFD, 512)[k] if (k := ch.draw(6, "addr2.lk")) < 5 else ch.draw(513, "addr2.len")
    address, port = blob(ch, size, "addr2.addr"), uint(ch, 2, "addr2.port")
    w = W().u(t, 4).put(compact_size(services), "count").put(bytes([net]), "flag").vb(address).be(port, 2)
    return w, NetworkAddressV2(t, services, net, address, port, check_validity=False)


_INV_TYPES = (1, 2, 0, 3, 4, 5, 0x40000001, 0x40000002, 6, 0x40000005, 0xFFFFFFFF)


def w_inventory(ch: Choices) -> tuple[W, Inventory]:
    type_code, hash_ = ch.pick(_INV_TYPES, "inv.type"), ch.nbytes(32, "inv.hash")
    return W().u(type_code, 4, "flag").put(hash_[::-1]), Inventory(type_code, hash_, check_validity=False)


def _vector(ch: Choices, label: str, item: Callable[[Choices], tuple[W, Any]], small: int = 3, big: tuple[int, ...] = (0xFC, 0xFD)) -> tuple[W, list[Any]]:
    n = count(ch, label, small, big)
    w, items = W().cs(n), []
    drawn: list[tuple[W, Any]] = []
    for k in range(n):
        if k < 8:
            drawn.append(item(ch))
        wi, it = drawn[k % 8]  # a long vector repeats its first eight entries: the count is what is being exercised
        w.sub(wi)
        items.append(it)
    return w, items


def _hashes(ch: Choices, label: str, small: int = 3, big: tuple[int, ...] = (0xFC, 0xFD)) -> tuple[W, list[bytes]]:
    def item(c: Choices) -> tuple[W, bytes]:
        h = c.nbytes(32, label + ".h")
        return W().put(h[::-1]), h

    return _vector(ch, label, item, small, big)


def _filter_type(ch: Choices) -> int:
    return ch.pick([0, 1, 0x7F, 0xFF], "cf.type")


# -- payloads ----------------------------------------------------------------------------
def _version(ch: Choices, pool: Pool) -> tuple[W, Any]:
    version, services, timestamp = sint(ch, 4, "ver.version"), _services(ch), sint(ch, 8, "ver.time")
    (wr, recv), (wf, from_) = w_netaddr(ch), w_netaddr(ch)
    nonce = uint(ch, 8, "ver.nonce")
    agent = blob(ch, (0, 0xFC, 0xFD, 256, 16)[k] if (k := ch.draw(6, "ver.uak")) < 5 else ch.draw(257, "ver.ualen"), "ver.ua")
    height = sint(ch, 4, "ver.height")
    relay = ch.pick([None, True, False], "ver.relay")
    w = W().i(version, 4).u(services, 8).i(timestamp, 8).sub(wr).sub(wf).u(nonce, 8).vb(agent).i(height, 4)
    if relay is not None:
        w.put(bytes([relay]), "flag")
    return w, p2p.Version(version, services, timestamp, recv, from_, nonce, agent, height, relay, check_validity=False)


def _empty(cls: Any) -> Callable[[Choices, Pool], tuple[W, Any]]:
    return lambda ch, pool: (W(), cls(check_validity=False))


def _addr(ch: Choices, pool: Pool) -> tuple[W, Any]:
    w, items = _vector(ch, "addr.n", w_timed_netaddr, big=(0xFD, 1000, 999))
    return w, p2p.Addr(items, check_validity=False)


def _addrv2(ch: Choices, pool: Pool) -> tuple[W, Any]:
    w, items = _vector(ch, "addr2.n", w_netaddr_v2, big=(0xFD, 1000, 999))
    return w, p2p.AddrV2(items, check_validity=False)


def _inv(cls: Any) -> Callable[[Choices, Pool], tuple[W, Any]]:
    def gen(ch: Choices, pool: Pool) -> tuple[W, Any]:
        w, items = _vector(ch, "inv.n", w_inventory, big=(0xFC, 0xFD, 0xFD, 50000, 49999))
        return w, cls(items, check_validity=False)

    return gen


def _locator(cls: Any) -> Callable[[Choices, Pool], tuple[W, Any]]:
    def gen(ch: Choices, pool: Pool) -> tuple[W, Any]:
        version = sint(ch, 4, "loc.version")
        wl, locator = _hashes(ch, "loc.n", 3, (101, 100))
        stop = bytes(32) if ch.draw(2, "loc.nostop") else ch.nbytes(32, "loc.stop")
        return W().i(version, 4).sub(wl).put(stop[::-1]), cls(version, locator, stop, check_validity=False)

    return gen


def _headers(ch: Choices, pool: Pool) -> tuple[W, Any]:
    def item(c: Choices) -> tuple[W, Any]:
        wh, header = w_header(c)
        return wh.put(b"\x00", "count"), header  # the transaction count, always 0

    w, items = _vector(ch, "hdrs.n", item, 3, (0xFD, 2000, 1999))
    return w, p2p.Headers(items, check_validity=False)


def _nonce(cls: Any) -> Callable[[Choices, Pool], tuple[W, Any]]:
    def gen(ch: Choices, pool: Pool) -> tuple[W, Any]:
        nonce = uint(ch, 8, "ping.nonce")
        return W().u(nonce, 8), cls(nonce, check_validity=False)

    return gen


def _feefilter(ch: Choices, pool: Pool) -> tuple[W, Any]:
    rate = sint(ch, 8, "fee.rate")
    return W().i(rate, 8), p2p.FeeFilter(rate, check_validity=False)


def _sendcmpct(ch: Choices, pool: Pool) -> tuple[W, Any]:
    announce, version = bool(ch.draw(2, "cmpct.announce")), (2, 1, 0, (1 << 64) - 1)[k] if (k := ch.draw(5, "cmpct.vk")) < 4 else ch.draw(1 << 64, "cmpct.version")
    return W().put(bytes([announce]), "flag").u(version, 8), p2p.SendCmpct(announce, version, check_validity=False)


def _increasing(ch: Choices, n: int, label: str, top: int = 0xFFFF) -> list[int]:
    """n increasing indexes in 0..top, gaps drawn so that the differential form meets its boundaries."""
    out: list[int] = []
    prev = -1
    for k in range(n):
        room = top - prev - (n - k)
        gap = min(room, (0, 1, 0xFC, 0xFD)[g] if (g := ch.draw(6, label + ".gk")) < 4 else ch.draw(room + 1, label + ".gap")) if room > 0 else 0
        prev += 1 + gap
        out.append(prev)
    return out


def _cmpctblock(ch: Choices, pool: Pool) -> tuple[W, Any]:
    from btclib.p2p.compact_blocks import PrefilledTransaction  # noqa: PLC0415

    wh, header = w_header(ch)
    nonce = uint(ch, 8, "cb.nonce")
    n_short = count(ch, "cb.nshort", 4, (0xFD,))
    short_ids = [uint(ch, 6, "cb.sid") for _ in range(n_short)]
    n_pre = ch.draw(3, "cb.npre")
    indexes = _increasing(ch, n_pre, "cb.idx", n_short + n_pre - 1)
    w = W().sub(wh).u(nonce, 8).cs(n_short)
    for s in short_ids:
        w.u(s, 6)
    w.cs(n_pre)
    prefilled, prev = [], -1
    for i in indexes:
        full, tx, _ = w_tx(ch)
        w.cs(i - prev - 1).sub(full)
        prefilled.append(PrefilledTransaction(i, tx, check_validity=False))
        prev = i
    return w, p2p.CmpctBlock(header, nonce, short_ids, prefilled, check_validity=False)


def _getblocktxn(ch: Choices, pool: Pool) -> tuple[W, Any]:
    hash_ = ch.nbytes(32, "gbt.hash")
    indexes = _increasing(ch, count(ch, "gbt.n", 4, (0xFD,)), "gbt.idx")
    w, prev = W().put(hash_[::-1]).cs(len(indexes)), -1
    for i in indexes:
        w.cs(i - prev - 1)
        prev = i
    return w, p2p.GetBlockTxn(hash_, indexes, check_validity=False)


def _blocktxn(ch: Choices, pool: Pool) -> tuple[W, Any]:
    hash_ = ch.nbytes(32, "bt.hash")
    wv, txs = _vector(ch, "bt.n", lambda c: w_tx(c)[:2], 2, ())
    return W().put(hash_[::-1]).sub(wv), p2p.BlockTxn(hash_, txs, check_validity=False)


def _tx(ch: Choices, pool: Pool) -> tuple[W, Any]:
    full, tx, _ = w_tx(ch)
    return full, p2p.TxPayload(tx, tx.is_segwit, check_validity=False)


def _block(ch: Choices, pool: Pool) -> tuple[W, Any]:
    w, block, _ = w_block(ch)
    return w, p2p.BlockPayload(block, block.is_segwit, check_validity=False)


def _filter_range(cls: Any) -> Callable[[Choices, Pool], tuple[W, Any]]:
    def gen(ch: Choices, pool: Pool) -> tuple[W, Any]:
        type_, start, stop = _filter_type(ch), uint(ch, 4, "cf.start"), ch.nbytes(32, "cf.stop")
        return W().put(bytes([type_]), "flag").u(start, 4).put(stop[::-1]), cls(type_, start, stop, check_validity=False)

    return gen


def _cfilter(ch: Choices, pool: Pool) -> tuple[W, Any]:
    type_, hash_ = _filter_type(ch), ch.nbytes(32, "cf.block")
    data = blob(ch, length(ch, "cf.len", 2000), "cf.bytes")
    return W().put(bytes([type_]), "flag").put(hash_[::-1]).vb(data), p2p.CFilter(type_, hash_, data, check_validity=False)


def _cfheaders(ch: Choices, pool: Pool) -> tuple[W, Any]:
    type_, stop, prev = _filter_type(ch), ch.nbytes(32, "cf.stop"), ch.nbytes(32, "cf.prev")
    wv, hashes = _hashes(ch, "cf.n", 3, (0xFD, 2000, 1999))
    return W().put(bytes([type_]), "flag").put(stop[::-1]).put(prev[::-1]).sub(wv), p2p.CFHeaders(type_, stop, prev, hashes, check_validity=False)


def _getcfcheckpt(ch: Choices, pool: Pool) -> tuple[W, Any]:
    type_, stop = _filter_type(ch), ch.nbytes(32, "cf.stop")
    return W().put(bytes([type_]), "flag").put(stop[::-1]), p2p.GetCFCheckpt(type_, stop, check_validity=False)


def _cfcheckpt(ch: Choices, pool: Pool) -> tuple[W, Any]:
    type_, stop = _filter_type(ch), ch.nbytes(32, "cf.stop")
    wv, headers = _hashes(ch, "cf.n")
    return W().put(bytes([type_]), "flag").put(stop[::-1]).sub(wv), p2p.CFCheckpt(type_, stop, headers, check_validity=False)


# class -> (generator, the payload passes check_validity=True)
PAYLOADS: dict[Any, tuple[Callable[[Choices, Pool], tuple[W, Any]], bool]] = {
    p2p.Version: (_version, True), p2p.Verack: (_empty(p2p.Verack), True),
    p2p.Addr: (_addr, True), p2p.AddrV2: (_addrv2, True), p2p.SendAddrV2: (_empty(p2p.SendAddrV2), True),
    p2p.Inv: (_inv(p2p.Inv), True), p2p.GetData: (_inv(p2p.GetData), True), p2p.NotFound: (_inv(p2p.NotFound), True),
    p2p.GetBlocks: (_locator(p2p.GetBlocks), True), p2p.GetHeaders: (_locator(p2p.GetHeaders), True), p2p.Headers: (_headers, True),
    p2p.Ping: (_nonce(p2p.Ping), True), p2p.Pong: (_nonce(p2p.Pong), True), p2p.FeeFilter: (_feefilter, True),
    p2p.GetAddr: (_empty(p2p.GetAddr), True), p2p.Mempool: (_empty(p2p.Mempool), True),
    p2p.SendHeaders: (_empty(p2p.SendHeaders), True), p2p.WtxidRelay: (_empty(p2p.WtxidRelay), True),
    p2p.SendCmpct: (_sendcmpct, True), p2p.CmpctBlock: (_cmpctblock, True), p2p.GetBlockTxn: (_getblocktxn, True),
    p2p.BlockTxn: (_blocktxn, True), p2p.TxPayload: (_tx, True), p2p.BlockPayload: (_block, False),
    p2p.GetCFilters: (_filter_range(p2p.GetCFilters), True), p2p.GetCFHeaders: (_filter_range(p2p.GetCFHeaders), True),
    p2p.CFilter: (_cfilter, True), p2p.CFHeaders: (_cfheaders, True), p2p.GetCFCheckpt: (_getcfcheckpt, True), p2p.CFCheckpt: (_cfcheckpt, True),
}
CLASSES = sorted(PAYLOADS, key=lambda c: c.__name__)
BY_COMMAND = {cls.command: cls for cls in CLASSES}
CODECS = {cls: _codec(cls, stream=cls is not p2p.Version) for cls in CLASSES}
PARTS: dict[str, tuple[Callable[[Choices], tuple[W, Any]], Codec]] = {
    "NetworkAddress": (w_netaddr, _codec(NetworkAddress)),
    "TimestampedNetworkAddress": (w_timed_netaddr, _codec(TimestampedNetworkAddress)),
    "NetworkAddressV2": (w_netaddr_v2, _codec(NetworkAddressV2)),
    "Inventory": (w_inventory, _codec(Inventory)),
}


def build_payload(ch: Choices, pool: Pool, cls: Any) -> Built:
    gen, valid = PAYLOADS[cls]
    w, obj = gen(ch, pool)
    return Built(CODECS[cls], w.raw(), w.marks, obj, valid)


def build_part(ch: Choices, name: str) -> Built:
    gen, codec = PARTS[name]
    w, obj = gen(ch)
    return Built(codec, w.raw(), w.marks, obj)


def unknown_command(ch: Choices) -> tuple[str, bytes]:
    """A command no payload class answers to, and octets nobody interprets."""
    k = ch.draw(5, "unk.k")
    command = ("", "x", "reject", "abcdefghijkl")[k] if k < 4 else "".join(chr(0x20 + ch.draw(0x5F, "unk.c")) for _ in range(1 + ch.draw(12, "unk.n")))
    if command in BY_COMMAND:
        command = "filterload"
    return command, blob(ch, length(ch, "unk.len", 300), "unk.payload")
