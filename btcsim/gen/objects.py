"""Wire objects built field by field, by a writer that knows where it put
every field, plus the systematic corruption walk over those offsets.

A generator returns a ``Built``: the octets written by ``W`` below (an
encoder of the Bitcoin wire primitives that shares no code with btclib's
``serialize``), the marks (offset, size, kind) of every field, and -- except
for PSBTs and vendored objects, which are obtained by parsing -- the btclib
object constructed from the same field values.

``mutations`` walks a bounded systematic set per object: truncation at every
mark and +-1, every CompactSize re-encoded non-minimally, every count /
length / flag / marker byte set to boundary values, trailing garbage, and a
few drawn bit flips.
"""

from __future__ import annotations

import base64
import hashlib
import json
import os
from dataclasses import dataclass, field
from datetime import datetime, timezone
from typing import Any, Callable

import btclib
from btclib import var_bytes, var_int
from btclib.bip32.bip32 import BIP32KeyData
from btclib.bip32.key_origin import BIP32KeyOrigin
from btclib.block.block import Block
from btclib.block.block_header import BlockHeader
from btclib.ecc import bms, dsa, ecies, ssa
from btclib.hashes import hash160, ripemd160
from btclib.network import XPRV_VERSIONS_ALL, XPUB_VERSIONS_ALL
from btclib.psbt.psbt import Psbt
from btclib.psbt.psbt_in import PsbtIn
from btclib.psbt.psbt_out import PsbtOut
from btclib.script.witness import Witness
from btclib.tx.out_point import OutPoint
from btclib.tx.tx import Tx
from btclib.tx.tx_in import TxIn
from btclib.tx.tx_out import TxOut

from btcsim.core.choices import Choices
from btcsim.gen import keys as gk
from btcsim.ref import psbtmap

MAX_MONEY = 2_100_000_000_000_000
GENESIS_TIME = 1231006505


# ---------------------------------------------------------------------------
# the writer
# ---------------------------------------------------------------------------
@dataclass(frozen=True)
class Mark:
    off: int
    size: int
    kind: str  # field | count | len | flag | marker


def compact_size(n: int, width: int = 0) -> bytes:
    """CompactSize of n; ``width`` 3/5/9 forces that (possibly non-minimal) form."""
    if not width:
        width = 1 if n < 0xFD else 3 if n <= 0xFFFF else 5 if n <= 0xFFFFFFFF else 9
    if width == 1:
        return bytes([n])
    return {3: b"\xfd", 5: b"\xfe", 9: b"\xff"}[width] + n.to_bytes(width - 1, "little")


class W:
    """Append-only encoder that records a mark per field."""

    def __init__(self) -> None:
        self.b = bytearray()
        self.marks: list[Mark] = []

    def put(self, data: bytes, kind: str = "field") -> "W":
        self.marks.append(Mark(len(self.b), len(data), kind))
        self.b += data
        return self

    def u(self, v: int, n: int, kind: str = "field") -> "W":
        return self.put(v.to_bytes(n, "little"), kind)

    def i(self, v: int, n: int) -> "W":
        return self.put(v.to_bytes(n, "little", signed=True))

    def be(self, v: int, n: int) -> "W":
        return self.put(v.to_bytes(n, "big"))

    def cs(self, v: int, kind: str = "count") -> "W":
        return self.put(compact_size(v), kind)

    def vb(self, data: bytes) -> "W":
        return self.cs(len(data), "len").put(data)

    def sub(self, other: "W") -> "W":
        base = len(self.b)
        self.marks += [Mark(base + m.off, m.size, m.kind) for m in other.marks]
        self.b += other.b
        return self

    def raw(self) -> bytes:
        return bytes(self.b)


@dataclass(frozen=True)
class Codec:
    """How one class is read and written; ``stream`` = parse takes the caller's BytesIO."""

    name: str
    parse: Callable[[Any, bool], Any]
    ser: Callable[[Any, bool], bytes]
    stream: bool = True
    to_dict: Callable[[Any, bool], Any] | None = None
    from_dict: Callable[[Any, bool], Any] | None = None
    psbt: bool = False  # key order is free: fixed point instead of byte identity


@dataclass
class Built:
    codec: Codec
    raw: bytes
    marks: list[Mark]
    obj: Any = None  # None: the world obtains it by parsing ``raw``
    valid: bool = True  # passes check_validity=True
    tags: list[str] = field(default_factory=list)
    extra: dict[str, Any] = field(default_factory=dict)

    @property
    def name(self) -> str:
        return self.codec.name


def _std(cls: Any, name: str, *, stream: bool = True, json_: bool = False, psbt: bool = False, **kw: Any) -> Codec:
    return Codec(
        name,
        lambda d, cv: cls.parse(d, check_validity=cv, **kw),
        lambda o, cv: o.serialize(check_validity=cv, **kw),
        stream,
        (lambda o, cv: o.to_dict(check_validity=cv)) if json_ else None,
        (lambda d, cv: cls.from_dict(d, check_validity=cv)) if json_ else None,
        psbt,
    )


_U64 = 0xFFFFFFFFFFFFFFFF
CODECS: dict[str, Codec] = {
    "var_int": Codec("var_int", lambda d, cv: var_int.parse(d, _U64), lambda o, cv: var_int.serialize(o)),
    "var_bytes": Codec("var_bytes", lambda d, cv: var_bytes.parse(d), lambda o, cv: var_bytes.serialize(o)),
    "OutPoint": _std(OutPoint, "OutPoint", json_=True),
    "TxIn": _std(TxIn, "TxIn", json_=True),
    "TxOut": _std(TxOut, "TxOut", json_=True),
    "Witness": _std(Witness, "Witness", json_=True),
    "Tx": Codec(
        "Tx", lambda d, cv: Tx.parse(d, check_validity=cv), lambda o, cv: o.serialize(include_witness=True, check_validity=cv),
        True, lambda o, cv: o.to_dict(check_validity=cv), lambda d, cv: Tx.from_dict(d, check_validity=cv),
    ),
    "BlockHeader": _std(BlockHeader, "BlockHeader", json_=True),
    "Block": Codec(
        "Block", lambda d, cv: Block.parse(d, check_validity=cv), lambda o, cv: o.serialize(include_witness=True, check_validity=cv),
        True, lambda o, cv: o.to_dict(check_validity=cv), lambda d, cv: Block.from_dict(d, check_validity=cv),
    ),
    "BIP32KeyData": _std(BIP32KeyData, "BIP32KeyData"),
    "BIP32KeyOrigin": _std(BIP32KeyOrigin, "BIP32KeyOrigin", stream=False, json_=True),
    # strict DER holds a stream to the rule of a buffer (documented): octets only
    "dsa.Sig": _std(dsa.Sig, "dsa.Sig", stream=False),
    "ssa.Sig": _std(ssa.Sig, "ssa.Sig"),
    "bms.Sig": _std(bms.Sig, "bms.Sig"),
    "ecies.Envelope": _std(ecies.Envelope, "ecies.Envelope", stream=False),
    "Psbt": _std(Psbt, "Psbt", json_=True, psbt=True),
    "PsbtIn": _std(PsbtIn, "PsbtIn", json_=True, psbt=True, psbt_version=2),
    "PsbtOut": _std(PsbtOut, "PsbtOut", json_=True, psbt=True, psbt_version=2),
}


# ---------------------------------------------------------------------------
# boundary-value draws
# ---------------------------------------------------------------------------
def uint(ch: Choices, nbytes: int, label: str) -> int:
    top = (1 << (8 * nbytes)) - 1
    k = ch.draw(7, label + ".k")
    return (1, 0, top, top - 1, 1 << (8 * nbytes - 1), (1 << (8 * nbytes - 1)) - 1)[k] if k < 6 else ch.draw(top + 1, label)


def sint(ch: Choices, nbytes: int, label: str) -> int:
    half = 1 << (8 * nbytes - 1)
    k = ch.draw(6, label + ".k")
    return (0, 1, -1, half - 1, -half)[k] if k < 5 else ch.draw(2 * half, label) - half


def length(ch: Choices, label: str, cap: int = 600) -> int:
    """A byte-string length: the CompactSize width boundaries first."""
    k = ch.draw(8, label + ".k")
    edges = (1, 0, 0xFC, 0xFD, 0xFE, 2)
    return min(cap, edges[k]) if k < 6 else ch.draw(cap + 1, label)


def blob(ch: Choices, n: int, label: str) -> bytes:
    """n octets from one draw of a 16-byte seed (cheap for long strings)."""
    if n <= 16:
        return ch.nbytes(n, label)
    seed = ch.nbytes(16, label)
    out = b""
    while len(out) < n:
        out += hashlib.sha256(seed + len(out).to_bytes(4, "big")).digest()
    return out[:n]


def count(ch: Choices, label: str, small: int = 4, big: tuple[int, ...] = (0xFC, 0xFD)) -> int:
    """An element count: mostly 0..small, rarely one side of the 1->3 byte CompactSize step."""
    if big and ch.chance(1, 24, label + ".big"):
        return ch.pick(list(big), label + ".bigv")
    return ch.draw(small + 1, label)


class Pool:
    """Key material of one run, drawn lazily."""

    def __init__(self, ch: Choices) -> None:
        self.ch = ch
        self.scalars: list[int] = []

    def scalar(self) -> int:
        if len(self.scalars) < 4 and (not self.scalars or self.ch.draw(2, "pool.new")):
            self.scalars.append(gk.scalar(self.ch, "pool.key"))
            return self.scalars[-1]
        return self.ch.pick(self.scalars, "pool.pick")

    def pub33(self) -> bytes:
        return gk.compressed(self.scalar())

    def xonly(self) -> bytes:
        return gk.xonly(self.scalar())

    def dsa_sig(self, msg32: bytes | None = None) -> tuple[int, bytes, Any]:
        q = self.scalar()
        msg32 = self.ch.nbytes(32, "pool.msg") if msg32 is None else msg32
        return q, msg32, dsa.sign_(msg32, q, lower_s=not self.ch.draw(4, "pool.highs"))


# ---------------------------------------------------------------------------
# consensus objects
# ---------------------------------------------------------------------------
def w_outpoint(ch: Choices, *, coinbase_ok: bool = True) -> tuple[W, OutPoint]:
    k = ch.draw(5, "op.k")
    tx_id = b"\x00" * 32 if k == 1 and coinbase_ok else b"\xff" * 32 if k == 2 else ch.nbytes(32, "op.txid")
    vout = 0xFFFFFFFF if k == 1 and coinbase_ok else uint(ch, 4, "op.vout")
    w = W().put(tx_id[::-1]).u(vout, 4)
    return w, OutPoint(tx_id, vout, check_validity=False)


def w_witness(ch: Choices, *, nonempty: bool = False, small: bool = False) -> tuple[W, Witness]:
    n = ch.draw(2, "wit.n") if small else count(ch, "wit.n", 3)
    if nonempty and n == 0:
        n = 1
    stack = [blob(ch, length(ch, "wit.len", 2 if small or n > 9 else 400), "wit.item") for _ in range(n)]
    w = W().cs(n)
    for item in stack:
        w.vb(item)
    return w, Witness(stack, check_validity=False)


def w_txin(ch: Choices, *, coinbase_ok: bool = False, small: bool = False) -> tuple[W, TxIn]:
    wo, op = w_outpoint(ch, coinbase_ok=coinbase_ok)
    script_sig = blob(ch, length(ch, "in.sslen", 2 if small else 300), "in.ss")
    seq = uint(ch, 4, "in.seq")
    w = W().sub(wo).vb(script_sig).u(seq, 4)
    return w, TxIn(op, script_sig, seq, Witness(), check_validity=False)


_SPK_KINDS = ("p2wpkh", "p2pkh", "p2tr", "p2sh", "p2wsh", "raw", "empty")


def script_pub_key(ch: Choices, label: str = "spk") -> bytes:
    kind = ch.pick(_SPK_KINDS, label + ".kind")
    if kind == "p2wpkh":
        return b"\x00\x14" + ch.nbytes(20, label)
    if kind == "p2pkh":
        return b"\x76\xa9\x14" + ch.nbytes(20, label) + b"\x88\xac"
    if kind == "p2tr":
        return b"\x51\x20" + ch.nbytes(32, label)
    if kind == "p2sh":
        return b"\xa9\x14" + ch.nbytes(20, label) + b"\x87"
    if kind == "p2wsh":
        return b"\x00\x20" + ch.nbytes(32, label)
    return b"" if kind == "empty" else blob(ch, length(ch, label + ".len", 300), label)


def w_txout(ch: Choices, cap: int = MAX_MONEY, *, small: bool = False) -> tuple[W, TxOut]:
    k = ch.draw(5, "out.k")
    value = (0, 1, cap, cap - 1 if cap else 0)[k] if k < 4 else ch.draw(cap + 1, "out.value")
    script = b"\x51" if small else script_pub_key(ch)
    w = W().i(value, 8).vb(script)
    return w, TxOut(value, script, check_validity=False)


def w_tx(ch: Choices, *, shape: str | None = None) -> tuple[W, Tx, W]:
    """(writer with witness, Tx, writer of the stripped form)."""
    shape = shape or ch.pick(["legacy", "segwit", "coinbase", "segwit-coinbase"], "tx.shape")
    version = (1, 2, 3, 0, 0x7FFFFFFF, 0xFFFFFFFF)[k] if (k := ch.draw(7, "tx.ver")) < 6 else ch.draw(1 << 32, "tx.version")
    segwit = shape.startswith("segwit")
    ins: list[tuple[W, TxIn]] = []
    if shape.endswith("coinbase"):
        op = OutPoint(check_validity=False)
        ss = blob(ch, 2 + ch.draw(99, "tx.cblen"), "tx.cbss")
        seq = uint(ch, 4, "in.seq")
        ins.append((W().put(bytes(32)).u(0xFFFFFFFF, 4).vb(ss).u(seq, 4), TxIn(op, ss, seq, Witness(), check_validity=False)))
    else:
        seen: set[tuple[bytes, int]] = set()
        n_in = max(1, count(ch, "tx.nin", 3, (0xFD,)))
        for _ in range(n_in):
            wi, ti = w_txin(ch, small=n_in > 9)
            if (ti.prev_out.tx_id, ti.prev_out.vout) not in seen:
                seen.add((ti.prev_out.tx_id, ti.prev_out.vout))
                ins.append((wi, ti))
    n_out = max(1, count(ch, "tx.nout", 3, (0xFD,)))
    outs = [w_txout(ch, MAX_MONEY // n_out, small=n_out > 9) for _ in range(n_out)]
    wits: list[tuple[W, Witness]] = []
    if segwit:
        must = ch.draw(len(ins), "tx.witat")
        wits = [w_witness(ch, nonempty=(i == must), small=len(ins) > 9) for i in range(len(ins))]
        for (_, ti), (_, wt) in zip(ins, wits):
            ti.script_witness = wt
    lock = uint(ch, 4, "tx.lock")
    full, stripped = W(), W()
    for w in (full, stripped):
        w.u(version, 4)
        if segwit and w is full:
            w.put(b"\x00", "marker").put(b"\x01", "flag")
        w.cs(len(ins))
        for wi, _ in ins:
            w.sub(wi)
        w.cs(len(outs))
        for wo, _ in outs:
            w.sub(wo)
        if segwit and w is full:
            for ww, _ in wits:
                w.sub(ww)
        w.u(lock, 4)
    return full, Tx(version, lock, [t for _, t in ins], [o for _, o in outs], check_validity=False), stripped


def w_header(ch: Choices, merkle_root: bytes | None = None) -> tuple[W, BlockHeader]:
    version = (1, 2, 4, 0x20000000, 0x7FFFFFFF)[k] if (k := ch.draw(6, "hdr.ver")) < 5 else 1 + ch.draw(0x7FFFFFFF, "hdr.version")
    prev = ch.nbytes(32, "hdr.prev")
    root = ch.nbytes(32, "hdr.root") if merkle_root is None else merkle_root
    t = (GENESIS_TIME, 0xFFFFFFFF, GENESIS_TIME + 1)[k] if (k := ch.draw(4, "hdr.tk")) < 3 else GENESIS_TIME + ch.draw(0xFFFFFFFF - GENESIS_TIME + 1, "hdr.time")
    bits = (b"\x1d\x00\xff\xff", b"\x20\x7f\xff\xff", b"\x00\x00\x00\x00", b"\x1d\x80\x00\x01")[k] if (k := ch.draw(5, "hdr.bk")) < 4 else ch.nbytes(4, "hdr.bits")
    nonce = uint(ch, 4, "hdr.nonce")
    w = W().i(version, 4).put(prev[::-1]).put(root[::-1]).u(t, 4).put(bits[::-1]).u(nonce, 4)
    return w, BlockHeader(version, prev, root, datetime.fromtimestamp(t, timezone.utc), bits, nonce, check_validity=False)


def w_block(ch: Choices) -> tuple[W, Block, W]:
    """(writer with witnesses, Block, writer of the stripped form)."""
    txs = [w_tx(ch, shape=ch.pick(["coinbase", "segwit-coinbase"], "blk.cb"))]
    txs += [w_tx(ch, shape=ch.pick(["legacy", "segwit"], "blk.shape")) for _ in range(ch.draw(3, "blk.ntx"))]
    wh, header = w_header(ch)
    w, stripped = W().sub(wh).cs(len(txs)), W().sub(wh).cs(len(txs))
    for full, _, bare in txs:
        w.sub(full)
        stripped.sub(bare)
    return w, Block(header, [t for _, t, _ in txs], check_validity=False), stripped


def w_xkey(ch: Choices, pool: Pool) -> tuple[W, BIP32KeyData]:
    private = bool(ch.draw(2, "xkey.prv"))
    version = ch.pick(sorted(XPRV_VERSIONS_ALL if private else XPUB_VERSIONS_ALL), "xkey.ver")
    depth = (0, 1, 255)[k] if (k := ch.draw(4, "xkey.dk")) < 3 else ch.draw(256, "xkey.depth")
    fp = bytes(4) if depth == 0 else ch.nbytes(4, "xkey.fp")
    index = 0 if depth == 0 else (0, 0x7FFFFFFF, 0x80000000, 0xFFFFFFFF)[k] if (k := ch.draw(5, "xkey.ik")) < 4 else ch.draw(1 << 32, "xkey.index")
    chain = ch.nbytes(32, "xkey.chain")
    q = pool.scalar()
    key = b"\x00" + q.to_bytes(32, "big") if private else gk.compressed(q)
    w = W().put(version).put(bytes([depth])).put(fp).be(index, 4).put(chain).put(key[:1], "flag").put(key[1:])
    return w, BIP32KeyData(version, depth, fp, index, chain, key, check_validity=False)


def w_origin(ch: Choices) -> tuple[W, BIP32KeyOrigin]:
    fp = ch.nbytes(4, "origin.fp")
    n = 255 if ch.chance(1, 40, "origin.max") else ch.draw(7, "origin.n")
    path = [(0, 0x7FFFFFFF, 0x80000000, 0xFFFFFFFF)[k] if (k := ch.draw(6, "origin.ik")) < 4 else ch.draw(1 << 32, "origin.i") for _ in range(n)]
    w = W().put(fp)
    for i in path:
        w.u(i, 4)
    return w, BIP32KeyOrigin(fp, path, check_validity=False)


def _der_int(w: W, v: int) -> None:
    data = v.to_bytes(v.bit_length() // 8 + 1, "big")
    w.put(b"\x02", "marker").cs(len(data), "len").put(data)


def w_dsa_sig(sig: Any) -> W:
    body = W()
    _der_int(body, sig.r)
    _der_int(body, sig.s)
    return W().put(b"\x30", "marker").cs(len(body.b), "len").sub(body)


def w_envelope(ch: Choices, pool: Pool) -> tuple[W, Any]:
    eph = pool.pub33()
    ct = blob(ch, 16 * (64 if ch.chance(1, 30, "env.big") else 1 + ch.draw(4, "env.blocks")), "env.ct")
    mac = ch.nbytes(32, "env.mac")
    w = W().put(ecies.MAGIC, "marker").put(eph[:1], "flag").put(eph[1:]).put(ct).put(mac)
    return w, ecies.Envelope(ecies.MAGIC, eph, ct, mac, check_validity=False)


# ---------------------------------------------------------------------------
# PSBT: raw maps written pair by pair (BIP174 leaves the key order free)
# ---------------------------------------------------------------------------
_UNKNOWN_IN = (0x09, 0x19, 0x1F, 0x40, 0xFC, 0xFE)
_UNKNOWN_OUT = (0x0B, 0x20, 0xFC, 0xFD)
_UNKNOWN_GLOBAL = (0x0A, 0x30, 0xFC, 0xFA)
_SIGHASHES = (1, 2, 3, 0x81, 0x82, 0x83)

Pairs = list[tuple[bytes, bytes]]


def _origin_bytes(ch: Choices) -> bytes:
    return w_origin(ch)[0].raw()


def _unknown(ch: Choices, types: tuple[int, ...], pairs: Pairs) -> None:
    for _ in range(ch.draw(3, "psbt.nunk")):
        key = bytes([ch.pick(types, "psbt.unk.t")]) + ch.nbytes(ch.draw(4, "psbt.unk.kl"), "psbt.unk.k")
        if all(key != k for k, _ in pairs):
            pairs.append((key, blob(ch, length(ch, "psbt.unk.vl", 80), "psbt.unk.v")))


def _schnorr_sig(ch: Choices) -> bytes:
    return ch.nbytes(64, "psbt.ssig") + (bytes([ch.pick(_SIGHASHES, "psbt.ssig.ht")]) if ch.draw(2, "psbt.ssig.65") else b"")


def _tap_derivation(ch: Choices) -> bytes:
    n = ch.draw(3, "psbt.tap.nleaf")
    return compact_size(n) + b"".join(ch.nbytes(32, "psbt.tap.leaf") for _ in range(n)) + _origin_bytes(ch)


def _musig_pairs(ch: Choices, pool: Pool, pairs: Pairs, participants_type: int, session_types: tuple[int, int] | None) -> None:
    agg = pool.pub33()
    members = [pool.pub33() for _ in range(1 + ch.draw(3, "psbt.musig.n"))]
    pairs.append((bytes([participants_type]) + agg, b"".join(members)))
    if session_types is None:
        return
    leaf = ch.nbytes(32, "psbt.musig.leaf") if ch.draw(2, "psbt.musig.hasleaf") else b""
    for m in sorted(set(members)):
        if ch.draw(2, "psbt.musig.nonce"):
            pairs.append((bytes([session_types[0]]) + m + agg + leaf, ch.nbytes(66, "psbt.musig.pubnonce")))
        if ch.draw(2, "psbt.musig.psig"):
            pairs.append((bytes([session_types[1]]) + m + agg + leaf, ch.nbytes(32, "psbt.musig.partial")))


def psbt_input_pairs(ch: Choices, pool: Pool, version: int, prev: tuple[bytes, int, int], tags: list[str], lock: int) -> Pairs:
    """One input map. ``prev`` = (txid, vout, sequence) of the outpoint it spends;
    ``lock`` = which locktime kind this PSBT's inputs may require (1 time, 2 height)."""
    pairs: Pairs = []
    if version == 2:
        pairs += [(b"\x0e", prev[0][::-1]), (b"\x0f", prev[1].to_bytes(4, "little"))]
        if ch.draw(2, "psbt.in.seq"):
            pairs.append((b"\x10", prev[2].to_bytes(4, "little")))
        lock = lock if ch.draw(2, "psbt.in.lock") else 0
        if lock == 1:
            pairs.append((b"\x11", (500_000_000 + ch.draw(0xFFFFFFFF - 500_000_000 + 1, "psbt.in.tlock")).to_bytes(4, "little")))
        elif lock == 2:
            pairs.append((b"\x12", (1 + ch.draw(499_999_999, "psbt.in.hlock")).to_bytes(4, "little")))
        for t, size in ((0x1D, 33), (0x1E, 64)):
            if ch.chance(1, 4, "psbt.in.sp"):
                pairs.append((bytes([t]) + pool.pub33(), ch.nbytes(size, "psbt.in.spv")))
    if ch.draw(2, "psbt.in.wutxo"):
        pairs.append((b"\x01", w_txout(ch, MAX_MONEY // 8)[0].raw()))
    finalized = ch.chance(1, 4, "psbt.in.final")
    if finalized:
        # what a finalizer consumed is not carried beside what it produced (documented)
        tags.append("finalized")
        with_sig = bool(ch.draw(2, "psbt.in.fss"))
        if with_sig:
            pairs.append((b"\x07", blob(ch, 1 + ch.draw(80, "psbt.in.fsslen"), "psbt.in.fssv")))
        if not with_sig or ch.draw(2, "psbt.in.fsw"):
            pairs.append((b"\x08", w_witness(ch, nonempty=True)[0].raw()))
    else:
        for _ in range(ch.draw(3, "psbt.in.nsig")):
            q, _, sig = pool.dsa_sig()
            key = b"\x02" + gk.compressed(q)
            if all(key != k for k, _ in pairs):
                pairs.append((key, sig.serialize() + bytes([ch.pick(_SIGHASHES, "psbt.in.sht")])))
        if ch.chance(1, 3, "psbt.in.sighash"):
            pairs.append((b"\x03", ch.pick(_SIGHASHES, "psbt.in.sighashv").to_bytes(4, "little")))
        for t in (0x04, 0x05):
            if ch.chance(1, 3, "psbt.in.script"):
                pairs.append((bytes([t]), blob(ch, 1 + ch.draw(60, "psbt.in.scriptlen"), "psbt.in.scriptv")))
        for _ in range(ch.draw(3, "psbt.in.nderiv")):
            key = b"\x06" + pool.pub33()
            if all(key != k for k, _ in pairs):
                pairs.append((key, _origin_bytes(ch)))
        for t, hf in ((0x0A, "ripemd160"), (0x0B, "sha256"), (0x0C, "hash160"), (0x0D, "hash256")):
            if ch.chance(1, 6, "psbt.in.preimage"):
                pre = blob(ch, ch.draw(40, "psbt.in.prelen"), "psbt.in.prev")
                pairs.append((bytes([t]) + _HASHES[hf](pre), pre))
        if ch.chance(1, 3, "psbt.in.tap"):
            tags.append("taproot")
            if ch.draw(2, "psbt.in.tapkeysig"):
                pairs.append((b"\x13", _schnorr_sig(ch)))
            for _ in range(ch.draw(3, "psbt.in.ntapsig")):
                pairs.append((b"\x14" + pool.xonly() + ch.nbytes(32, "psbt.in.tapleaf"), _schnorr_sig(ch)))
            for _ in range(ch.draw(3, "psbt.in.nleafscript")):
                cb = bytes([0xC0 | ch.draw(2, "psbt.in.cbpar")]) + pool.xonly() + b"".join(ch.nbytes(32, "psbt.in.cbpath") for _ in range(ch.draw(3, "psbt.in.cbdepth")))
                pairs.append((b"\x15" + cb, blob(ch, ch.draw(40, "psbt.in.leaflen"), "psbt.in.leafscript") + b"\xc0"))
            for _ in range(ch.draw(3, "psbt.in.ntapderiv")):
                tags.append("taproot-derivs")
                pairs.append((b"\x16" + pool.xonly(), _tap_derivation(ch)))
            if ch.draw(2, "psbt.in.tapik"):
                pairs.append((b"\x17", pool.xonly()))
            if ch.draw(2, "psbt.in.tapmr"):
                pairs.append((b"\x18", ch.nbytes(32, "psbt.in.tapmrv")))
        if ch.chance(1, 5, "psbt.in.musig"):
            tags.append("musig2")
            _musig_pairs(ch, pool, pairs, 0x1A, (0x1B, 0x1C))
    _unknown(ch, _UNKNOWN_IN, pairs)
    return _dedup(pairs)


_HASHES: dict[str, Callable[[bytes], bytes]] = {
    "ripemd160": ripemd160,
    "sha256": lambda b: hashlib.sha256(b).digest(),
    "hash160": hash160,
    "hash256": lambda b: hashlib.sha256(hashlib.sha256(b).digest()).digest(),
}


def _dedup(pairs: Pairs) -> Pairs:
    seen: set[bytes] = set()
    out: Pairs = []
    for k, v in pairs:
        if k not in seen:
            seen.add(k)
            out.append((k, v))
    return out


def psbt_output_pairs(ch: Choices, pool: Pool, version: int, out: tuple[int, bytes], tags: list[str]) -> Pairs:
    pairs: Pairs = []
    if version == 2:
        pairs += [(b"\x03", out[0].to_bytes(8, "little", signed=True)), (b"\x04", out[1])]
        if ch.chance(1, 4, "psbt.out.sp"):
            pairs.append((b"\x09", pool.pub33() + pool.pub33()))
            if ch.draw(2, "psbt.out.splabel"):
                pairs.append((b"\x0a", uint(ch, 4, "psbt.out.label").to_bytes(4, "little")))
    for t in (0x00, 0x01):
        if ch.chance(1, 3, "psbt.out.script"):
            pairs.append((bytes([t]), blob(ch, 1 + ch.draw(60, "psbt.out.scriptlen"), "psbt.out.scriptv")))
    for _ in range(ch.draw(3, "psbt.out.nderiv")):
        pairs.append((b"\x02" + pool.pub33(), _origin_bytes(ch)))
    if ch.chance(1, 3, "psbt.out.tap"):
        tags.append("taproot")
        if ch.draw(2, "psbt.out.tapik"):
            pairs.append((b"\x05", pool.xonly()))
        if ch.draw(2, "psbt.out.taptree"):
            tree = W()
            for _ in range(1 + ch.draw(3, "psbt.out.nleaf")):
                tree.put(bytes([ch.draw(129, "psbt.out.depth"), 0xC0])).vb(blob(ch, ch.draw(40, "psbt.out.leaflen"), "psbt.out.leaf"))
            pairs.append((b"\x06", tree.raw()))
        for _ in range(ch.draw(3, "psbt.out.ntapderiv")):
            pairs.append((b"\x07" + pool.xonly(), _tap_derivation(ch)))
    if ch.chance(1, 5, "psbt.out.musig"):
        tags.append("musig2")
        _musig_pairs(ch, pool, pairs, 0x08, None)
    _unknown(ch, _UNKNOWN_OUT, pairs)
    return _dedup(pairs)


def psbt_maps(ch: Choices, pool: Pool, version: int, tags: list[str]) -> list[Pairs]:
    """Global, input and output maps of one PSBT, each in a drawn key order."""
    n_in = ch.draw(4, "psbt.nin") if version == 2 else 1 + ch.draw(3, "psbt.nin")
    n_out = ch.draw(4, "psbt.nout")
    tx_version = ch.pick([2, 1, 3, 0xFFFFFFFF], "psbt.txver")
    lock = uint(ch, 4, "psbt.lock")
    prevs: list[tuple[bytes, int, int]] = []
    utxos: list[bytes | None] = []
    for _ in range(n_in):
        seq = uint(ch, 4, "psbt.seq")
        if ch.chance(1, 3, "psbt.nwutxo"):
            full, tx, stripped = w_tx(ch, shape=ch.pick(["legacy", "segwit"], "psbt.utxoshape"))
            txid = hashlib.sha256(hashlib.sha256(stripped.raw()).digest()).digest()[::-1]
            prevs.append((txid, ch.draw(len(tx.vout), "psbt.vout"), seq))
            utxos.append(full.raw())
        else:
            prevs.append((ch.nbytes(32, "psbt.txid"), uint(ch, 4, "psbt.vout"), seq))
            utxos.append(None)
    if len({p[:2] for p in prevs}) != len(prevs):
        prevs, utxos, n_in = prevs[:1], utxos[:1], 1
    outs = [(ch.draw(MAX_MONEY // 4 + 1, "psbt.amount"), script_pub_key(ch, "psbt.spk") or b"\x51") for _ in range(n_out)]

    glob: Pairs = []
    if version == 0:
        utx = W().u(tx_version, 4).cs(n_in)
        for txid, vout, seq in prevs:
            utx.put(txid[::-1]).u(vout, 4).vb(b"").u(seq, 4)
        utx.cs(n_out)
        for amount, spk in outs:
            utx.i(amount, 8).vb(spk)
        glob.append((b"\x00", utx.u(lock, 4).raw()))
    else:
        glob += [(b"\x02", tx_version.to_bytes(4, "little")), (b"\x04", compact_size(n_in)), (b"\x05", compact_size(n_out)), (b"\xfb", (2).to_bytes(4, "little"))]
        if ch.draw(2, "psbt.fallback"):
            glob.append((b"\x03", lock.to_bytes(4, "little")))
        if ch.draw(2, "psbt.modifiable"):
            glob.append((b"\x06", bytes([ch.pick([0, 1, 2, 3, 7, 0xFF], "psbt.modv")])))
        for t, size in ((0x07, 33), (0x08, 64)):
            if ch.chance(1, 5, "psbt.gsp"):
                glob.append((bytes([t]) + pool.pub33(), ch.nbytes(size, "psbt.gspv")))
    for _ in range(ch.draw(3, "psbt.nxpub")):
        xkey = w_xkey(ch, pool)[0].raw()
        glob.append((b"\x01" + xkey, _origin_bytes(ch)))
    if ch.chance(1, 6, "psbt.signedmsg"):
        glob.append((b"\x09", blob(ch, ch.draw(40, "psbt.msglen"), "psbt.msg")))
    _unknown(ch, _UNKNOWN_GLOBAL, glob)
    maps = [_dedup(glob)]
    lock_kind = ch.draw(3, "psbt.lockkind")
    for prev, utxo in zip(prevs, utxos):
        pairs = psbt_input_pairs(ch, pool, version, prev, tags, lock_kind)
        if utxo is not None:
            pairs.append((b"\x00", utxo))
        maps.append(pairs)
    maps += [psbt_output_pairs(ch, pool, version, out, tags) for out in outs]
    return [ch.shuffled(m, "psbt.order") if ch.draw(2, "psbt.shuffle") else m for m in maps]


def psbt_marks(raw: bytes, at: int = len(psbtmap.MAGIC)) -> list[Mark]:
    """Marks of a PSBT as the reference splitter lays it out."""
    marks: list[Mark] = []
    for m in psbtmap.split_maps(raw, at):
        for p in m:
            marks += [
                Mark(p.keylen_at, p.key_at - p.keylen_at, "len"), Mark(p.key_at, 1, "marker"),
                Mark(p.vallen_at, p.value_at - p.vallen_at, "len"), Mark(p.value_at, len(p.value), "field"),
            ]
            at = p.end
        marks.append(Mark(at, 1, "marker"))  # the map's terminator
        at += 1
    return marks


# ---------------------------------------------------------------------------
# vendored objects
# ---------------------------------------------------------------------------
TESTS_DIR = os.path.join(os.path.dirname(os.path.dirname(os.path.abspath(btclib.__file__))), "tests")
_CORPUS: dict[str, list[bytes]] | None = None


def corpus() -> dict[str, list[bytes]]:
    """Vendored valid PSBTs, transactions and small blocks, in a stable order."""
    global _CORPUS  # noqa: PLW0603
    if _CORPUS is not None:
        return _CORPUS
    psbts: list[bytes] = []
    for name in ("bip174", "bip370", "bip371", "bip373", "bip375"):
        with open(os.path.join(TESTS_DIR, "psbt", "_data", f"{name}_test_vectors.json")) as f:
            doc = json.load(f)
        for section in ("valid psbts", "lock time psbts", "valid"):
            for vector in doc.get(section, []):
                for key in ("encoded psbt", "psbt"):
                    # the one vector whose lock time is null is the indeterminate one
                    if isinstance(vector.get(key), str) and vector.get("lock time", 0) is not None:
                        psbts.append(base64.b64decode(vector[key]))
    txs: list[bytes] = []
    with open(os.path.join(TESTS_DIR, "script_engine", "_data", "tx_valid.json")) as f:
        for vector in json.load(f):
            if len(vector) == 3 and isinstance(vector[1], str):
                txs.append(bytes.fromhex(vector[1]))
    blocks = []
    for name in ("block_1.bin", "block_170.bin"):
        with open(os.path.join(TESTS_DIR, "block", "_data", name), "rb") as f:
            blocks.append(f.read())
    _CORPUS = {"Psbt": sorted(set(psbts)), "Tx": sorted(set(txs)), "Block": blocks}
    return _CORPUS


# ---------------------------------------------------------------------------
# one stored object of a drawn class
# ---------------------------------------------------------------------------
STORE_KINDS = (
    "Tx", "Psbt", "Psbt.corpus", "var_int", "var_bytes", "OutPoint", "TxIn", "TxOut", "Witness", "Tx.corpus", "BlockHeader",
    "Block", "Block.corpus", "BIP32KeyData", "BIP32KeyOrigin", "dsa.Sig", "ssa.Sig", "bms.Sig", "ecies.Envelope", "PsbtIn", "PsbtOut",
)


def build(ch: Choices, pool: Pool, kind: str) -> Built:
    name = kind.split(".corpus")[0]
    codec = CODECS[name]
    if kind.endswith(".corpus"):
        raw = ch.pick(corpus()[name], "corpus.pick")
        marks = psbt_marks(raw) if name == "Psbt" else [Mark(0, 4, "field"), Mark(len(raw) - 4, 4, "field")]
        return Built(codec, raw, marks, tags=["corpus"])
    if kind == "var_int":
        v = (0, 0xFC, 0xFD, 0xFFFF, 0x10000, 0xFFFFFFFF, 0x100000000, _U64)[k] if (k := ch.draw(10, "vi.k")) < 8 else ch.draw(1 << (8 * (1 + ch.draw(8, "vi.w"))), "vi.v")
        return Built(codec, compact_size(v), [Mark(0, len(compact_size(v)), "count")], v)
    if kind == "var_bytes":
        n = 0x10000 if ch.chance(1, 40, "vb.big") else length(ch, "vb.len", 1000)
        data = blob(ch, n, "vb.data")
        w = W().vb(data)
        return Built(codec, w.raw(), w.marks, data)
    if kind in ("OutPoint", "TxIn", "TxOut", "Witness", "BlockHeader", "BIP32KeyOrigin"):
        w, obj = {"OutPoint": w_outpoint, "TxIn": w_txin, "TxOut": w_txout, "Witness": w_witness, "BlockHeader": w_header, "BIP32KeyOrigin": w_origin}[kind](ch)
        return Built(codec, w.raw(), w.marks, obj)
    if kind == "Tx":
        w, tx, stripped = w_tx(ch)
        return Built(codec, w.raw(), w.marks, tx, extra={"stripped": stripped.raw()})
    if kind == "Block":
        w, block, stripped = w_block(ch)
        return Built(codec, w.raw(), w.marks, block, valid=False, extra={"stripped": stripped.raw()})  # no proof of work
    if kind in ("BIP32KeyData", "ecies.Envelope"):
        w, obj = (w_xkey if kind == "BIP32KeyData" else w_envelope)(ch, pool)
        return Built(codec, w.raw(), w.marks, obj)
    if kind == "dsa.Sig":
        q, msg, sig = pool.dsa_sig()
        if ch.draw(3, "der.small") == 0:
            # scalars at the widths DER cares about (one octet with and without the high bit, two octets ...): not a
            # signature of anything, a value of the codec like any other
            edge = [1, 0x7F, 0x80, 0xFF, 0x100, 0x7FFF, 0x8000, 0xFFFF, 1 << 247, (1 << 248) - 1, (1 << 255) - 1]
            r_edge = [1, 0x7E, 0x81, 0xFF, 0x101, 0x7FFA, 0x8001, 0xFFFF]  # x-coordinates of secp256k1 on both sides of each width
            sig = dsa.Sig(ch.pick([sig.r, *r_edge], "der.r"), ch.pick([sig.s, *edge], "der.s"), check_validity=False)
        w = w_dsa_sig(sig)

        def der(r_octets: bytes, s_octets: bytes) -> bytes:
            body = b"\x02" + bytes([len(r_octets)]) + r_octets + b"\x02" + bytes([len(s_octets)]) + s_octets
            return b"\x30" + bytes([len(body)]) + body

        minimal = [v.to_bytes(v.bit_length() // 8 + 1, "big") for v in (sig.r, sig.s)]
        bare = [v.to_bytes(max(1, (v.bit_length() + 7) // 8), "big") for v in (sig.r, sig.s)]
        mutants = [
            ("der-r-padded", der(b"\x00" + minimal[0], minimal[1])), ("der-s-padded", der(minimal[0], b"\x00" + minimal[1])),
            ("der-both-padded", der(b"\x00" + minimal[0], b"\x00" + minimal[1])), ("der-r-padded-twice", der(b"\x00\x00" + minimal[0], minimal[1])),
            ("der-r-unpadded", der(bare[0], minimal[1])), ("der-s-unpadded", der(minimal[0], bare[1])),  # negative when the high bit is set
        ]
        mutants = [(name, m) for name, m in mutants if m != w.raw() and len(m) < 0x80]
        return Built(codec, w.raw(), w.marks, sig, extra={"q": q, "msg": msg, "mutants": mutants})
    if kind == "ssa.Sig":
        q, msg = pool.scalar(), blob(ch, ch.draw(48, "ssa.msglen"), "ssa.msg")
        sig = ssa.sign_(msg, q, ch.nbytes(32, "ssa.aux"))
        w = W().be(sig.r, 32).be(sig.s, 32)
        return Built(codec, w.raw(), w.marks, sig, extra={"q": q, "msg": msg})
    if kind == "bms.Sig":
        q, msg = pool.scalar(), blob(ch, ch.draw(48, "bms.msglen"), "bms.msg")
        sig = bms.sign(msg, q)
        w = W().put(bytes([sig.rf]), "flag").be(sig.dsa_sig.r, 32).be(sig.dsa_sig.s, 32)
        return Built(codec, w.raw(), w.marks, sig, extra={"q": q, "msg": msg})
    tags: list[str] = []
    if kind == "Psbt":
        version = ch.pick([0, 2], "psbt.version")
        raw = psbtmap.assemble(psbt_maps(ch, pool, version, tags))
        return Built(codec, raw, psbt_marks(raw), tags=tags)
    prev = (ch.nbytes(32, "psbt.txid"), uint(ch, 4, "psbt.vout"), uint(ch, 4, "psbt.seq"))
    pairs = psbt_input_pairs(ch, pool, 2, prev, tags, 1 + ch.draw(2, "psbt.lockkind")) if kind == "PsbtIn" else psbt_output_pairs(ch, pool, 2, (ch.draw(MAX_MONEY + 1, "psbt.amount"), script_pub_key(ch) or b"\x51"), tags)
    raw = psbtmap.assemble([pairs], magic=False)
    return Built(codec, raw, psbt_marks(raw, 0), tags=tags)


# ---------------------------------------------------------------------------
# the systematic corruption walk
# ---------------------------------------------------------------------------
_BYTE_EDGES = (0x00, 0x01, 0x02, 0x7F, 0x80, 0xFC, 0xFD, 0xFE, 0xFF)


def mutations(ch: Choices, raw: bytes, marks: list[Mark], cap: int = 48) -> list[tuple[str, bytes]]:
    """(fault kind, octets): the bounded systematic set for one object."""
    # edits as (kind, offset, octets removed there, octets put there); a truncation removes the rest
    edits: list[tuple[str, int, int, bytes]] = []
    cuts = sorted({c for m in marks for c in (m.off - 1, m.off, m.off + 1)} | {len(raw) - 1, 0})
    edits += [("truncate", c, len(raw) - c, b"") for c in cuts if 0 <= c < len(raw)]
    for m in marks:
        if m.kind in ("count", "len"):
            v = int.from_bytes(raw[m.off + 1:m.off + m.size], "little") if m.size > 1 else raw[m.off]
            edits += [("nonminimal-" + m.kind, m.off, m.size, compact_size(v, w)) for w in (3, 5, 9) if w > m.size]
        if m.kind != "field" and m.size:
            cur = raw[m.off]
            edits += [("edit-" + m.kind, m.off, 1, bytes([v])) for v in sorted({*_BYTE_EDGES, (cur + 1) & 0xFF, (cur - 1) & 0xFF} - {cur})]
    edits += [("trailing", len(raw), 0, t) for t in (b"\x00", b"\xff", ch.nbytes(1 + ch.draw(4, "mut.ntrail"), "mut.trail"))]
    if len(edits) > cap:
        step = -(-len(edits) // cap)
        edits = edits[ch.draw(step, "mut.phase")::step]
    for _ in range(3 if raw else 0):
        i = ch.draw(len(raw) * 8, "mut.bit")
        edits.append(("bitflip", i // 8, 1, bytes([raw[i // 8] ^ (1 << (i % 8))])))
    if raw and ch.draw(4, "mut.run?") == 3:
        # a long run of one octet, inserted or written over what was there: the shape that makes a
        # unary / length-driven decoder loop or recurse far beyond what an honest encoding asks of it
        n = ch.pick([64, 1024, 8192, 65536], "mut.run.len")
        off = ch.draw(len(raw) + 1, "mut.run.off")
        fill = ch.pick([b"\xff", b"\x00", b"\x80"], "mut.run.octet")
        edits.append(("long-run", off, ch.pick([0, min(n, len(raw) - off)], "mut.run.over"), fill * n))
    return [(kind, raw[:off] + put + raw[off + cut:]) for kind, off, cut, put in edits]
