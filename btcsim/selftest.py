"""Self-tests: determinism of replay, and the setup check.

``selftest determinism [--seeds N] [--worlds a,b]``: N run indexes per
(world, config) are executed twice in different worker processes at 16
workers, once at 1 worker, and once in a fresh interpreter under another
PYTHONHASHSEED. Full event-log digests must agree between the same-hashseed
executions; under another hash seed the *verdict-level* digest (statuses
and trace hashes) must agree.
"""

from __future__ import annotations

import json
import os
import subprocess
import sys
from concurrent.futures import ProcessPoolExecutor
from multiprocessing import get_context
from typing import Any

from btcsim.core.runner import VERIF_DIR, run_chunk


def _plans() -> list[tuple[str, str, dict[str, Any]]]:
    from btcsim.checks import CHECKS  # noqa: PLC0415

    out = []
    seen = set()
    for prop, c in sorted(CHECKS.items()):
        for p in c["plans"]("quick"):  # type: ignore[operator]
            key = (p.world, json.dumps(p.cfg, sort_keys=True), prop)
            if key in seen:
                continue
            seen.add(key)
            out.append((p.world, prop, p.cfg))
    return out


def _digests(world: str, lens: str, cfg: dict[str, Any], base: int, start: int, count: int) -> dict[int, str]:
    cr = run_chunk(world, lens, cfg, base, start, count, want_digests=True)
    return {i: d + ":" + s for (i, d), s in zip(sorted(cr.digests.items()), [""] * len(cr.digests))}


def _digest_job(args: tuple[str, str, dict[str, Any], int, int, int]) -> dict[int, str]:
    return _digests(*args)


def determinism(seeds: int, only_worlds: set[str] | None) -> int:
    base = int(os.environ.get("VERIF_SEED", "20260922"))
    plans = [p for p in _plans() if only_worlds is None or p[0] in only_worlds]
    ctxmp = get_context("fork")
    bad = 0
    total = 0
    for world, lens, cfg in plans:
        jobs = [(world, lens, cfg, base, s, 5) for s in range(0, seeds, 5)]
        with ProcessPoolExecutor(max_workers=16, mp_context=ctxmp) as ex:
            a: dict[int, str] = {}
            for d in ex.map(_digest_job, jobs):
                a.update(d)
        with ProcessPoolExecutor(max_workers=16, mp_context=ctxmp) as ex:
            b: dict[int, str] = {}
            for d in ex.map(_digest_job, list(reversed(jobs))):
                b.update(d)
        with ProcessPoolExecutor(max_workers=1, mp_context=ctxmp) as ex:
            c: dict[int, str] = {}
            for d in ex.map(_digest_job, jobs[: max(1, len(jobs) // 4)]):
                c.update(d)
        # fresh interpreter, another hash seed
        env = dict(os.environ, PYTHONHASHSEED="12345", BTCSIM_CHILD="1")
        p = subprocess.run(  # noqa: S603
            [sys.executable, "-m", "btcsim", "selftest", "digests", world, lens, json.dumps(cfg), str(min(seeds, 40))],
            cwd=VERIF_DIR, env=env, capture_output=True, text=True, timeout=1800, check=False,
        )
        try:
            e = {int(k): v for k, v in json.loads(p.stdout.strip().splitlines()[-1]).items()}
        except Exception:  # noqa: BLE001
            print(f"HARNESS-ERROR selftest: fresh interpreter failed for {world}/{cfg}: {p.stdout[-400:]} {p.stderr[-400:]}")
            bad += 1
            e = {}
        for i in sorted(a):
            total += 1
            if a[i] != b.get(i):
                bad += 1
                print(f"NONDETERMINISM {world} {cfg} lens={lens} run {i}: two workers disagree")
            if i in c and a[i] != c[i]:
                bad += 1
                print(f"NONDETERMINISM {world} {cfg} lens={lens} run {i}: 16 vs 1 workers disagree")
            if i in e and a[i] != e[i]:
                bad += 1
                print(f"NONDETERMINISM {world} {cfg} lens={lens} run {i}: PYTHONHASHSEED changes the run")
        print(f"determinism {world} {cfg} lens={lens}: {len(a)} runs x (2 pools + 1-worker + fresh interpreter) ok={bad == 0}", flush=True)
    print(f"determinism: {total} runs compared, {bad} divergences")
    return 1 if bad else 0


def setup() -> int:
    """MANIFEST.setup_cmd: everything imports, the tree is the one in /repo."""
    import compileall  # noqa: PLC0415

    import btclib  # noqa: PLC0415

    from btcsim.seams import state as st  # noqa: PLC0415
    from btcsim.worlds import _WORLDS  # noqa: PLC0415

    ok = compileall.compile_dir(os.path.join(VERIF_DIR, "btcsim"), quiet=1)
    print("btclib from", os.path.dirname(btclib.__file__), "bindings installed:", st.bindings_installed())
    import importlib  # noqa: PLC0415

    for name, mod in sorted(_WORLDS.items()):
        try:
            importlib.import_module(mod)
        except ModuleNotFoundError:
            print(f"world {name}: not built")
    print("caches discovered:", [f"{m}.{n}" for m, n, _ in st.discover_caches()])
    return 0 if ok else 1


def main(argv: list[str]) -> int:
    if not argv:
        return 2
    if argv[0] == "determinism":
        seeds = 40
        worlds = None
        if "--seeds" in argv:
            seeds = int(argv[argv.index("--seeds") + 1])
        if "--worlds" in argv:
            worlds = set(argv[argv.index("--worlds") + 1].split(","))
        return determinism(seeds, worlds)
    if argv[0] == "sensitivity":
        only = argv[1] if len(argv) > 1 and not argv[1].startswith("--") else None
        tier = argv[argv.index("--tier") + 1] if "--tier" in argv else "quick"
        return sensitivity(only, tier)
    if argv[0] == "digests":
        world, lens, cfg, n = argv[1], argv[2], json.loads(argv[3]), int(argv[4])
        base = int(os.environ.get("VERIF_SEED", "20260922"))
        print(json.dumps(_digests(world, lens, cfg, base, 0, n)))
        return 0
    return 2


def sensitivity(only: str | None, tier: str = "quick") -> int:
    """Apply each mutant / seeded change to a scratch worktree of /repo and
    expect the matching check to exit 1 there. Not part of any registered check."""
    import glob  # noqa: PLC0415
    import re  # noqa: PLC0415
    import shutil  # noqa: PLC0415

    repo = os.environ.get("BTCSIM_REPO", "/repo")
    patches: list[tuple[str, str, str]] = []  # (name, property, path)
    for p in sorted(glob.glob(os.path.join(VERIF_DIR, "mutants", "*.patch"))):
        name = os.path.basename(p)[:-6]
        m = re.match(r"(?i)(c\d+)_", name)
        if m:
            patches.append((name, m.group(1).upper(), p))
    for d in sorted(glob.glob(os.path.join(VERIF_DIR, "seeded", "*"))):
        meta = os.path.join(d, "meta.json")
        pd = os.path.join(d, "patch.diff")
        if os.path.exists(meta) and os.path.exists(pd):
            with open(meta) as f:
                m_ = json.load(f)
            # "checked_by" / "tier": the check and tier DESIGN 10.4 names for this change, when not the agent's property / quick
            patches.append((os.path.basename(d) + (":" + m_["tier"] if m_.get("tier") else ""), m_.get("checked_by") or m_["property"], pd))
    if only:
        patches = [x for x in patches if only in x[0] or only == x[1]]
    results = []
    for name, prop, path in patches:
        scratch = f"/var/tmp/btcsim-scratch-{os.getpid()}-{name.split(':')[0]}"
        subprocess.run(["git", "-C", repo, "worktree", "add", "-q", "--detach", scratch, "HEAD"], check=True)  # noqa: S603, S607
        try:
            ap = subprocess.run(["git", "-C", scratch, "apply", path], capture_output=True, text=True, check=False)  # noqa: S603, S607
            if ap.returncode != 0:
                results.append((name, prop, "patch-does-not-apply", ap.stderr.strip()[:200]))
                continue
            env = dict(os.environ, PYTHONPATH=scratch, PYTHONHASHSEED="0")
            env["BTCSIM_EVIDENCE_DIR"] = f"/var/tmp/btcsim-evidence-{os.getpid()}"
            env["BTCSIM_REPLAY_DIR"] = f"/var/tmp/btcsim-replays-{os.getpid()}"
            p = subprocess.run(  # noqa: S603
                [sys.executable, "-m", "btcsim", "check", prop, "--tier", name.split(":")[1] if ":" in name else tier],
                cwd=VERIF_DIR, env=env, capture_output=True, text=True, timeout=3600, check=False,
            )
            lines = [ln for ln in p.stdout.splitlines() if ln.startswith(("VIOLATION", "  invariant", "HARNESS", "KNOWN"))]
            verdict = {0: "MISSED", 1: "caught", 2: "harness-error"}.get(p.returncode, f"exit {p.returncode}")
            results.append((name, prop, verdict, " | ".join(lines[:4])))
        finally:
            subprocess.run(["git", "-C", repo, "worktree", "remove", "--force", scratch], check=False)  # noqa: S603, S607
            shutil.rmtree(scratch, ignore_errors=True)
        print(f"sensitivity {name} [{prop}]: {results[-1][2]}  {results[-1][3][:300]}", flush=True)
    shutil.rmtree(f"/var/tmp/btcsim-evidence-{os.getpid()}", ignore_errors=True)
    shutil.rmtree(f"/var/tmp/btcsim-replays-{os.getpid()}", ignore_errors=True)
    missed = [r for r in results if r[2] != "caught"]
    print(f"sensitivity: {len(results) - len(missed)}/{len(results)} caught")
    return 1 if missed else 0
