"""Baton-passing thread scheduler.

Real ``threading.Thread``s, exactly one runnable at any instant; the choice
of who runs is drawn from ``Choices``. A ``line`` trace event inside a
frame whose file lies under the btclib package is a pre-emption candidate,
but only the *first visit of a line in a given frame* counts as a step, so
a 2048-iteration comprehension is one candidate, not 2048.

Strategies (drawn per run by the world):
- ``pct``  : PCT-style priorities with d change points;
- ``unif`` : at each step switch with probability p to a uniformly drawn
  other runnable thread;
- ``stagger``: thread i becomes runnable at step s_i, then ``unif``.
- ``rdv``  : ``unif`` plus a rendezvous on shared state: at a step inside a
  *hot* function (one that touches a hand-rolled memo or a lazily filled
  attribute: ``seams.state.hot_codes``) the thread may be parked (a drawn
  coin, a drawn budget of parks per thread) until another thread has run
  through a hot function, and is resumed right there. A check-then-act
  window one line wide is then met by construction rather than by luck;
  which thread parks where, and who runs meanwhile, are draws like any other.

Calls into C (cffi bindings, builtins, ``lru_cache``'s own locking) are
atomic steps -- which is also what the GIL makes them.
"""

from __future__ import annotations

import os
import sys
import threading
from typing import Any, Callable

import btclib

from btcsim.core.choices import ReplayDrift
from btcsim.core.ctx import Ctx, HarnessTimeout

BTCLIB_ROOT = os.path.dirname(os.path.abspath(btclib.__file__)) + os.sep


class SimAbort(BaseException):
    """Raised inside simulated threads to unwind them (cap, deadlock, timeout)."""


class _T:
    __slots__ = (
        "name", "fn", "sem", "thread", "finished", "started", "result",
        "prio", "blocked_on", "visited", "idx", "start_at", "steps", "parks_left",
    )

    def __init__(self, idx: int, name: str, fn: Callable[[], Any]) -> None:
        self.idx = idx
        self.name = name
        self.fn = fn
        self.sem = threading.Semaphore(0)
        self.thread: threading.Thread | None = None
        self.finished = False
        self.started = False
        self.result: tuple[str, Any] = ("none", None)
        self.prio = 0
        self.blocked_on: Any = None
        self.visited: dict[int, set[int]] = {}
        self.start_at = 0
        self.steps = 0
        self.parks_left = 0


class SimThreads:
    def __init__(
        self,
        ctx: Ctx,
        strategy: dict[str, Any],
        *,
        opcode: bool = False,
        dedupe: str = "frame",
        max_steps: int = 400000,
        wall_timeout: float = 60.0,
        root: str = BTCLIB_ROOT,
        hot: frozenset[Any] = frozenset(),
    ) -> None:
        self.ctx = ctx
        self.strategy = strategy
        self.opcode = opcode
        self.dedupe = dedupe  # "op": first visit of a line per operation; "frame": per frame; "none": every event
        self.max_steps = max_steps
        self.wall_timeout = wall_timeout
        self.root = root
        self.threads: list[_T] = []
        self.current: _T | None = None
        self.steps = 0
        self.switch_trace: list[str] = []
        self.deadlock = False
        self.capped = False
        self._abort = False
        self._done = threading.Semaphore(0)
        self._low = 0
        self._change_points: set[int] = set()
        self._fin_lock = threading.Lock()
        self.harness_exc: BaseException | None = None
        self.hot = hot if strategy.get("kind") == "rdv" else frozenset()
        self._parked: _T | None = None

    # -- building ---------------------------------------------------------------
    def spawn(self, name: str, fn: Callable[[], Any]) -> None:
        self.threads.append(_T(len(self.threads), name, fn))

    # -- tracing ----------------------------------------------------------------
    def _global_trace(self, frame: Any, event: str, arg: Any) -> Any:
        if event == "call" and frame.f_code.co_filename.startswith(self.root):
            # (opcode-level events are not used: CPython 3.12.1 segfaults with f_trace_opcodes inside generator
            # expressions under a Python trace function -- seen in the first thorough run -- so the finest
            # granularity is "every line event", dedupe="none")
            return self._local_trace
        return None

    def _local_trace(self, frame: Any, event: str, arg: Any) -> Any:
        t = self.current
        if t is None:
            return self._local_trace
        if event == "line" or event == "opcode":
            if self.dedupe != "none":
                key = id(frame) if self.dedupe == "frame" else id(frame.f_code)
                seen = t.visited.get(key)
                if seen is None:
                    seen = t.visited[key] = set()
                mark = frame.f_lineno if event == "line" else -1 - frame.f_lasti
                if mark in seen:
                    return self._local_trace
                seen.add(mark)
            self._step(t, frame)
        elif event == "return":
            if self.dedupe == "frame":
                t.visited.pop(id(frame), None)
            if self._parked is not None and self._parked is not t and frame.f_code in self.hot:
                # this thread has been through a hot function while another is parked inside one: the parked
                # thread goes on from where it stood
                nxt = self._parked
                self._parked = None
                self.ctx.probe("rendezvous-met")
                self._switch(t, nxt, f"{os.path.basename(frame.f_code.co_filename)}:{frame.f_lineno}.ret")
        return self._local_trace

    def new_op(self) -> None:
        """A thread starts its next operation: per-operation dedupe starts over."""
        t = self.current
        if t is not None and self.dedupe == "op":
            t.visited = {}

    # -- scheduling ---------------------------------------------------------------
    def _runnable(self, exclude: _T | None = None) -> list[_T]:
        out = []
        for t in self.threads:
            if t is exclude or t.finished:
                continue
            if t.blocked_on is not None and t.blocked_on.owner is not None:
                continue
            if not t.started and t.start_at > self.steps:
                continue
            out.append(t)
        return out

    def _step(self, t: _T, frame: Any) -> None:
        self.steps += 1
        t.steps += 1
        if self.steps > self.max_steps:
            self.capped = True
            self._abort_all()
            raise SimAbort("step cap")
        try:
            nxt = self._decide(t, bool(self.hot) and frame.f_code in self.hot)
        except SimAbort:
            raise
        except BaseException as e:  # noqa: BLE001
            self._harness_failure(e)
        if nxt is not t:
            loc = f"{os.path.basename(frame.f_code.co_filename)}:{frame.f_lineno}"
            self._switch(t, nxt, loc)

    def _harness_failure(self, e: BaseException) -> None:
        """The scheduler itself failed (replay drift, a bug): unwind everything."""
        if self.harness_exc is None:
            self.harness_exc = e
        self._abort_all()
        raise SimAbort("harness failure")

    def _decide(self, t: _T, hot: bool = False) -> _T:
        kind = self.strategy["kind"]
        if kind == "rdv":
            others = [x for x in self._runnable(exclude=t) if x is not self._parked]
            if not others:
                return t
            if hot and self._parked is None and t.parks_left > 0 and self.ctx.ch.chance(1, 3, "thr.park?"):
                t.parks_left -= 1
                self._parked = t
                self.ctx.probe("rendezvous-parked")
                return others[self.ctx.ch.draw(len(others), "thr.park.to")]
            num, den = self.strategy["p"]
            if self.ctx.ch.chance(num, den, "thr.switch?"):
                return others[self.ctx.ch.draw(len(others), "thr.to")]
            return t
        if kind == "pct":
            if self.steps in self._change_points:
                self._low -= 1
                t.prio = self._low
            cands = self._runnable()
            if not cands:
                return t
            best = max(cands, key=lambda x: (x.prio, -x.idx))
            return best
        # unif / stagger
        others = self._runnable(exclude=t)
        if not others:
            return t
        num, den = self.strategy["p"]
        if self.ctx.ch.chance(num, den, "thr.switch?"):
            return others[self.ctx.ch.draw(len(others), "thr.to")]
        return t

    def _switch(self, t: _T, nxt: _T, loc: str) -> None:
        self.switch_trace.append(f"{t.name}@{loc}>{nxt.name}")
        self.ctx.switches += 1
        if nxt is self._parked:
            self._parked = None  # nobody else could run: the parked thread goes on without its rendezvous
        self.current = nxt
        nxt.started = True
        nxt.sem.release()
        t.sem.acquire()
        if self._abort:
            raise SimAbort("aborted")
        self.current = t

    def yield_point(self, label: str) -> None:
        """An explicit candidate (used by SimLock and worlds)."""
        t = self.current
        if t is None or threading.current_thread() is not t.thread:
            return
        self.steps += 1
        try:
            nxt = self._decide(t)
        except SimAbort:
            raise
        except BaseException as e:  # noqa: BLE001
            self._harness_failure(e)
        if nxt is not t:
            self._switch(t, nxt, label)

    def block_current(self, lock: Any) -> None:
        """The current thread cannot proceed until ``lock`` is free."""
        t = self.current
        assert t is not None
        t.blocked_on = lock
        others = self._runnable(exclude=t)
        if not others:
            others = [x for x in self.threads if x is not t and not x.finished and not x.started and x.blocked_on is None]
            for x in others:
                x.start_at = 0
        if not others:
            self.deadlock = True
            self._abort_all()
            raise SimAbort("deadlock")
        if self.strategy["kind"] == "pct":
            nxt = max(others, key=lambda x: (x.prio, -x.idx))
        else:
            nxt = others[self.ctx.ch.draw(len(others), "thr.blocked.to")]
        self._switch(t, nxt, "lock")
        t.blocked_on = None

    def _abort_all(self) -> None:
        self._abort = True
        for t in self.threads:
            if not t.finished and t is not self.current:
                t.sem.release()

    def _finish_aborted(self, t: _T) -> None:
        with self._fin_lock:
            t.finished = True
            if all(x.finished for x in self.threads):
                self._done.release()

    def _finish(self, t: _T) -> None:
        if self._abort:
            self._finish_aborted(t)
            return
        t.finished = True
        rest = [x for x in self.threads if not x.finished]
        if not rest:
            self._done.release()
            return
        cands = self._runnable()
        if not cands:
            # unstarted staggered threads become runnable now
            waiting = [x for x in rest if not x.started and x.blocked_on is None]
            if waiting:
                for x in waiting:
                    x.start_at = 0
                cands = waiting
            else:
                self.deadlock = True
                self.current = None
                self._abort_all()
                return
        if self.strategy["kind"] == "pct":
            nxt = max(cands, key=lambda x: (x.prio, -x.idx))
        else:
            nxt = cands[self.ctx.ch.draw(len(cands), "thr.next")]
        self.switch_trace.append(f"{t.name}.end>{nxt.name}")
        if nxt is self._parked:
            self._parked = None
        self.current = nxt
        nxt.started = True
        nxt.sem.release()

    def _boot(self, t: _T) -> None:
        t.sem.acquire()
        if self._abort:
            t.result = ("abort", None)
            self._finish_aborted(t)
            return
        sys.settrace(self._global_trace)
        try:
            t.result = ("ok", t.fn())
        except SimAbort:
            t.result = ("abort", None)
        except BaseException as e:  # noqa: BLE001
            t.result = ("exc", e)
            if isinstance(e, (ReplayDrift, HarnessTimeout)) and self.harness_exc is None:
                self.harness_exc = e
        finally:
            sys.settrace(None)
            try:
                self._finish(t)
            except BaseException as e:  # noqa: BLE001
                if self.harness_exc is None and not isinstance(e, SimAbort):
                    self.harness_exc = e
                self.current = None
                self._abort_all()
                self._finish_aborted(t)

    # -- running ------------------------------------------------------------------
    def run(self, est_steps: int = 200) -> dict[str, tuple[str, Any]]:
        """Run the spawned threads to the end under the baton, with every lock the library holds made cooperative.

        A real ``threading.Lock`` taken by a parked thread blocks the next thread in C, where no trace event fires and the
        baton is never handed back: the run would sit until the wall watchdog ends it (a harness error, exit 2). Today only
        ``mnemonic`` has one and W8 shims it itself; a changed tree may bring another (a memo behind a module-level lock),
        and a simulator that hangs on it decides nothing about that tree. So for the length of the run the name
        ``threading`` in every btclib module, module-level lock objects, and lock attributes of module-level instances
        become the cooperative stand-ins; everything is put back afterwards. On a tree without such locks this does nothing.
        """
        undo = shim_library_locks()
        mine = SimLock.sched is None
        if mine:
            SimLock.sched = self
        try:
            return self._run(est_steps)
        finally:
            if mine:
                SimLock.sched = None
            undo()

    def _run(self, est_steps: int = 200) -> dict[str, tuple[str, Any]]:
        ch = self.ctx.ch
        kind = self.strategy["kind"]
        n = len(self.threads)
        if kind == "pct":
            order = ch.shuffled(list(range(n)), "thr.prio")
            for rank, i in enumerate(order):
                self.threads[i].prio = n - rank
            d = self.strategy.get("d", 1)
            self._change_points = {1 + ch.draw(max(1, est_steps), "thr.cp") for _ in range(d)}
        elif kind == "rdv":
            for t in self.threads:
                t.parks_left = ch.draw(6, "thr.parks")
        elif kind == "stagger":
            for t in self.threads:
                t.start_at = ch.draw(max(1, est_steps), "thr.start_at")
            first = ch.draw(n, "thr.first")
            self.threads[first].start_at = 0
        for t in self.threads:
            t.thread = threading.Thread(target=self._boot, args=(t,), name=f"sim-{t.name}", daemon=True)
            t.thread.start()
        cands = self._runnable()
        if kind == "pct":
            first_t = max(cands, key=lambda x: (x.prio, -x.idx))
        else:
            first_t = cands[ch.draw(len(cands), "thr.first.run")]
        self.current = first_t
        first_t.started = True
        first_t.sem.release()
        if not self._done.acquire(timeout=self.wall_timeout):
            self._abort = True
            for t in self.threads:
                t.sem.release()
            raise HarnessTimeout("thread world wall timeout")
        if self._abort:
            # let parked threads unwind
            for t in self.threads:
                if t.thread is not None:
                    t.thread.join(timeout=5)
        else:
            for t in self.threads:
                assert t.thread is not None
                t.thread.join(timeout=5)
        self.current = None
        if self.harness_exc is not None:
            raise self.harness_exc
        return {t.name: t.result for t in self.threads}


class SimLock:
    """Cooperative stand-in for ``threading.Lock`` under SimThreads.

    Outside a scheduler it behaves as an uncontended lock.
    """

    sched: SimThreads | None = None  # set by the world for the run

    def __init__(self) -> None:
        self.owner: Any = None

    def _me(self) -> Any:
        s = SimLock.sched
        if s is None or s.current is None:
            return None
        if threading.current_thread() is not s.current.thread:
            return None
        return s.current

    def acquire(self, blocking: bool = True, timeout: float = -1) -> bool:
        me = self._me()
        if me is None:
            if self.owner is not None:
                if not blocking:
                    return False
                raise RuntimeError("SimLock contended outside the scheduler")
            self.owner = "main"
            return True
        s = SimLock.sched
        assert s is not None
        s.yield_point("lock.acquire")
        while self.owner is not None:
            if not blocking:
                return False
            s.ctx.probe("lock-contended")
            s.block_current(self)
        self.owner = me
        return True

    def release(self) -> None:
        if self.owner is None:
            raise RuntimeError("release unlocked lock")
        self.owner = None
        me = self._me()
        if me is not None and SimLock.sched is not None:
            SimLock.sched.yield_point("lock.release")

    def locked(self) -> bool:
        return self.owner is not None

    def __enter__(self) -> bool:
        return self.acquire()

    def __exit__(self, *exc: object) -> None:
        self.release()


class ThreadingShim:
    """Replaces the ``threading`` name inside a btclib module."""

    Lock = SimLock
    RLock = SimLock  # no btclib code re-enters today; a re-entry shows as deadlock

    def __getattr__(self, name: str) -> Any:
        return getattr(threading, name)


_LOCK_TYPES = (type(threading.Lock()), type(threading.RLock()))


def shim_library_locks() -> Callable[[], None]:
    """Make the locks of every loaded btclib module cooperative; returns the undo. Names are visited in sorted order."""
    import sys  # noqa: PLC0415

    undos: list[Callable[[], None]] = []

    def put(holder: Any, name: str, new: Any) -> None:
        old = getattr(holder, name)
        try:
            setattr(holder, name, new)
        except Exception:  # noqa: BLE001 -- a frozen or slotted holder keeps its lock
            return
        undos.append(lambda: setattr(holder, name, old))

    shim = ThreadingShim()
    for mod_name in sorted(sys.modules):
        mod = sys.modules[mod_name]
        if mod is None or not (mod_name == "btclib" or mod_name.startswith("btclib.")):
            continue
        for name in sorted(vars(mod)):
            value = vars(mod)[name]
            if value is threading:
                put(mod, name, shim)
            elif value is threading.Lock or value is threading.RLock:
                put(mod, name, SimLock)
            elif isinstance(value, _LOCK_TYPES):
                if not value.locked() if hasattr(value, "locked") else True:
                    put(mod, name, SimLock())
            elif getattr(type(value), "__module__", "").startswith("btclib") and hasattr(value, "__dict__"):
                for attr in sorted(vars(value)):
                    held = vars(value)[attr]
                    if isinstance(held, _LOCK_TYPES) and not (hasattr(held, "locked") and held.locked()):
                        put(value, attr, SimLock())
    return lambda: [u() for u in reversed(undos)] and None


def count_steps(fn: Callable[[], Any], root: str = BTCLIB_ROOT, dedupe: str = "frame") -> tuple[Any, int]:
    """Run fn on this thread under the same step definition; return
    (result-or-exception, steps). Used for baselines and PCT's estimate."""
    steps = 0
    visited: dict[int, set[int]] = {}

    def local(frame: Any, event: str, arg: Any) -> Any:
        nonlocal steps
        if event == "line":
            seen = visited.setdefault(id(frame) if dedupe == "frame" else id(frame.f_code), set())
            if frame.f_lineno not in seen:
                seen.add(frame.f_lineno)
                steps += 1
        elif event == "return" and dedupe == "frame":
            visited.pop(id(frame), None)
        return local

    def glob(frame: Any, event: str, arg: Any) -> Any:
        if event == "call" and frame.f_code.co_filename.startswith(root):
            return local
        return None

    old = sys.gettrace()
    sys.settrace(glob)
    try:
        try:
            res: tuple[str, Any] = ("ok", fn())
        except Exception as e:  # noqa: BLE001
            res = ("exc", e)
    finally:
        sys.settrace(old)
    return res, steps
