"""Discrete-event loop and the courier: the only transport actors have.

Events are ``(sim_time, seq, callable)`` in a heap: a total order. When
nothing is runnable at the current instant the clock jumps to the next
event. Time is an integer (think milliseconds); it exists only here.

The courier injects drop, duplicate, delay (=> reorder), partition/heal and
corruption; every fault that actually fires is counted through
``ctx.fault``. After ``quiesce_at`` no more faults are injected, so that
bounded liveness ("completes within R rounds after the last fault") can be
asserted without a timing oracle during the faulty phase.
"""

from __future__ import annotations

import heapq
from typing import Any, Callable

from btcsim.core.ctx import Ctx


class Sim:
    def __init__(self, ctx: Ctx, max_events: int = 400) -> None:
        self.ctx = ctx
        self.now = 0
        self._seq = 0
        self._q: list[tuple[int, int, str, Callable[[], None]]] = []
        self.max_events = max_events
        self.delivered = 0
        self.capped = False

    def after(self, delay: int, what: str, fn: Callable[[], None]) -> None:
        self._seq += 1
        heapq.heappush(self._q, (self.now + max(0, delay), self._seq, what, fn))

    def run(self, until: int | None = None, invariant: Callable[[], None] | None = None) -> None:
        while self._q:
            if until is not None and self._q[0][0] > until:
                break
            if self.delivered >= self.max_events:
                self.capped = True
                break
            at, _, _what, fn = heapq.heappop(self._q)
            self.now = at
            self.ctx.sim_time = at
            self.delivered += 1
            fn()
            if invariant is not None:
                invariant()

    def idle(self) -> bool:
        return not self._q


class Courier:
    """Point-to-point message transport between named actors.

    ``cfg`` (all optional, per-mille rates, drawn per run by the world):
    drop, dup, corrupt, min_delay, jitter, quiesce_at. ``corruptor`` is the
    world's own function ``(ch, payload) -> payload`` so that corruption
    can be structure-aware.
    """

    def __init__(
        self,
        sim: Sim,
        deliver: Callable[[str, str, Any], None],
        *,
        drop: int = 0,
        dup: int = 0,
        corrupt: int = 0,
        min_delay: int = 1,
        jitter: int = 20,
        quiesce_at: int | None = None,
        corruptor: Callable[[Any, Any], Any] | None = None,
    ) -> None:
        self.sim = sim
        self.ctx = sim.ctx
        self.deliver = deliver
        self.drop = drop
        self.dup = dup
        self.corrupt = corrupt
        self.min_delay = min_delay
        self.jitter = jitter
        self.quiesce_at = quiesce_at
        self.corruptor = corruptor
        self.partitioned: set[frozenset[str]] = set()
        self.sent = 0

    def faults_active(self) -> bool:
        return self.quiesce_at is None or self.sim.now < self.quiesce_at

    def partition(self, a: str, b: str) -> None:
        self.partitioned.add(frozenset((a, b)))
        self.ctx.fault("partition", a, b)

    def heal(self) -> None:
        if self.partitioned:
            self.partitioned.clear()
            self.ctx.log("heal")

    def send(self, src: str, dst: str, payload: Any, what: str = "msg") -> None:
        ch = self.ctx.ch
        self.sent += 1
        active = self.faults_active()
        if active and frozenset((src, dst)) in self.partitioned:
            self.ctx.fault("partition-drop", src, dst, what, actor=src)
            return
        if active and self.drop and ch.chance(self.drop, 1000, "net.drop?"):
            self.ctx.fault("drop", src, dst, what, actor=src)
            return
        delay = self.min_delay + (ch.draw(self.jitter + 1, "net.delay") if self.jitter else 0)
        body = payload
        if active and self.corrupt and self.corruptor is not None and ch.chance(self.corrupt, 1000, "net.corrupt?"):
            body = self.corruptor(ch, payload)
            self.ctx.fault("corrupt", src, dst, what, actor=src)
        self.ctx.log("send", dst, what, f"d={delay}", actor=src)
        self.sim.after(delay, what, lambda: self._arrive(src, dst, body, what))
        if active and self.dup and ch.chance(self.dup, 1000, "net.dup?"):
            d2 = delay + 1 + ch.draw(self.jitter + 1, "net.dupdelay")
            self.ctx.fault("duplicate", src, dst, what, actor=src)
            self.sim.after(d2, what, lambda: self._arrive(src, dst, body, what))

    def _arrive(self, src: str, dst: str, body: Any, what: str) -> None:
        self.ctx.log("recv", src, what, actor=dst)
        self.deliver(src, dst, body)
