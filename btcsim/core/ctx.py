"""Run context: event log, invariants seen through one property's lens,
fault and probe counters.

A world is ``run(ctx)``. It logs events (``ctx.log``), counts faults that
actually fired (``ctx.fault``) and rare branches reached (``ctx.probe``),
and states invariants with ``ctx.check(prop, inv, cond, detail)``. Only
invariants of the property the check is run for (the *lens*) can produce a
violation; the others are evaluated lazily or not at all, so nothing is
attributed to a wrong id and nothing is reported twice.
"""

from __future__ import annotations

import hashlib
from collections import Counter
from contextlib import contextmanager
from typing import Any, Callable, Iterator

from btcsim.core.choices import Choices


class ViolationFound(Exception):
    """An invariant of the lens property is false. Ends the run."""

    def __init__(self, prop: str, inv: str, site: str, detail: str) -> None:
        super().__init__(f"{prop}/{inv}@{site}: {detail}")
        self.prop = prop
        self.inv = inv
        self.site = site
        self.detail = detail

    @property
    def signature(self) -> tuple[str, str, str]:
        return (self.prop, self.inv, self.site)


class RunAborted(Exception):
    """The run cannot continue for a reason that is not the lens's business.

    E.g. an invariant-free step refused under another property's edit of
    the tree. Counted, reported in the evidence, never an alarm.
    """


def _short(x: Any, limit: int = 96) -> str:
    if isinstance(x, (bytes, bytearray)):
        s = bytes(x).hex()
    else:
        s = str(x)
    return s if len(s) <= limit else s[: limit - 12] + f"..({len(s)})"


class Ctx:
    def __init__(self, ch: Choices, lens: str, cfg: dict[str, Any]) -> None:
        self.ch = ch
        self.lens = lens
        self.cfg = cfg
        self.events: list[str] = []
        self.trace: list[str] = []  # abstract trace: (actor, kind, fault) tokens
        self.faults: Counter[str] = Counter()
        self.probes: Counter[str] = Counter()
        self.checks: Counter[str] = Counter()
        self.seq = 0
        self.sim_time = 0
        self.switches = 0
        self.states: set[str] = set()
        self.sample: dict[str, Any] = {}
        self.known = known_findings(lens)
        self.known_hits: Counter[str] = Counter()

    # -- logging: never draws, never reads a clock ------------------------
    def log(self, kind: str, *details: Any, actor: str = "-") -> None:
        self.seq += 1
        self.events.append(
            f"{self.seq} t={self.sim_time} {actor} {kind} " + " ".join(_short(d) for d in details)
        )
        self.trace.append(f"{actor}:{kind}")

    def note(self, kind: str, *details: Any, actor: str = "-") -> None:
        """Logged (and part of the determinism digest) but not of the abstract trace."""
        self.seq += 1
        self.events.append(
            f"{self.seq} t={self.sim_time} {actor} {kind} " + " ".join(_short(d) for d in details)
        )

    def fault(self, kind: str, *details: Any, actor: str = "-") -> None:
        self.faults[kind] += 1
        self.seq += 1
        self.events.append(
            f"{self.seq} t={self.sim_time} {actor} FAULT:{kind} " + " ".join(_short(d) for d in details)
        )
        self.trace.append(f"{actor}:!{kind}")

    def probe(self, name: str, n: int = 1) -> None:
        self.probes[name] += n

    def state(self, token: str) -> None:
        self.states.add(token)

    # -- invariants ---------------------------------------------------------
    def wants(self, prop: str) -> bool:
        return prop == self.lens

    def check(
        self,
        prop: str,
        inv: str,
        cond: bool | Callable[[], bool],
        detail: Any = "",
        site: str = "",
    ) -> bool:
        """True if the invariant holds (or is another lens's); False only for a *listed known finding*."""
        if prop != self.lens:
            return True
        self.checks[inv] += 1
        ok = cond() if callable(cond) else cond
        if not ok:
            d = detail() if callable(detail) else detail
            k = self._known(inv, site, str(d))
            if k is not None:
                # a listed finding: counted, announced by the runner, and the run goes on
                self.known_hits[known_id(k)] += 1
                self.note("KNOWN-FINDING", prop, inv, site)
                return False
            self.log("VIOLATION", prop, inv, site, d)
            raise ViolationFound(prop, inv, site, _short(d, 400))
        return True

    def _known(self, inv: str, site: str, detail: str) -> dict[str, Any] | None:
        for k in self.known:
            if k["invariant"] not in ("*", inv):
                continue
            if k.get("site") and k["site"] != site:
                continue
            if k.get("detail_contains") and k["detail_contains"] not in detail:
                continue
            return k
        return None

    @contextmanager
    def must_succeed(self, prop: str, inv: str, site: str = "") -> Iterator[None]:
        """The enclosed library calls must not raise.

        Under the lens ``prop`` any exception is a violation of ``inv``;
        under another lens the run is aborted quietly (the step this run
        depends on did not happen, and it is not this lens's subject).
        """
        try:
            yield
        except (ViolationFound, RunAborted):
            raise
        except _PASS_THROUGH:
            raise
        except Exception as e:  # noqa: BLE001
            if prop == self.lens:
                self.checks[inv] += 1
                d = f"{type(e).__name__}: {e}"
                k = self._known(inv, site, d)
                if k is not None:
                    self.known_hits[known_id(k)] += 1
                    self.note("KNOWN-FINDING", prop, inv, site)
                    raise RunAborted(f"known finding {known_id(k)}") from e
                self.log("VIOLATION", prop, inv, site, d)
                raise ViolationFound(prop, inv, site, _short(d, 400)) from e
            raise RunAborted(f"{prop}/{inv}@{site}: {type(e).__name__}: {e}") from e

    # -- digests --------------------------------------------------------------
    def digest(self) -> str:
        h = hashlib.sha256()
        for e in self.events:
            h.update(e.encode())
            h.update(b"\n")
        return h.hexdigest()

    def trace_hash(self) -> str:
        return hashlib.sha256("|".join(self.trace).encode()).hexdigest()[:16]


_KNOWN_CACHE: dict[str, list[dict[str, Any]]] | None = None


def known_findings(prop: str) -> list[dict[str, Any]]:
    """The ``known`` entries of /verif/known_findings.json for one property. Read once, never written."""
    global _KNOWN_CACHE  # noqa: PLW0603
    if _KNOWN_CACHE is None:
        import json  # noqa: PLC0415
        import os  # noqa: PLC0415

        path = os.path.join(os.path.dirname(os.path.dirname(os.path.dirname(os.path.abspath(__file__)))), "known_findings.json")
        by_prop: dict[str, list[dict[str, Any]]] = {}
        if os.path.exists(path):
            with open(path) as f:
                for k in json.load(f).get("findings", []):
                    if k.get("status") == "known":
                        by_prop.setdefault(k["property"], []).append(k)
        _KNOWN_CACHE = by_prop
    return _KNOWN_CACHE.get(prop, [])


def known_id(k: dict[str, Any]) -> str:
    return f"{k['invariant']}@{k.get('site', '*')}"


class HarnessTimeout(BaseException):
    """Per-run wall watchdog fired: a harness error, never a violation."""


_PASS_THROUGH: tuple[type[BaseException], ...] = (HarnessTimeout,)
