"""Run context: event log, invariants seen through one property's lens,
fault and probe counters.

A world is ``run(ctx)``. It logs events (``ctx.log``), counts faults that
actually fired (``ctx.fault``) and rare branches reached (``ctx.probe``),
and states invariants with ``ctx.check(prop, inv, cond, detail)``. Only
invariants of the property the check is run for (the *lens*) can produce a
violation; the others are evaluated lazily or not at all, so nothing is
attributed to a wrong id and nothing is reported twice.
"""

from __future__ import annotations

import hashlib
from collections import Counter
from contextlib import contextmanager
from typing import Any, Callable, Iterator

from btcsim.core.choices import Choices


class ViolationFound(Exception):
    """An invariant of the lens property is false. Ends the run."""

    def __init__(self, prop: str, inv: str, site: str, detail: str) -> None:
        super().__init__(f"{prop}/{inv}@{site}: {detail}")
        self.prop = prop
        self.inv = inv
        self.site = site
        self.detail = detail

    @property
    def signature(self) -> tuple[str, str, str]:
        return (self.prop, self.inv, self.site)


class RunAborted(Exception):
    """The run cannot continue for a reason that is not the lens's business.

    E.g. an invariant-free step refused under another property's edit of
    the tree. Counted, reported in the evidence, never an alarm.
    """


def _short(x: Any, limit: int = 96) -> str:
    if isinstance(x, (bytes, bytearray)):
        s = bytes(x).hex()
    else:
        s = str(x)
    return s if len(s) <= limit else s[: limit - 12] + f"..({len(s)})"


class Ctx:
    def __init__(self, ch: Choices, lens: str, cfg: dict[str, Any]) -> None:
        self.ch = ch
        self.lens = lens
        self.cfg = cfg
        self.events: list[str] = []
        self.trace: list[str] = []  # abstract trace: (actor, kind, fault) tokens
        self.faults: Counter[str] = Counter()
        self.probes: Counter[str] = Counter()
        self.checks: Counter[str] = Counter()
        self.seq = 0
        self.sim_time = 0
        self.switches = 0
        self.states: set[str] = set()
        self.sample: dict[str, Any] = {}

    # -- logging: never draws, never reads a clock ------------------------
    def log(self, kind: str, *details: Any, actor: str = "-") -> None:
        self.seq += 1
        self.events.append(
            f"{self.seq} t={self.sim_time} {actor} {kind} " + " ".join(_short(d) for d in details)
        )
        self.trace.append(f"{actor}:{kind}")

    def note(self, kind: str, *details: Any, actor: str = "-") -> None:
        """Logged (and part of the determinism digest) but not of the abstract trace."""
        self.seq += 1
        self.events.append(
            f"{self.seq} t={self.sim_time} {actor} {kind} " + " ".join(_short(d) for d in details)
        )

    def fault(self, kind: str, *details: Any, actor: str = "-") -> None:
        self.faults[kind] += 1
        self.seq += 1
        self.events.append(
            f"{self.seq} t={self.sim_time} {actor} FAULT:{kind} " + " ".join(_short(d) for d in details)
        )
        self.trace.append(f"{actor}:!{kind}")

    def probe(self, name: str, n: int = 1) -> None:
        self.probes[name] += n

    def state(self, token: str) -> None:
        self.states.add(token)

    # -- invariants ---------------------------------------------------------
    def wants(self, prop: str) -> bool:
        return prop == self.lens

    def check(
        self,
        prop: str,
        inv: str,
        cond: bool | Callable[[], bool],
        detail: Any = "",
        site: str = "",
    ) -> None:
        if prop != self.lens:
            return
        self.checks[inv] += 1
        ok = cond() if callable(cond) else cond
        if not ok:
            d = detail() if callable(detail) else detail
            self.log("VIOLATION", prop, inv, site, d)
            raise ViolationFound(prop, inv, site, _short(d, 400))

    @contextmanager
    def must_succeed(self, prop: str, inv: str, site: str = "") -> Iterator[None]:
        """The enclosed library calls must not raise.

        Under the lens ``prop`` any exception is a violation of ``inv``;
        under another lens the run is aborted quietly (the step this run
        depends on did not happen, and it is not this lens's subject).
        """
        try:
            yield
        except (ViolationFound, RunAborted):
            raise
        except _PASS_THROUGH:
            raise
        except Exception as e:  # noqa: BLE001
            if prop == self.lens:
                self.checks[inv] += 1
                d = f"{type(e).__name__}: {e}"
                self.log("VIOLATION", prop, inv, site, d)
                raise ViolationFound(prop, inv, site, _short(d, 400)) from e
            raise RunAborted(f"{prop}/{inv}@{site}: {type(e).__name__}: {e}") from e

    # -- digests --------------------------------------------------------------
    def digest(self) -> str:
        h = hashlib.sha256()
        for e in self.events:
            h.update(e.encode())
            h.update(b"\n")
        return h.hexdigest()

    def trace_hash(self) -> str:
        return hashlib.sha256("|".join(self.trace).encode()).hexdigest()[:16]


class HarnessTimeout(BaseException):
    """Per-run wall watchdog fired: a harness error, never a violation."""


_PASS_THROUGH: tuple[type[BaseException], ...] = (HarnessTimeout,)
