"""Batch runner: many short seeded runs over forked workers, violation
collection, minimisation, fresh-interpreter confirmation, evidence.
"""

from __future__ import annotations

import faulthandler
import json
import os
import signal
import subprocess
import sys
import time
import traceback
from collections import Counter
from concurrent.futures import FIRST_COMPLETED, ProcessPoolExecutor, wait
from dataclasses import dataclass, field
from multiprocessing import get_context
from typing import Any, Callable

from btcsim.core.choices import Choices, ReplayDrift, derive_seed
from btcsim.core.ctx import Ctx, HarnessTimeout, RunAborted, ViolationFound

VERIF_DIR = os.path.dirname(os.path.dirname(os.path.dirname(os.path.abspath(__file__))))
# overridable only for the sensitivity self-test, which must not touch the real evidence
REPLAY_DIR = os.environ.get("BTCSIM_REPLAY_DIR") or os.path.join(VERIF_DIR, "replays")
EVIDENCE_DIR = os.environ.get("BTCSIM_EVIDENCE_DIR") or os.path.join(VERIF_DIR, "evidence")
RUN_WALL_S = 120  # per-run wall watchdog: a trip is a harness error
TRACE_SET_CAP = 400_000


@dataclass
class RunResult:
    status: str  # ok | violation | aborted | error | timeout
    digest: str = ""
    trace_hash: str = ""
    values: list[int] = field(default_factory=list)
    record: list[tuple[str, int, int]] = field(default_factory=list)
    events: list[str] = field(default_factory=list)
    signature: tuple[str, str, str] | None = None
    detail: str = ""
    faults: Counter[str] = field(default_factory=Counter)
    probes: Counter[str] = field(default_factory=Counter)
    checks: Counter[str] = field(default_factory=Counter)
    switches: int = 0
    sim_time: int = 0
    n_events: int = 0
    states: set[str] = field(default_factory=set)
    sample: dict[str, Any] = field(default_factory=dict)
    known_hits: Counter[str] = field(default_factory=Counter)
    n_draws: int = 0


WorldFn = Callable[[Ctx], None]


def _alarm(signum: int, frame: Any) -> None:
    raise HarnessTimeout("per-run wall watchdog")


def execute(world: WorldFn, ch: Choices, lens: str, cfg: dict[str, Any], *, watchdog: bool = True) -> RunResult:
    """One run, from the canonical process state, with seams restored after."""
    from btcsim.seams import state as st  # noqa: PLC0415

    ctx = Ctx(ch, lens, cfg)
    res = RunResult(status="ok")
    st.reset_process_state()
    if watchdog:
        old = signal.signal(signal.SIGALRM, _alarm)
        signal.alarm(RUN_WALL_S)
    try:
        try:
            world(ctx)
        except ViolationFound as v:
            res.status = "violation"
            res.signature = v.signature
            res.detail = v.detail
        except RunAborted as a:
            res.status = "aborted"
            res.detail = str(a)
        except ReplayDrift:
            raise
        except HarnessTimeout as t:
            res.status = "timeout"
            res.detail = str(t)
        except Exception as e:  # noqa: BLE001
            res.status = "error"
            res.detail = f"{type(e).__name__}: {e}\n" + traceback.format_exc(limit=12)
    finally:
        if watchdog:
            signal.alarm(0)
            signal.signal(signal.SIGALRM, old)
        _restore_all()
    res.digest = ctx.digest()
    res.trace_hash = ctx.trace_hash()
    res.values = ch.values()
    res.n_draws = len(res.values)
    res.record = list(ch.record)
    res.events = ctx.events
    res.faults = ctx.faults
    res.probes = ctx.probes
    res.checks = ctx.checks
    res.switches = ctx.switches
    res.sim_time = ctx.sim_time
    res.n_events = ctx.seq
    res.states = ctx.states
    res.sample = ctx.sample
    res.known_hits = ctx.known_hits
    return res


def execute_isolated(world_name: str, ch: Choices, lens: str, cfg: dict[str, Any]) -> RunResult:
    """One run in a forked child of this (never-run-anything-itself, for isolated plans) process: whatever
    module state the run creates -- caches the reset does not know, tables published half-built, memo
    dicts a changed tree adds -- dies with the child, so every run of an isolated plan starts from the
    state the worker was forked with, by construction."""
    import pickle  # noqa: PLC0415
    import select  # noqa: PLC0415

    from btcsim.seams import state as st  # noqa: PLC0415

    st.discover_memo_dicts()  # imports all of btclib once, here, rather than in every child
    run_seed(world_name)
    rfd, wfd = os.pipe()
    pid = os.fork()
    if pid == 0:
        code = 1
        try:
            os.close(rfd)
            res = execute(run_seed(world_name), ch, lens, cfg)
            if res.status != "violation":
                # only a violation's choices and log are needed on the other side of the pipe
                res.values, res.record, res.events = [], [], res.events[:40]
            with os.fdopen(wfd, "wb") as f:
                f.write(pickle.dumps(res))
            code = 0
        finally:
            os._exit(code)
    os.close(wfd)
    chunks: list[bytes] = []
    deadline = time.time() + RUN_WALL_S + 30
    with os.fdopen(rfd, "rb") as f:
        while True:
            left = deadline - time.time()
            if left <= 0 or not select.select([f], [], [], left)[0]:
                os.kill(pid, signal.SIGKILL)
                break
            block = os.read(f.fileno(), 1 << 20)
            if not block:
                break
            chunks.append(block)
    os.waitpid(pid, 0)
    data = b"".join(chunks)
    if not data:
        return RunResult(status="timeout" if time.time() >= deadline else "error", detail="isolated run died without an answer")
    res = pickle.loads(data)  # noqa: S301
    assert isinstance(res, RunResult)
    return res


def run_one(world_name: str, ch: Choices, lens: str, cfg: dict[str, Any]) -> RunResult:
    if cfg.get("_isolate"):
        return execute_isolated(world_name, ch, lens, cfg)
    return execute(run_seed(world_name), ch, lens, cfg)


def _restore_all() -> None:
    import secrets  # noqa: PLC0415

    from btcsim.seams import rng, state as st  # noqa: PLC0415

    for k, v in rng._REAL.items():
        setattr(secrets, k, v)
    st.restore_process_state()
    sys.settrace(None)


# -- worker side ---------------------------------------------------------------
@dataclass
class ChunkResult:
    runs: int = 0
    statuses: Counter[str] = field(default_factory=Counter)
    faults: Counter[str] = field(default_factory=Counter)
    probes: Counter[str] = field(default_factory=Counter)
    checks: Counter[str] = field(default_factory=Counter)
    trace_hashes: set[str] = field(default_factory=set)
    nontrivial_hashes: set[str] = field(default_factory=set)
    states: set[str] = field(default_factory=set)
    events: int = 0
    draws: int = 0
    sim_time: int = 0
    switches: int = 0
    violations: list[dict[str, Any]] = field(default_factory=list)
    problems: list[dict[str, Any]] = field(default_factory=list)
    samples: list[dict[str, Any]] = field(default_factory=list)
    digests: dict[int, str] = field(default_factory=dict)
    wall: float = 0.0
    known_hits: Counter[str] = field(default_factory=Counter)


def run_seed(world_name: str) -> WorldFn:
    from btcsim.worlds import get_world  # noqa: PLC0415

    return get_world(world_name)


def run_chunk(
    world_name: str, lens: str, cfg: dict[str, Any], base_seed: int, start: int, count: int, want_digests: bool = False,
    deadline: float | None = None,
) -> ChunkResult:
    faulthandler.enable()
    world = run_seed(world_name)
    out = ChunkResult()
    t0 = time.time()
    for idx in range(start, start + count):
        if deadline is not None and out.runs and time.time() > deadline:
            break  # the batch's budget is spent: the rest of this chunk is simply not run
        seed = derive_seed(base_seed, world_name, idx)
        ch = Choices(seed=seed)
        r = run_one(world_name, ch, lens, dict(cfg, run_index=idx))
        out.runs += 1
        out.statuses[r.status] += 1
        out.faults.update(r.faults)
        out.probes.update(r.probes)
        out.checks.update(r.checks)
        out.known_hits.update(r.known_hits)
        out.trace_hashes.add(r.trace_hash)
        if sum(r.faults.values()) >= 1 or r.switches >= 2:
            out.nontrivial_hashes.add(r.trace_hash)
        out.states |= r.states
        out.events += r.n_events
        out.draws += r.n_draws
        out.sim_time += r.sim_time
        out.switches += r.switches
        if want_digests:
            out.digests[idx] = r.digest
        if r.status == "violation":
            if len(out.violations) < 4:
                out.violations.append(
                    {"idx": idx, "seed": seed, "signature": r.signature, "detail": r.detail, "values": r.values, "chunk_start": start}
                )
        elif r.status in ("error", "timeout", "aborted"):
            if len(out.problems) < 4:
                out.problems.append({"idx": idx, "seed": seed, "status": r.status, "detail": r.detail})
        if len(out.samples) < 1 and r.status == "ok" and (sum(r.faults.values()) or r.switches):
            out.samples.append({"run_index": idx, "seed": seed, "trace": r.events[:40], **r.sample})
    out.wall = time.time() - t0
    return out


# -- minimisation ----------------------------------------------------------------
def _fails_same(world: WorldFn, lens: str, cfg: dict[str, Any], values: list[int], sig: tuple[str, str, str]) -> RunResult | None:
    if cfg.get("_isolate"):
        r = execute_isolated(cfg["_world"], Choices(values=values), lens, cfg)
    else:
        r = execute(world, Choices(values=values), lens, cfg)
    if r.status == "violation" and r.signature == sig:
        return r
    return None


def _measure(values: list[int]) -> tuple[int, list[int]]:
    v = list(values)
    while v and v[-1] == 0:
        v.pop()
    return (len(v), v)


def minimise(
    world: WorldFn, lens: str, cfg: dict[str, Any], values: list[int], sig: tuple[str, str, str],
    max_exec: int = 400, max_s: float = 90.0,
) -> RunResult:
    """Shrink the choice list (shortlex on the list without trailing zeros)
    while the same violation signature persists."""
    t0 = time.time()
    budget = [max_exec]
    first = _fails_same(world, lens, cfg, values, sig)
    if first is None:
        raise RuntimeError("violation does not reproduce in-process from its own values")
    best: RunResult = first

    def alive() -> bool:
        # asked by every loop below before it builds a candidate: a run of 10^5 draws (a thread run stepping every
        # line) makes building the candidates quadratic long after the budget for executing them is spent
        return budget[0] > 0 and time.time() - t0 <= max_s

    def attempt(cand: list[int]) -> bool:
        nonlocal best
        if not alive():
            return False
        budget[0] -= 1
        r = _fails_same(world, lens, cfg, cand, sig)
        if r is not None and _measure(r.values) < _measure(best.values):
            best = r
            return True
        return False

    improved = True
    while improved and alive():
        improved = False
        # 1. drop the tail: exhausted draws answer 0
        cur = _measure(best.values)[1]
        lo, hi = 0, len(cur)
        while lo < hi and alive():
            mid = (lo + hi) // 2
            if attempt(cur[:mid]):
                improved = True
                hi = mid
            else:
                lo = mid + 1
        # 2. delete spans
        for span in (8, 4, 2, 1):
            cur = _measure(best.values)[1]
            i = 0
            while i + span <= len(cur) and alive():
                if attempt(cur[:i] + cur[i + span:]):
                    cur = _measure(best.values)[1]
                    improved = True
                else:
                    i += span
        # 3. zero spans, zero single values
        for span in (8, 1):
            cur = _measure(best.values)[1]
            i = 0
            while i < len(cur) and alive():
                if any(cur[i:i + span]):
                    if attempt(cur[:i] + [0] * len(cur[i:i + span]) + cur[i + span:]):
                        cur = _measure(best.values)[1]
                        improved = True
                i += span
        # 4. halve values
        cur = _measure(best.values)[1]
        i = 0
        while i < len(cur) and alive():
            v = cur[i]
            while v > 1 and alive():
                v //= 2
                if attempt(cur[:i] + [v] + cur[i + 1:]):
                    cur = _measure(best.values)[1]
                    improved = True
                    if i >= len(cur):
                        break
                else:
                    break
            i += 1
    return best


# -- replay files ----------------------------------------------------------------
def write_replay(prop: str, world_name: str, cfg: dict[str, Any], seed: int, idx: int, r: RunResult, original_len: int) -> str:
    os.makedirs(REPLAY_DIR, exist_ok=True)
    path = os.path.join(REPLAY_DIR, f"{prop}-{world_name}-{seed}-{idx}.json")
    doc = {
        "property": prop,
        "world": world_name,
        "config": cfg,
        "verif_seed": seed,
        "run_index": idx,
        "signature": list(r.signature or ()),
        "detail": r.detail,
        "original_draws": original_len,
        "record": [[lab, n, v] for lab, n, v in r.record],
        "trace": r.events,
    }
    with open(path, "w") as f:
        json.dump(doc, f, indent=1, default=str)
    return path


def replay_file(path: str) -> tuple[int, str]:
    """Re-execute a replay file strictly. Returns (exit code, message)."""
    with open(path) as f:
        doc = json.load(f)
    world = run_seed(doc["world"])
    if doc.get("kind") == "history":
        # the violating run needs the runs before it in the same process (state a run left behind):
        # re-execute that history from its seeds, in order
        want = tuple(doc["signature"])
        last: RunResult | None = None
        for idx in range(doc["first_run_index"], doc["run_index"] + 1):
            seed = derive_seed(doc["verif_seed"], doc["world"], idx)
            last = execute(world, Choices(seed=seed), doc["property"], dict(doc["config"], run_index=idx))
        assert last is not None
        if last.status == "violation" and last.signature == want:
            return 1, f"VIOLATION property={doc['property']} replay={path}\n  {last.signature} {last.detail}\n  (after runs {doc['first_run_index']}..{doc['run_index'] - 1} of the same process)"
        return 0, f"replay of {path}: no violation at run {doc['run_index']} (status {last.status}) {last.detail[:300]}"
    ch = Choices(strict_record=doc["record"])
    note = ""
    try:
        r = execute(world, ch, doc["property"], doc["config"])
    except ReplayDrift as d:
        # the tree is not the one the file was recorded on: replay the values loosely
        note = f" (the code asks for other draws than recorded -- {d}; values replayed loosely)"
        r = execute(world, Choices(values=[int(x[2]) for x in doc["record"]]), doc["property"], doc["config"])
    want = tuple(doc["signature"])
    if r.status == "violation" and r.signature == want:
        return 1, f"VIOLATION property={doc['property']} replay={path}\n  {r.signature} {r.detail}"
    if r.status == "violation":
        return 1, f"VIOLATION property={doc['property']} replay={path}\n  different signature {r.signature} {r.detail}"
    return 0, f"replay of {path}: no violation (status {r.status}){note} {r.detail[:300]}"


def confirm_fresh(path: str) -> bool:
    env = dict(os.environ, PYTHONHASHSEED="0", BTCSIM_CHILD="1")
    p = subprocess.run(  # noqa: S603
        [sys.executable, "-m", "btcsim", "replay", path],
        cwd=VERIF_DIR, env=env, capture_output=True, text=True, timeout=600, check=False,
    )
    return p.returncode == 1 and "VIOLATION" in p.stdout


def confirm_history(prop: str, plan: "Plan", base_seed: int, v: dict[str, Any]) -> str | None:
    """A violation that does not replay from its own choices may need what earlier runs of its
    worker left in the process. Re-execute the chunk's runs before it, in a fresh interpreter,
    from the smallest suffix of that history that still reproduces it. Returns the replay path."""
    os.makedirs(REPLAY_DIR, exist_ok=True)
    idx, first = v["idx"], v.get("chunk_start", v["idx"])
    if first >= idx:
        return None
    path = os.path.join(REPLAY_DIR, f"{prop}-{plan.world}-{base_seed}-{idx}-history.json")

    def write(start: int) -> None:
        with open(path, "w") as f:
            json.dump({
                "kind": "history", "property": prop, "world": plan.world, "config": plan.cfg, "verif_seed": base_seed,
                "first_run_index": start, "run_index": idx, "signature": list(v["signature"]), "detail": v["detail"],
            }, f, indent=1, default=str)

    write(first)
    if not confirm_fresh(path):
        os.remove(path)
        return None
    # shrink the history: the latest start that still reproduces
    lo, hi = first, idx - 1
    best = first
    while lo <= hi:
        mid = (lo + hi + 1) // 2
        write(mid)
        if confirm_fresh(path):
            best, lo = mid, mid + 1
        else:
            hi = mid - 1
        if lo > hi:
            break
    write(best)
    return path


# -- known findings ----------------------------------------------------------------
def load_known() -> list[dict[str, Any]]:
    p = os.path.join(VERIF_DIR, "known_findings.json")
    if not os.path.exists(p):
        return []
    with open(p) as f:
        return json.load(f).get("findings", [])


def match_known(known: list[dict[str, Any]], sig: tuple[str, str, str], detail: str) -> dict[str, Any] | None:
    for k in known:
        if k.get("status") != "known":
            continue
        if k["property"] != sig[0] or k["invariant"] != sig[1]:
            continue
        if k.get("site") and k["site"] != sig[2]:
            continue
        if k.get("detail_contains") and k["detail_contains"] not in detail:
            continue
        return k
    return None


# -- the check driver ----------------------------------------------------------------
@dataclass
class Plan:
    """One world under one lens with one config, and its share of the budget."""

    world: str
    cfg: dict[str, Any]
    share: float = 1.0
    chunk: int = 20
    label: str = ""


def run_check(
    prop: str, plans: list[Plan], tier: str, budget_s: float, level: str, rule: str,
    assumptions: list[str], real_vs_stub: dict[str, list[str]], workers: int | None = None,
    max_runs: int | None = None,
) -> int:
    t_start = time.time()
    base_seed = int(os.environ.get("VERIF_SEED", "20260922"))
    workers = workers or int(os.environ.get("VERIF_WORKERS", str(os.cpu_count() or 4)))
    print(f"btcsim check {prop} tier={tier} VERIF_SEED={base_seed} workers={workers} budget={budget_s:.0f}s", flush=True)
    known = load_known()
    total_share = sum(p.share for p in plans)
    agg: dict[str, ChunkResult] = {}
    next_idx: dict[str, int] = {}
    deadline: dict[str, float] = {}
    for p in plans:
        key = p.label or p.world
        agg[key] = ChunkResult()
        next_idx[key] = 0
    found: list[tuple[Plan, dict[str, Any]]] = []
    problems: list[tuple[Plan, dict[str, Any]]] = []
    ctxmp = get_context("fork")
    t_end = t_start + budget_s
    # time-sliced: each plan gets workers in proportion to its share
    # isolated plans get a pool of their own: its workers never run a world themselves (each run is a forked
    # child, see execute_isolated), so what a child starts from is what this process -- which runs no world
    # either -- was when the worker was forked
    with ProcessPoolExecutor(max_workers=workers, mp_context=ctxmp) as ex, ProcessPoolExecutor(max_workers=workers, mp_context=ctxmp) as ex_iso:
        pending: dict[Any, Plan] = {}
        spent: dict[str, float] = {(p.label or p.world): 0.0 for p in plans}

        def submit_one() -> bool:
            now = time.time()
            if now >= t_end or len(found) >= 3:
                return False
            # pick the plan most behind its share
            best: Plan | None = None
            best_score = None
            for p in plans:
                key = p.label or p.world
                if max_runs is not None and next_idx[key] >= max_runs:
                    continue
                score = (spent[key] + 1e-9) / p.share
                inflight = sum(1 for q in pending.values() if (q.label or q.world) == key)
                score += inflight * 0.5 / p.share
                if best_score is None or score < best_score:
                    best, best_score = p, score
            if best is None:
                return False
            key = best.label or best.world
            pool = ex_iso if best.cfg.get("_isolate") else ex
            fut = pool.submit(run_chunk, best.world, prop, best.cfg, base_seed, next_idx[key], best.chunk, False, t_end)
            next_idx[key] += best.chunk
            pending[fut] = best
            return True

        for _ in range(workers * 2):
            if not submit_one():
                break
        while pending:
            done, _ = wait(list(pending), timeout=5, return_when=FIRST_COMPLETED)
            for fut in done:
                plan = pending.pop(fut)
                key = plan.label or plan.world
                try:
                    cr: ChunkResult = fut.result()
                except Exception as e:  # noqa: BLE001
                    problems.append((plan, {"status": "worker-died", "detail": repr(e), "idx": -1, "seed": 0}))
                    continue
                a = agg[key]
                a.runs += cr.runs
                a.statuses.update(cr.statuses)
                a.faults.update(cr.faults)
                a.probes.update(cr.probes)
                a.checks.update(cr.checks)
                a.known_hits.update(cr.known_hits)
                # distinct-trace sets are capped (a very fast world makes millions of runs a minute): past the
                # cap the measure stops growing, i.e. it is reported conservatively
                if len(a.trace_hashes) < TRACE_SET_CAP:
                    a.trace_hashes |= cr.trace_hashes
                if len(a.nontrivial_hashes) < TRACE_SET_CAP:
                    a.nontrivial_hashes |= cr.nontrivial_hashes
                a.states |= cr.states
                a.events += cr.events
                a.draws += cr.draws
                a.sim_time += cr.sim_time
                a.switches += cr.switches
                a.wall += cr.wall
                spent[key] += cr.wall
                if len(a.samples) < 3:
                    a.samples.extend(cr.samples[: 3 - len(a.samples)])
                for v in cr.violations:
                    found.append((plan, v))
                for pr in cr.problems:
                    problems.append((plan, pr))
                submit_one()
            if time.time() > t_end + 600:
                for fut in pending:
                    fut.cancel()
                problems.append((plans[0], {"status": "timeout", "detail": "batch overran by 600 s", "idx": -1, "seed": 0}))
                break

    # -- triage violations ---------------------------------------------------------
    exit_code = 0
    reported: set[tuple[str, str, str]] = set()
    violations_reported = 0
    known_printed: set[str] = set()
    unconfirmed = 0
    for plan, v in found:
        sig = tuple(v["signature"])
        if sig in reported:
            continue
        reported.add(sig)  # type: ignore[arg-type]
        world = run_seed(plan.world)
        cfg = dict(plan.cfg, run_index=v["idx"], _world=plan.world)
        try:
            # the first signature gets the full budget, later ones less: the verdict is already known
            k = len(reported) - 1
            best = minimise(world, prop, cfg, v["values"], sig, max_s=(60.0, 25.0, 10.0)[min(k, 2)])  # type: ignore[arg-type]
        except RuntimeError as e:
            hist = confirm_history(prop, plan, base_seed, v)
            if hist is not None:
                print(f"VIOLATION property={prop} replay={hist}", flush=True)
                print(f"  invariant={sig[1]} site={sig[2]} (needs the runs before it in its process: a history replay)", flush=True)
                print(f"  {v['detail']}", flush=True)
                violations_reported += 1
                exit_code = max(exit_code, 1)
                continue
            print(f"UNCONFIRMED property={prop} violation {sig} at run {v['idx']}: {e}", flush=True)
            print(f"  {v['detail']}", flush=True)
            unconfirmed += 1
            continue
        k = match_known(known, sig, best.detail)  # type: ignore[arg-type]
        if k is not None:
            line = f"KNOWN-FINDING: property={prop} {k['what']}"
            if line not in known_printed:
                known_printed.add(line)
                print(line, flush=True)
            continue
        path = write_replay(prop, plan.world, cfg, base_seed, v["idx"], best, len(v["values"]))
        if confirm_fresh(path):
            print(f"VIOLATION property={prop} replay={path}", flush=True)
            print(f"  invariant={sig[1]} site={sig[2]} draws={len(best.values)} (from {len(v['values'])})", flush=True)
            print(f"  {best.detail}", flush=True)
            violations_reported += 1
            exit_code = max(exit_code, 1)
        else:
            hist = confirm_history(prop, plan, base_seed, v)
            if hist is not None:
                print(f"VIOLATION property={prop} replay={hist}", flush=True)
                print(f"  invariant={sig[1]} site={sig[2]} (needs the runs before it in its process: a history replay)", flush=True)
                print(f"  {v['detail']}", flush=True)
                violations_reported += 1
                exit_code = max(exit_code, 1)
                continue
            print(f"UNCONFIRMED property={prop} violation {sig} did not reproduce in a fresh interpreter: {path}", flush=True)
            print(f"  {best.detail}", flush=True)
            unconfirmed += 1

    if unconfirmed and violations_reported == 0:
        # something failed in a worker and not on replay: a source of nondeterminism outside the
        # seams (heap layout, ...). Not believed as a violation, not waved through either.
        print(f"HARNESS-ERROR property={prop} {unconfirmed} violation(s) seen in the batch did not replay", flush=True)
        exit_code = max(exit_code, 2)
    # every listed known finding of this property is announced, with how often this batch met it
    from btcsim.core.ctx import known_findings, known_id  # noqa: PLC0415

    hits: Counter[str] = Counter()
    for a in agg.values():
        hits.update(a.known_hits)
    for k in known_findings(prop):
        n = hits.get(known_id(k), 0)
        line = f"KNOWN-FINDING: property={prop} {k['what']}"
        if line not in known_printed:
            known_printed.add(line)
            print(line + (f" [met {n} times in this batch]" if n else " [not reached in this batch]"), flush=True)
    # known findings are also announced when their probe ran (deterministic probes
    # placed by worlds print through ctx.probes 'known:<id>')
    total_runs = sum(a.runs for a in agg.values())
    statuses: Counter[str] = Counter()
    for a in agg.values():
        statuses.update(a.statuses)
    bad = statuses["error"] + statuses["timeout"]
    if bad or any(pr["status"] == "worker-died" for _, pr in problems):
        for plan, pr in problems[:5]:
            if pr["status"] in ("error", "timeout", "worker-died"):
                print(f"HARNESS-ERROR property={prop} world={plan.world} run={pr['idx']} {pr['status']}: {pr['detail'][:1500]}", flush=True)
        if exit_code == 0:
            exit_code = 2
    if total_runs == 0:
        print(f"HARNESS-ERROR property={prop} no run completed", flush=True)
        exit_code = max(exit_code, 2)
    elif statuses["aborted"] * 5 > total_runs:
        for plan, pr in problems[:3]:
            print(f"ABORTED world={plan.world} run={pr['idx']}: {pr['detail'][:400]}", flush=True)
        print(f"HARNESS-ERROR property={prop} {statuses['aborted']}/{total_runs} runs aborted", flush=True)
        if exit_code == 0:
            exit_code = 2
    elif statuses["aborted"]:
        why = next((pr["detail"][:200] for _, pr in problems if pr["status"] == "aborted"), "")
        print(f"note: {statuses['aborted']}/{total_runs} runs aborted (not this property's subject), e.g. {why}", flush=True)

    wall = time.time() - t_start
    write_evidence(prop, tier, base_seed, level, rule, agg, plans, wall, violations_reported, assumptions, real_vs_stub, statuses, sorted(known_printed))
    print(f"{prop}: runs={total_runs} violations={violations_reported} statuses={dict(statuses)} wall={wall:.1f}s exit={exit_code}", flush=True)
    return exit_code


def write_evidence(
    prop: str, tier: str, seed: int, level: str, rule: str, agg: dict[str, ChunkResult], plans: list[Plan],
    wall: float, violations: int, assumptions: list[str], real_vs_stub: dict[str, list[str]],
    statuses: Counter[str], known_lines: list[str],
) -> None:
    os.makedirs(EVIDENCE_DIR, exist_ok=True)
    runs = sum(a.runs for a in agg.values())
    faults: Counter[str] = Counter()
    probes: Counter[str] = Counter()
    checks: Counter[str] = Counter()
    distinct = 0
    nontrivial = 0
    states = 0
    samples: list[Any] = []
    per_world = {}
    for key, a in agg.items():
        faults.update(a.faults)
        probes.update(a.probes)
        checks.update(a.checks)
        distinct += len(a.trace_hashes)
        nontrivial += len(a.nontrivial_hashes)
        states += len(a.states)
        samples.extend(a.samples[:2])
        per_world[key] = {
            "runs": a.runs,
            "events": a.events,
            "draws": a.draws,
            "simulated_time_units": a.sim_time,
            "context_switches": a.switches,
            "distinct_traces": len(a.trace_hashes),
            "distinct_nontrivial_traces": len(a.nontrivial_hashes),
            "distinct_abstract_states": len(a.states),
            "cpu_s": round(a.wall, 2),
            "statuses": dict(a.statuses),
        }
    rng_sites = {k[4:]: v for k, v in probes.items() if k.startswith("rng:")}
    rng_edges = {k[9:]: v for k, v in probes.items() if k.startswith("rng-edge:")}
    other_probes = {k: v for k, v in probes.items() if not k.startswith("rng")}
    doc = {
        "property_id": prop,
        "tier": tier,
        "seed": seed,
        "level": level,
        "coverage": {
            "evaluations": runs,
            "distinct_nontrivial": nontrivial,
            "rule": rule,
            "samples": samples or [{"note": "no run with a fired fault or a context switch in this batch"}],
            "simulated_runs": runs,
            "runs_per_hour": int(runs / wall * 3600) if wall > 0 else 0,
            "seeds": {"verif_seed": seed, "derivation": "sha256(VERIF_SEED, world, run_index)", "run_indexes": {k: [0, a.runs] for k, a in agg.items()}},
            "distinct_interleavings_or_traces": distinct,
            "distinct_abstract_states": states,
            "faults_fired": dict(sorted(faults.items())),
            "invariant_evaluations": dict(sorted(checks.items())),
            "probes": dict(sorted(other_probes.items())),
            "probes_unreached": sorted(k for k, v in other_probes.items() if v == 0),
            "rng_draws_per_site": dict(sorted(rng_sites.items())),
            "rng_edge_draws_per_site": dict(sorted(rng_edges.items())),
            "per_world": per_world,
            "run_statuses": dict(statuses),
            "real_vs_stub": real_vs_stub,
            "known_findings_seen": known_lines,
        },
        "assumptions": assumptions,
        "wall_s": round(wall, 2),
        "violations": violations,
    }
    with open(os.path.join(EVIDENCE_DIR, f"{prop}.json"), "w") as f:
        json.dump(doc, f, indent=1, default=str)
