"""One integer decides everything: the recorded choice sequence.

Every decision of a simulated run -- operation kinds and arguments,
courier delays and faults, crash points, thread switch points, every value
the patched ``secrets`` functions return -- is ``Choices.draw(n, label)``.

Three modes:
- generate: values come from ``random.Random(seed)`` (Mersenne twister
  seeded with an int: identical across processes and PYTHONHASHSEED);
- loose replay (shrinking): values come from a list, each reduced modulo
  the bound asked for now; an exhausted list answers 0, the minimal value;
- strict replay (replay files): as loose, but a (label, bound) that
  differs from the recorded one is ``ReplayDrift`` -- a harness error,
  never a violation.
"""

from __future__ import annotations

import hashlib
import random
from typing import Any, Sequence


class ReplayDrift(BaseException):
    """The code asked for a different draw than the replay file recorded."""


def derive_seed(*parts: Any) -> int:
    """A 64-bit seed from a tuple of ints/strings, stable across processes."""
    h = hashlib.sha256("\x1f".join(str(p) for p in parts).encode()).digest()
    return int.from_bytes(h[:8], "big")


class Choices:
    __slots__ = ("_rng", "_values", "_strict", "_labels", "_pos", "record", "seed", "notes")

    def __init__(
        self,
        seed: int | None = None,
        values: Sequence[int] | None = None,
        strict_record: Sequence[Sequence[Any]] | None = None,
    ) -> None:
        self.seed = seed
        self._rng = random.Random(seed) if values is None and strict_record is None else None
        self._strict = None
        if strict_record is not None:
            self._strict = [(str(r[0]), int(r[1])) for r in strict_record]
            values = [int(r[2]) for r in strict_record]
        self._values = list(values) if values is not None else None
        self._pos = 0
        # (label, bound, value)
        self.record: list[tuple[str, int, int]] = []
        # decisions a generator made once for the whole run (a function of earlier draws, never a source of any)
        self.notes: dict[str, Any] = {}

    # -- the one primitive ------------------------------------------------
    def draw(self, n: int, label: str) -> int:
        """An integer in [0, n). n >= 1."""
        if n < 1:
            raise ValueError(f"draw bound {n} for {label}")
        if self._rng is not None:
            v = self._rng.randrange(n)
        else:
            i = self._pos
            if self._strict is not None:
                if i >= len(self._strict):
                    raise ReplayDrift(f"draw #{i} {label}/{n}: replay exhausted")
                if self._strict[i] != (label, n):
                    raise ReplayDrift(
                        f"draw #{i}: asked {label}/{n}, recorded "
                        f"{self._strict[i][0]}/{self._strict[i][1]}"
                    )
            assert self._values is not None
            v = self._values[i] % n if i < len(self._values) else 0
        self._pos += 1
        self.record.append((label, n, v))
        return v

    # -- conveniences, all built on draw ----------------------------------
    def chance(self, num: int, den: int, label: str) -> bool:
        """True with probability num/den; False is the minimal value."""
        if num <= 0:
            return False
        if num >= den:
            return True
        return self.draw(den, label) >= den - num

    def between(self, lo: int, hi: int, label: str) -> int:
        """An integer in [lo, hi]."""
        return lo + self.draw(hi - lo + 1, label)

    def pick(self, seq: Sequence[Any], label: str) -> Any:
        return seq[self.draw(len(seq), label)]

    def weighted(self, pairs: Sequence[tuple[Any, int]], label: str) -> Any:
        total = sum(w for _, w in pairs)
        v = self.draw(total, label)
        for item, w in pairs:
            if v < w:
                return item
            v -= w
        raise AssertionError

    def nbytes(self, k: int, label: str) -> bytes:
        if k == 0:
            return b""
        return self.draw(1 << (8 * k), label).to_bytes(k, "big")

    def bits(self, k: int, label: str) -> int:
        return self.draw(1 << k, label) if k else 0

    def shuffled(self, seq: Sequence[Any], label: str) -> list[Any]:
        items = list(seq)
        for i in range(len(items) - 1, 0, -1):
            j = self.draw(i + 1, label)
            items[i], items[j] = items[j], items[i]
        return items

    def subset(self, seq: Sequence[Any], label: str) -> list[Any]:
        return [x for x in seq if self.draw(2, label)]

    def values(self) -> list[int]:
        return [v for _, _, v in self.record]
