"""Per-property check definitions: which worlds, which configs, what budget."""

from __future__ import annotations

import os

from btcsim.core.runner import Plan, run_check

REAL = [
    "all of btclib as imported from /repo's working tree",
    "btclib_secp256k1 cffi bindings (delegated arm)",
    "real threading.Thread objects under the baton scheduler",
]
STUB = [
    "secrets.randbelow/randbits/token_bytes/SystemRandom (seeded RNG seam)",
    "thread scheduler and SimLock (btcsim.core.threads)",
    "courier/network, SimDisk/SimFile, clocks (btcsim)",
]
BUDGET = {"quick": 60.0, "thorough": 780.0}

CHECKS: dict[str, dict[str, object]] = {
    "C20": {
        "level": "exploration",
        "plans": lambda tier: [
            Plan("state", {"part": "nonce"}, share=1.0, chunk=40, label="state/nonce"),
            Plan("state", {"part": "signer"}, share=1.0, chunk=40, label="state/signer"),
            Plan("state", {"part": "wallet"}, share=1.5, chunk=20, label="state/wallet"),
            Plan("state", {"part": "indep"}, share=2.0, chunk=10, label="state/indep"),
            Plan("state", {"part": "threads", "opcode": tier == "thorough"}, share=4.0, chunk=10, label="state/threads"),
        ],
        "rule": (
            "one evaluation = one seeded run: a generated history of calls on a nonce / signer / wallet object "
            "checked against a reference state machine after every step, or a list of pure calls re-evaluated "
            "under cache clears/shrinks and backend flips, or 2-4 simulated threads under a seeded (PCT / uniform / "
            "staggered) interleaving. distinct = distinct hash of the (actor, event, fault) sequence incl. the thread "
            "switch trace; non-trivial = at least one fault/perturbation fired or >= 2 context switches."
        ),
        "assumptions": [
            "pre-emption only at first-visit line (thorough: bytecode) boundaries of btclib frames; C calls are atomic (GIL)",
            "races between two threads on one secnonce bytearray or one wallet object are not asserted (not stated by the property)",
        ],
    },
}


def run_property_check(prop: str, tier: str) -> int:
    if prop not in CHECKS:
        print(f"HARNESS-ERROR unknown or unclaimed property {prop}")
        return 2
    c = CHECKS[prop]
    plans = c["plans"](tier)  # type: ignore[operator]
    only = os.environ.get("BTCSIM_ONLY")
    if only:
        plans = [p for p in plans if only in (p.label or p.world)]
    return run_check(
        prop, plans, tier, BUDGET[tier] * float(c.get("budget_scale", 1.0)),  # type: ignore[arg-type]
        str(c["level"]), str(c["rule"]), list(c["assumptions"]),  # type: ignore[call-overload]
        {"real": REAL, "stub": STUB},
    )
