"""Per-property check definitions: which worlds, which configs, what budget."""

from __future__ import annotations

import os
import sys

from btcsim.core.runner import Plan, run_check

REAL = [
    "all of btclib as imported from /repo's working tree",
    "btclib_secp256k1 cffi bindings (delegated arm)",
    "real threading.Thread objects under the baton scheduler",
]
STUB = [
    "secrets.randbelow/randbits/token_bytes/SystemRandom (seeded RNG seam)",
    "thread scheduler and SimLock (btcsim.core.threads)",
    "courier/network, SimDisk/SimFile, clocks (btcsim)",
]
BUDGET = {"quick": 60.0, "thorough": 780.0}

def _merged(a: dict[str, object], b: dict[str, object]) -> dict[str, object]:
    pa, pb = a["plans"], b["plans"]
    return {
        "level": a["level"],
        "plans": lambda tier: list(pa(tier)) + list(pb(tier)),  # type: ignore[operator]
        "rule": f"{a['rule']} || {b['rule']}",
        "assumptions": list(a["assumptions"]) + list(b["assumptions"]),  # type: ignore[call-overload]
    }


def _collect() -> dict[str, dict[str, object]]:
    """Every world module contributes its own ``CHECKS`` entries."""
    import importlib  # noqa: PLC0415

    from btcsim.worlds import _WORLDS  # noqa: PLC0415

    out: dict[str, dict[str, object]] = {}
    for _name, mod in sorted(_WORLDS.items()):
        try:
            m = importlib.import_module(mod)
        except ModuleNotFoundError as e:
            if e.name == mod:
                continue  # world not built
            print(f"note: world module {mod} does not import: {e!r}", file=sys.stderr)
            continue
        except Exception as e:  # noqa: BLE001
            # one world that does not import (an edited tree, a half-built world) must not take the others down
            print(f"note: world module {mod} does not import: {e!r}", file=sys.stderr)
            continue
        for pid, c in getattr(m, "CHECKS", {}).items():
            if pid in out:
                out[pid] = _merged(out[pid], c)  # two worlds serve one property: their plans add up
            else:
                out[pid] = c
    return out


CHECKS: dict[str, dict[str, object]] = _collect()


def run_property_check(prop: str, tier: str) -> int:
    if prop not in CHECKS:
        print(f"HARNESS-ERROR unknown or unclaimed property {prop}")
        return 2
    c = CHECKS[prop]
    plans = c["plans"](tier)  # type: ignore[operator]
    only = os.environ.get("BTCSIM_ONLY")
    if only:
        plans = [p for p in plans if only in (p.label or p.world)]
    return run_check(
        prop, plans, tier, BUDGET[tier] * float(c.get("budget_scale", 1.0)),  # type: ignore[arg-type]
        str(c["level"]), str(c["rule"]), list(c["assumptions"]),  # type: ignore[call-overload]
        {"real": REAL, "stub": STUB},
    )
