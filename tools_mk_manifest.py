import json
NA = {
 "C02": "pure function of (key, message, signature, bytes): no draw, state, stream, schedule or peer in the anchored code (dsa.sign draws nothing; grinding is a counter). Its backend facet is decided under C04 and its Signer-wipe / history facet under C20.",
 "C06": "pure string<->bytes codecs with no seam; the one environmental switch under them (hashes._RIPEMD160_IN_HASHLIB) is read once at import and cannot move at run time.",
 "C07": "equations and composition laws relating pure computations of the same arguments; the base58 decode cache and tweak-add dispatch under them are covered as shared state in C20 and as a dual path in C04.",
 "C08": "equivalence with Bitcoin Core needs an independent consensus model and a search over script programs (differential testing), not schedules or faults; backend/cache/thread independence of verdicts is covered by C04 and C20.",
 "C14": "descriptor parsing, checksum, derivation and index_of are pure functions of (text, index); the wallet ledger built on them is state and is decided under C20.",
 "C15": "a property over a program space (typing, compilation, read-back, satisfaction) with no environment in it; generating well-typed expressions is program synthesis, not fault or schedule search.",
}
checks=[]
def add(pid, level, text, note, tech, ref):
    checks.append({
      "property_id": pid,
      "quick_cmd": f"/venv/bin/python -m btcsim check {pid} --tier quick",
      "thorough_cmd": f"/venv/bin/python -m btcsim check {pid} --tier thorough",
      "evidence_file": f"/verif/evidence/{pid}.json",
      "replay_cmd_template": "/venv/bin/python -m btcsim replay {path}",
      "engine": "btcsim",
      "level_claimed": {"category": level, "text": text, "design_ref": ref},
      "level_note": note,
      "technique": tech,
    })
add("C20","exploration",
    "Seeded search over call histories (nonce / signer / wallet objects vs reference state machines, checked after every step), over cache/backend perturbation sequences (pure calls vs their quiescent baseline) and over thread interleavings (2-4 real threads under a baton scheduler with PCT / uniform / staggered strategies). Sampling, not enumeration: a clean batch is evidence, not proof.",
    "Pre-emption at first-visit line boundaries (thorough: also every bytecode) of btclib frames; C calls atomic as under the GIL. Trusted: the reference models in btcsim (ledger dict, two-state machines), the sequential baseline as oracle for concurrent calls.",
    "deterministic simulation: seeded histories vs reference state machines; baton-passed threads with PCT scheduling; fault injection on caches, backend switch, wordlist disk read",
    "DESIGN.md section 3 (W8), section 4 (C20)")
import os
claimed={c["property_id"] for c in checks}
all_ids=[json.loads(l)["id"] for l in open("/verif/properties.jsonl")]
na=[]
for pid in all_ids:
    if pid in claimed: continue
    na.append({"property_id": pid, "reason": NA.get(pid, "claimed in DESIGN.md; its world is not built yet in this revision of /verif (work in progress)")})
m={
 "version":1,
 "setup_cmd":"/venv/bin/python -m btcsim setup",
 "hooks":{"guard":"BTCLIB_VERIF","enable":"no source hooks: every seam is reached through public API, parameters or run-time patching from the harness; checks import /repo's working tree directly (editable install)","baseline_off_cmd":"cd /repo && /venv/bin/python -m pytest -ra -q -p no:cacheprovider --timeout=900 --continue-on-collection-errors","source_commits":[],"add_only":True},
 "engines":[{"name":"btcsim","path":"/verif/btcsim","serves_properties":sorted(claimed),"kind_free_text":"pure-Python deterministic simulator: one recorded choice sequence per run (replay + shrinking), discrete-event courier, baton-passing thread scheduler, RNG/cache/backend/disk seams, reference models"}],
 "checks":checks,
 "not_applicable":na,
 "notes":"See DESIGN.md. Exit codes: 0 held, 1 VIOLATION, 2 harness error. known_findings.json lists fixed/known findings."
}
json.dump(m,open("/verif/MANIFEST.json","w"),indent=1)
