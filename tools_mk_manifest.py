"""Regenerates /verif/MANIFEST.json from the checks the worlds define.

Run with /venv/bin/python from /verif. CLAIMED is the list of properties
whose check is finished; everything else goes to not_applicable with its
reason.
"""

import json
import sys

sys.path.insert(0, "/verif")
from btcsim.checks import CHECKS  # noqa: E402

CLAIMED = sys.argv[1].split(",") if len(sys.argv) > 1 else sorted(CHECKS)

NA = {
    "C02": "pure function of (key, message, signature, bytes): no draw, state, stream, schedule or peer in the anchored code (dsa.sign draws nothing; grinding is a counter). Its backend facet is decided under C04 and its Signer-wipe / history facet under C20.",
    "C06": "pure string<->bytes codecs with no seam; the one environmental switch under them (hashes._RIPEMD160_IN_HASHLIB) is read once at import and cannot move at run time.",
    "C07": "equations and composition laws relating pure computations of the same arguments; the base58 decode cache and tweak-add dispatch under them are covered as shared state in C20 and as a dual path in C04.",
    "C08": "equivalence with Bitcoin Core needs an independent consensus model and a search over script programs (differential testing), not schedules or faults; backend/cache/thread independence of verdicts is covered by C04 and C20.",
    "C14": "descriptor parsing, checksum, derivation and index_of are pure functions of (text, index); the wallet ledger built on them is state and is decided under C20.",
    "C15": "a property over a program space (typing, compilation, read-back, satisfaction) with no environment in it; generating well-typed expressions is program synthesis, not fault or schedule search.",
}

TEXT = {
    "C01": (
        "Seeded search over (curve, operation) histories with every blinding draw behind the RNG seam (edge draws 0/1/n-2/n-1, the zero-divisor fallback), cache clears / shrinks / equal-curve twins, backend flips and seeded thread interleavings on shared tables; every answer is compared with a naive affine group law and pow(). Decides exactness under every draw, cache state, backend and schedule for the sampled inputs; the for-all over curves and scalars is sampled, not decided.",
        "Trusted: btcsim/ref/ec.py (naive affine law, enumeration of toy curves), Python's pow. Toy primes <= 251 incl. 3, 5, 7; 27 catalogued curves; <= 40 ops per run.",
        "deterministic simulation: RNG-seam fault injection on blinding draws, cache/backend perturbation, baton-passed threads; reference model = naive affine group law",
        "DESIGN.md 3 (W1), 4 (C01)",
    ),
    "C03": (
        "Seeded runs of signers, a relay that duplicates / reorders / corrupts exactly one member, and a batching verifier; aux and batch coefficients come from the RNG seam (uniform and edge). Signatures are compared byte for byte with a BIP340 transcription on secp256k1, verify_ with the reference verdict, batch_verify_ with the conjunction of singles for sizes 1..32 on both sides of the Bos-Coster switch.",
        "Trusted: btcsim/ref/bip340.py over ref/ec.py. Invalid batches carry one independently wrong member under any coefficient draw, or two members with swapped s values under UNIFORM coefficient draws only (DESIGN 10.7). Toy curves (p = 3 mod 4, cofactor 1): the verdict on every wrong member and a quarter of the honest ones is compared with the verification equation over the naive reference group (the challenge is the library's tagged hash), incl. a nonce at x = 0 and its r written as p; catalogued curves other than secp256k1: sign-then-verify and verdict laws only.",
        "deterministic simulation: relay faults (dup, reorder, one corrupted member), RNG-seam edge draws for aux and batch coefficients; reference model = BIP340 transcription",
        "DESIGN.md 3 (W2), 4 (C03)",
    ),
    "C04": (
        "Twin execution of every dual-path API on valid and hostile inputs: arm A then arm B from fresh state, histories with the switch flipped between calls and objects built on one arm used on the other, and a simulated thread flipping the switch at a pre-emption point inside the call. The observable (value, verdict, exact exception class) must be identical.",
        "Oracle is the other arm; no reference needed. Curves: the catalogue, and secp256k1 under another generator (-G, 2G, kG) built by the caller. Pre-emption at line boundaries of btclib frames. Known divergences are listed in known_findings.json by (api, input class).",
        "deterministic simulation: differential twin execution under a moving backend switch, seeded histories and thread interleavings",
        "DESIGN.md 3 (W3), 4 (C04)",
    ),
    "C05": (
        "Per generated object (every p2p payload, tx, block, header, PSBT v0/v2, keys, signatures, envelopes) a systematic walk of fault positions: every segmentation class of the byte stream into the resumable Message.parse loop, truncation at every field boundary +-1, every length prefix re-encoded non-minimally, count / marker / flag bytes at boundary values, trailing garbage, torn writes and bit rot on a simulated disk. Fault-free: exactly-once in-order delivery, exact `missing`, stream position, object equality, sizes / ids from hashlib, JSON round trip, PSBT fixed point vs a reference map splitter. Faulty: refused or canonical.",
        "Objects are sampled (field-wise generator with boundary values); fault positions are enumerated per object. Trusted: btcsim/ref/psbtmap.py, hashlib.",
        "deterministic simulation: fault enumeration over stream segmentation and stored-byte corruption per generated object; reference model = sent-message list, BIP174 map splitter",
        "DESIGN.md 3 (W4), 4 (C05)",
    ),
    "C09": (
        "The cross-path clause decided by simulation: along every simulated signing ceremony the digest via PrecomputedTxData, via psbt.ecdsa_sig_hash / taproot_sig_hash and via a PsbtView streamed from a simulated file (short reads, EIO on the n-th read, truncation; a caller writing into the copies the view handed out) equals the digest computed directly, for every input and hash type in use and an explicitly named one; under file faults the view refuses or agrees. The direct digest itself is held, as sampled evidence, to a transcription of the legacy / BIP143 / BIP341 texts; tapleaves with OP_CODESEPARATORs are spent with signatures over the transcribed digest for each position, which the engine (deriving the position itself) must accept, and refuse for another position.",
        "Equality with the text of the legacy / BIP143 / BIP341 algorithms is sampled, not decided: half of the direct digests are compared with a transcription of the defining texts (btcsim/ref/sighash.py: every hash type, the SINGLE out-of-range constant, OP_CODESEPARATOR removal by opcode walk, taproot with and without an annex); FindAndDelete of the signature is not covered.",
        "deterministic simulation: file-fault injection under a streamed PSBT view inside a multi-party ceremony; oracle = direct computation",
        "DESIGN.md 3 (W5), 4 (C09)",
    ),
    "C10": (
        "Discrete-event simulation of build -> update -> sign (k cosigners on their own hosts and disks) -> combine -> finalize -> extract -> engine, under courier drop / duplicate / delay / corruption, cosigner crash and restart, retransmission; then committed-field tampering of the finished transaction against a commitment table; message signatures bound to their address. Closure, liveness within R rounds after faults stop, tamper rejection.",
        "Oracle is the library's own engine (that is the property) plus the commitment table of DESIGN section 3. <= 4 inputs, <= 5 cosigners, trees <= depth 3, a fixed family of miniscript policies with older() / after() on both clocks (heights, and times from 500000000 on; one clock per run).",
        "deterministic simulation: discrete-event courier faults, crash/restart, retransmission; tamper injection against a commitment table",
        "DESIGN.md 3 (W5), 4 (C10)",
    ),
    "C11": (
        "Seeded partitions of a signed PSBT's key-value pairs over 2-5 copies, combined under drawn permutations, bracketings and duplications and compared with a union model over a reference map splitter; role sequences (sign, combine, finalize, to_v0, to_v2, join) checked for unchanged operands, fresh results and unchanged unsigned transaction; 20+ byzantine edits of a signer's answer each refused before merge; PsbtView over a faulty simulated file equal to the parsed object or refusing.",
        "Order independence asserted for non-conflicting, non-finalized operands only; tx_modifiable for order independence only. Trusted: btcsim/ref/psbtmap.py, psbtunion.py.",
        "deterministic simulation: seeded operand partitions / orders / role histories vs a reference union model; byzantine-peer and file-fault injection",
        "DESIGN.md 3 (W5), 4 (C11)",
    ),
    "C12": (
        "Two clauses: (i) every control block the library produces (input_script_sig, Updater, Finalizer) proves its leaf against the output key the wallet handed out -- for the trees wallets use in the ceremony and for drawn trees up to the BIP341 depth limit of 128 (caterpillars, lopsided trees, repeated leaves, other leaf versions, leaves of 252..256 and 525 octets), on both backends and across a flip; script-path spends of anyone-can-spend leaves are accepted by the engine; output_prvkey opens the output key; (ii) a single bit flipped in transit in control block, leaf script, leaf version, parity or output key is answered False / refused by check_output_pubkey and refused by the engine inside a spend; (iii) an internal key that is no point is refused by every producer, and a TapTweak digest drawn from [n, 2^256) (the hash as a seam) makes producers and checker refuse.",
        "That the output key IS BIP341's formula is sampled against a transcription (btcsim/ref/taproot.py), not decided.",
        "deterministic simulation: in-transit bit-flip injection on taproot proofs inside the ceremony and over drawn tree shapes; oracle = the library's verifier and engine",
        "DESIGN.md 3 (W5), 4 (C12), 10",
    ),
    "C13": (
        "SLIP39 as a collection protocol: a dealer splits under a drawn configuration with the entropy source behind the RNG seam, shares travel through a courier with loss / reorder / duplication / word corruption, a recovery node recovers from exact-threshold selections in drawn orders; BIP39 / Electrum generation through the RNG seam in every shipped language with unicode re-normalisation in transit; seeds vs hashlib.pbkdf2_hmac; BIP85 vs HMAC-SHA512.",
        "<= 40 shares per run, iteration exponent <= 1. Trusted: hashlib / hmac, a 5-line checksum reference.",
        "deterministic simulation: courier faults on share distribution/collection, RNG-seam edge draws for entropy; oracle = the split secret and hashlib",
        "DESIGN.md 3 (W7), 4 (C13)",
    ),
    "C16": (
        "Discrete-event sessions of MuSig2 (free functions and BIP373 over PSBT), two-party schemes (ECDH, ElligatorSwift, ECIES, DLEQ, Pedersen, Borromean) and BIP352/375 silent payments, with every internal draw behind the RNG seam (edge draws), arrival reordering, duplication, delay, signer crash between rounds, backend flips between parties. Honest runs complete and agree; aggregates verify under ssa.verify_ and a BIP340 transcription; liveness within R retransmission periods after faults stop.",
        "Trusted: btcsim/ref/bip340.py. Corruption only where the statement speaks of it. Public keys are handed to ECIES and the silent-payment light client in every spelling the API declares.",
        "deterministic simulation: discrete-event courier faults, crash/restart between rounds, RNG-seam edge draws; reference model = BIP340 transcription",
        "DESIGN.md 3 (W6), 4 (C16)",
    ),
    "C17": (
        "Simulated miners with skewed clocks, compact-block relay to peers with drawn pools (subset / superset / shuffle), a malicious relay (duplicated-tail mutation, wrong blocktxn, corrupted bytes), a BIP157/158 server and a light client, retargets at period boundaries; checked against reference merkle, GCS (SipHash + Golomb-Rice) and arith_uint256 models.",
        "Trusted: btcsim/ref/merkle.py, gcs.py, arith256.py. 48-bit short-id collisions are not produced (reported as unreached probe).",
        "deterministic simulation: discrete-event relay with byzantine-peer and corruption faults, clock skew; reference models for merkle, GCS, arith_uint256",
        "DESIGN.md 3 (W9), 4 (C17)",
    ),
    "C18": (
        "Accounting identities as invariants along every simulated ceremony: conservation, fee floor on the final vsize, fee == ceil(rate * vsize) on the priced size, dust rule, refusal of insufficient inputs, estimated_weight before signing >= weight after (with grinding and non-grinding signers, multisig up to 15 keys, 251-253 payments), size / weight / vsize identities (also of mined blocks and their tampered copies, a stripped coinbase witness included); and the satoshi/BTC and fee-rate conversions, money-range refusals and ceil fees under a drawn ambient decimal context (precision 1..50, six rounding modes) against exact integer / Fraction arithmetic.",
        "Trusted: btcsim/ref/fees.py, fractions.Fraction. The ambient decimal context is taken to be the only environment the conversions can depend on.",
        "deterministic simulation: invariants over the funded -> signed -> extracted pipeline of a multi-party ceremony under courier faults",
        "DESIGN.md 3 (W5), 4 (C18)",
    ),
    "C19": (
        "For every entry point a receiver calls on transmitted or stored data, the same systematic fault walk as C05 plus drawn bit flips and long runs of one octet, hostile scripts behind valid commitments handed to the engine, the streamed PsbtView on every PSBT mutant, a malicious peer's cfilters / merkle branches / signatures / proofs of hostile sizes handed to the decoders and boolean verifiers, and damaged text (non-ASCII and surrogate characters, numbers of thousands of digits, nesting 100 000 deep, bytes that are not UTF-8) handed to every text decoder: only library exceptions escape, no over-read of the caller's stream, each call consumes / refuses / asks for more (no livelock), boolean verifiers answer; each call runs under a per-call CPU budget.",
        "Text decoders (addresses, keys, paths, descriptors, miniscript, BIP21, mnemonics, hex / base64, amounts: 100 entry points) are covered by the `text` world on damaged well-formed texts of up to 100 000 characters; texts nobody would mistake for the kind are met through its long / edge classes only. CPU budget via ITIMER_VIRTUAL.",
        "deterministic simulation: fault enumeration (corruption / truncation / splicing at every position class) on every receiver entry point",
        "DESIGN.md 3 (W4), 4 (C19)",
    ),
    "C20": (
        "Seeded search over call histories (nonce / signer / wallet objects vs reference state machines, checked after every step), over cache / backend / object-identity perturbation sequences (pure calls vs their quiescent baseline) and over thread interleavings (2-4 real threads under a baton scheduler with PCT / uniform / staggered / rendezvous strategies: the last parks a thread inside a function that touches a hand-rolled memo or a lazily filled attribute until another thread has been through one, DESIGN 10.13). Sampling, not enumeration.",
        "Pre-emption at first-visit line boundaries (thorough: also every line event) of btclib frames; half of the thread budget runs each history in a forked child so that the threads are the first callers a process sees (DESIGN 10.10); C calls atomic as under the GIL. Trusted: the reference models in btcsim (ledger dict, two-state machines), the sequential baseline as oracle for concurrent calls.",
        "deterministic simulation: seeded histories vs reference state machines; baton-passed threads with PCT and rendezvous (race-directed) scheduling; fault injection on caches, backend switch, object address reuse, wordlist disk read",
        "DESIGN.md 3 (W8), 4 (C20), 10",
    ),
}

checks = []
for pid in sorted(CLAIMED):
    if pid not in CHECKS:
        continue
    text, note, tech, ref = TEXT[pid]
    checks.append(
        {
            "property_id": pid,
            "quick_cmd": f"/venv/bin/python -m btcsim check {pid} --tier quick",
            "thorough_cmd": f"/venv/bin/python -m btcsim check {pid} --tier thorough",
            "evidence_file": f"/verif/evidence/{pid}.json",
            "replay_cmd_template": "/venv/bin/python -m btcsim replay {path}",
            "engine": "btcsim",
            "level_claimed": {"category": str(CHECKS[pid]["level"]), "text": text, "design_ref": ref},
            "level_note": note,
            "technique": tech,
        }
    )
claimed = {c["property_id"] for c in checks}
all_ids = [json.loads(line)["id"] for line in open("/verif/properties.jsonl")]
na = [
    {"property_id": pid, "reason": NA.get(pid, "claimed in DESIGN.md; its check is still being built / triaged in this revision of /verif")}
    for pid in all_ids
    if pid not in claimed
]
manifest = {
    "version": 1,
    "setup_cmd": "/venv/bin/python -m btcsim setup",
    "hooks": {
        "guard": "BTCLIB_VERIF",
        "enable": "no source hooks: every seam is reached through public API, parameters or run-time patching from the harness; checks import /repo's working tree directly (editable install)",
        "baseline_off_cmd": "cd /repo && /venv/bin/python -m pytest -ra -q -p no:cacheprovider --timeout=900 --continue-on-collection-errors",
        "source_commits": [],
        "add_only": True,
    },
    "engines": [
        {
            "name": "btcsim",
            "path": "/verif/btcsim",
            "serves_properties": sorted(claimed),
            "kind_free_text": "pure-Python deterministic simulator: one recorded choice sequence per run (replay + shrinking), discrete-event courier, baton-passing thread scheduler, RNG / cache / backend / disk seams, reference models",
        }
    ],
    "checks": checks,
    "not_applicable": na,
    "notes": "See DESIGN.md (section 10 is the build log). Exit codes: 0 held, 1 VIOLATION (minimised, confirmed in a fresh interpreter), 2 harness error. known_findings.json lists fixed / known findings. /verif/seeded holds independently written breaking changes and DESIGN 10.4 says which check catches which.",
}
json.dump(manifest, open("/verif/MANIFEST.json", "w"), indent=1)
print("claimed:", sorted(claimed))
