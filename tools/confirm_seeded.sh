#!/bin/bash
# usage: confirm_seeded.sh <mutant worktree> <seeded name>
# Confirms independently: demo passes on the unchanged library and fails on the changed one;
# the test suite's failing set does not grow. Then stores the change under /verif/seeded/<name>/.
set -u
WT=$1; NAME=$2; OUT=/verif/seeded/$NAME
PY=/venv/bin/python
cd "$WT" || exit 2
git diff -- btclib > /tmp/confirm_$NAME.diff
[ -s /tmp/confirm_$NAME.diff ] || { echo "no source change in $WT"; exit 2; }
git checkout -q -- btclib
PYTHONPATH=$WT timeout 600 $PY _mutant/demo.py > /tmp/confirm_$NAME.clean.out 2>&1; CLEAN=$?
git apply /tmp/confirm_$NAME.diff
PYTHONPATH=$WT timeout 600 $PY _mutant/demo.py > /tmp/confirm_$NAME.mut.out 2>&1; MUT=$?
echo "demo: unchanged exit=$CLEAN changed exit=$MUT"
PYTHONPATH=$WT timeout 3000 $PY -m pytest -ra -q -p no:cacheprovider --timeout=900 --continue-on-collection-errors --no-cov -n ${NPROC:-6} tests > /tmp/confirm_$NAME.tests.log 2>&1
grep -E "^(FAILED|ERROR)" /tmp/confirm_$NAME.tests.log | sed 's/ - .*//' | sort -u > /tmp/confirm_$NAME.failset
NEW=$(comm -13 /tmp/baseline_failset.txt /tmp/confirm_$NAME.failset | wc -l)
TAIL=$(tail -1 /tmp/confirm_$NAME.tests.log)
echo "tests: $TAIL ; newly failing: $NEW"
if [ $CLEAN -eq 0 ] && [ $MUT -ne 0 ] && [ $NEW -eq 0 ]; then
  mkdir -p $OUT
  cp /tmp/confirm_$NAME.diff $OUT/patch.diff
  cp _mutant/demo.py $OUT/demo.py
  $PY - "$OUT" "$TAIL" <<'PYEOF'
import json,sys
out,tail=sys.argv[1],sys.argv[2]
try: m=json.load(open('_mutant/meta.json'))
except Exception: m={}
m['confirmed']={'demo_unchanged_exit':0,'demo_changed_exit':'nonzero','tests_after':tail,'newly_failing_tests':0,
  'ran':'tools/confirm_seeded.sh: demo on unchanged and changed worktree; full pytest suite on changed worktree compared with the baseline failing set'}
json.dump(m,open(out+'/meta.json','w'),indent=1)
PYEOF
  echo "KEPT $OUT"
else
  echo "NOT KEPT (clean=$CLEAN mut=$MUT new=$NEW)"; tail -5 /tmp/confirm_$NAME.mut.out
fi
