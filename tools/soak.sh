#!/bin/bash
# usage: soak.sh "<seeds>" [tier]  -- every claimed check under each seed; evidence and replays go to /var/tmp
TIER=${2:-quick}
cd "$(dirname "$0")/.."
for seed in $1; do
  for p in $(/venv/bin/python -c "import json;print(' '.join(c['property_id'] for c in json.load(open('MANIFEST.json'))['checks']))"); do
    VERIF_SEED=$seed BTCSIM_EVIDENCE_DIR=/var/tmp/soak-ev BTCSIM_REPLAY_DIR=/var/tmp/soak-replays timeout 3600 /venv/bin/python -m btcsim check $p --tier $TIER | grep -v "^btcsim\|KNOWN-FINDING" | sed "s/^/seed=$seed /" | cut -c1-300
  done
done
