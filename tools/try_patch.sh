#!/bin/bash
# usage: try_patch.sh <patch.diff> <property id> [tier]
# Applies the patch to a fresh scratch worktree of /repo HEAD and runs the property's check against it.
PATCH=$(readlink -f $1); PROP=$2; TIER=${3:-quick}
S=/var/tmp/btcsim-try-$$
git -C /repo worktree add -q --detach $S HEAD || exit 2
if git -C $S apply $PATCH; then
  cd /verif
  PYTHONPATH=$S BTCSIM_EVIDENCE_DIR=/var/tmp/try-ev BTCSIM_REPLAY_DIR=/var/tmp/try-replays VERIF_WORKERS=${VERIF_WORKERS:-8} \
    timeout 1800 /venv/bin/python -m btcsim check $PROP --tier $TIER 2>&1 | cut -c1-300 | tail -${LINES_OUT:-6}
  echo "exit=${PIPESTATUS[0]}"
else
  echo "patch does not apply to HEAD"
fi
git -C /repo worktree remove --force $S
