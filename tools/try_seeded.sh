#!/bin/bash
# usage: try_seeded.sh <worktree with the change applied> <property id> [tier]
# Runs the property's check against the changed worktree (PYTHONPATH), evidence and replays under /var/tmp.
WT=$1; PROP=$2; TIER=${3:-quick}
cd /verif
PYTHONPATH=$WT BTCSIM_EVIDENCE_DIR=/var/tmp/try-ev BTCSIM_REPLAY_DIR=/var/tmp/try-replays VERIF_WORKERS=${VERIF_WORKERS:-8} \
  timeout 1800 /venv/bin/python -m btcsim check $PROP --tier $TIER 2>&1 | cut -c1-400 | tail -${LINES_OUT:-8}
echo "exit=${PIPESTATUS[0]}"
